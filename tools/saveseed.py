#!/usr/bin/env python3
"""saveseed.py <name> <seed_dir> <property> '<confirmed line>' '<detected-by text>'"""
import json, os, shutil, sys
name, d, pid, confirmed, detected = sys.argv[1:6]
dst = f"/verif/seeded/{name}"
os.makedirs(dst, exist_ok=True)
shutil.copy(f"{d}/patch.diff", f"{dst}/patch.diff")
shutil.copy(f"{d}/demo.rs", f"{dst}/demo.rs")
meta = {}
try:
    meta = json.load(open(f"{d}/meta.json"))
except Exception:
    pass
meta.update({"property": pid, "confirmed_by_me": confirmed,
             "what_i_ran": f"tools/seedtest.sh {name} {d} {pid} (scratch worktree: apply patch, cargo test --workspace, demo with/without patch; then git -C /repo apply, ./check, git -C /repo checkout -- .)",
             "detected": detected})
json.dump(meta, open(f"{dst}/meta.json", "w"), indent=1)
print("saved", dst)
