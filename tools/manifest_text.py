TEXT = {
 "C14": {
  "text": "Theorems over Int (all start/end/k, no bound): numDays = max(0,end-start+1); the dates visited are exactly start..=end once each in order; partition of a non-empty range is a list of non-empty contiguous sub-ranges covering it exactly; at most max(k,1) parts; empty range with k>=2 gives no part. The model's num_days/partition bodies are tied to date.rs by the translator (shape check + clamp flag) and by bit-level correspondence on (start,end,k) grids; the range API is compared with the single-date API by the falsifier.",
  "design_ref": "DESIGN.md §7 C14",
  "note": "chrono date arithmetic modelled as integer day numbers (unit `civil` validates year/month/day/ordinal/leap against chrono); f64 ceil in partition modelled as integer ceil (exact below 2^52 days); per-day equality of range vs single-date API is tested, not proved (it is a for-loop over prayer_times_dt).",
  "technique": "Lean 4 theorems (omega/induction) over an integer model + translator + differential correspondence",
 },
 "C17": {
  "text": "Theorem over Int for every day number of 0001-01-01..9999-12-31: the model of HijriDate::from (loops with fuel, comparison operators and leap rule re-read from the source) returns exactly the closed-form Reingold-Dershowitz tabular date, never runs out of fuel, month in 1..12, day in 1..30 (so accessors/Display cannot panic), weekday = civil weekday. The model is compared with the real code on every one of the 3,652,059 dates (thorough) and the real code with an independent integer implementation on every date (both tiers).",
  "design_ref": "DESIGN.md §7 C17",
  "note": "hijri_date.rs computes in f64 with floor; the model computes in Int (exact for these magnitudes; validated exhaustively). chrono's ordinal/year modelled by Civil.lean (validated by unit `civil`).",
  "technique": "Lean 4 theorems (omega, residue splits) over an integer model + translator + exhaustive differential correspondence",
 },
}

NOT_APPLICABLE = {f"C{i:02d}": "check under construction in this session (model and correspondence exist; theorem file not yet registered)" for i in range(1, 21)}
