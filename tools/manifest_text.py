TEXT = {
 "C09": {
  "text": "Theorems for EVERY scalar type and an ARBITRARY day->hours function: the outward search returns the hours of date-i or date+i for the smallest i<=bound at which either has both twilights, date-i first (closest date, earlier on ties); it fails iff no date within the bound is good; the bound regenerated from ext_lat.rs is the length of the year; the all-prayers variant writes all six times of that date flagged extreme, the default variant exactly the missing twilights (flagged), leaving everything else untouched. The search/writers are tied to the code by the exhaustive-pattern extlat correspondence and adj; the falsifier compares with policy None on neighbouring dates to the second.",
  "design_ref": "DESIGN.md §7 C09",
  "note": "That a good day exists within the year for |lat|<=64 is not proved (astronomy); equality 'to the second' holds up to the 1-ulp difference between jd-i and the JD of date-i (h:m:s may differ only within 1 ms of a second boundary).",
  "technique": "Lean 4 theorems generic in the scalar type (List.findSome? induction) + translator + differential correspondence",
 },
 "C11": {
  "text": "Theorem over the reals for EVERY hour value and minute offset (bounded only by -2.4e6 h <= x < 4e9 h): hour_to_time succeeds (wrap loop within fuel, h<24, m<60, s<60) and returns exactly the stated function of the unrounded minute count M and second S of x wrapped into the day - None: truncated h:m:s; Normal: minute+1 iff S>=30; Special: that for the prayers in the regenerated set {Fajr,Dhuhr,Asr,Maghrib,Isha}, seconds dropped otherwise; Aggressive: minute+1 iff S>=1 - with carries through the hour and midnight by construction (clock of M+1); a rounded time is the minute of the unrounded one or the next. Validity/flag preservation is structural (to_prayer_time copies the flag). Bit-level correspondence on every mid-second of the day x 7 prayers x 4 modes (thorough) and the public API.",
  "design_ref": "DESIGN.md §7 C11",
  "note": "Ideal-arithmetic semantics: floating-point rounding at exact second boundaries is not covered by the theorem (measure-zero, exercised by correspondence).",
  "technique": "Lean 4 + Mathlib theorems over R (floor arithmetic) on the same generic model + translator + differential correspondence",
 },
 "C07": {
  "text": "Theorems for EVERY scalar type (hence for the Float program that is bit-compared with the Rust code): the policy layer (all 15 policies, every validity pattern, every parameter value, every environment) returns Ok given that Dhuhr is present, get_hours always reports Dhuhr, the interval pass never unwraps an invalid time (flag read re-extracted from ext_lat.rs), and prayer_times_dt returns its 7-field record whenever the hour->time conversions succeed; over R (Thm/C11 hourToTime_ok) every conversion of an hour >= -2.4e6 succeeds (h<24, m<60, s<60, wrap loop terminates). Correspondence on extlat (exhaustive 2^6 patterns x 15 policies x interval configs), adj, imsaak, h2t, ptdt, raw; falsifier with catch_unwind + watchdog.",
  "design_ref": "DESIGN.md §7 C07",
  "note": "Parameter sets with missing HashMap keys are outside the quantifier; non-finite float hours (e.g. -inf entering the wrap loop) are not covered by a theorem, only by the watchdog; bounded time is proved as fuel sufficiency over R, not as wall-clock.",
  "technique": "Lean 4 theorems generic in the scalar type (case analysis over policies/Option patterns) + translator + exhaustive-pattern differential correspondence",
 },
 "C08": {
  "text": "Theorems for EVERY scalar type: (1) the 12 policies restricted to Fajr/Isha leave Shurooq, Dhuhr, Asr, Maghrib exactly as computed (value and flag); (2) the six only-if-invalid policies return a valid angle-based Fajr/Isha exactly as the conventional result does and are the identity when all six hours exist; (3) in every result (15 policies) an unflagged entry equals the conventional entry, i.e. a replaced entry is flagged. The full-strength reading of (2) is proved FALSE with a generic witness (interval-defined Isha flagged extreme) - a known finding replayed on the code. Dispatch table, always-list and interval exclusions are regenerated from ext_lat.rs on every run.",
  "design_ref": "DESIGN.md §7 C08, §8",
  "note": "(3) assumes, for NearestLatitudeAllPrayersAlways with an interval method, that the substitute latitude has a Fajr/Isha; the interval-consuming policies are quantified over angle-based methods as the property states. One open known finding (flag of interval-defined times).",
  "technique": "Lean 4 theorems generic in the scalar type + translator + exhaustive-pattern differential correspondence",
 },
 "C14": {
  "text": "Theorems over Int (all start/end/k, no bound): numDays = max(0,end-start+1); the dates visited are exactly start..=end once each in order; partition of a non-empty range is a list of non-empty contiguous sub-ranges covering it exactly; at most max(k,1) parts; empty range with k>=2 gives no part. The model's num_days/partition bodies are tied to date.rs by the translator (shape check + clamp flag) and by bit-level correspondence on (start,end,k) grids; the range API is compared with the single-date API by the falsifier.",
  "design_ref": "DESIGN.md §7 C14",
  "note": "chrono date arithmetic modelled as integer day numbers (unit `civil` validates year/month/day/ordinal/leap against chrono); f64 ceil in partition modelled as integer ceil (exact below 2^52 days); per-day equality of range vs single-date API is tested, not proved (it is a for-loop over prayer_times_dt).",
  "technique": "Lean 4 theorems (omega/induction) over an integer model + translator + differential correspondence",
 },
 "C17": {
  "text": "Theorem over Int for every day number of 0001-01-01..9999-12-31: the model of HijriDate::from (loops with fuel, comparison operators and leap rule re-read from the source) returns exactly the closed-form Reingold-Dershowitz tabular date, never runs out of fuel, month in 1..12, day in 1..30 (so accessors/Display cannot panic), weekday = civil weekday. The model is compared with the real code on every one of the 3,652,059 dates (thorough) and the real code with an independent integer implementation on every date (both tiers).",
  "design_ref": "DESIGN.md §7 C17",
  "note": "hijri_date.rs computes in f64 with floor; the model computes in Int (exact for these magnitudes; validated exhaustively). chrono's ordinal/year modelled by Civil.lean (validated by unit `civil`).",
  "technique": "Lean 4 theorems (omega, residue splits) over an integer model + translator + exhaustive differential correspondence",
 },
}

NOT_APPLICABLE = {f"C{i:02d}": "check under construction in this session (model and correspondence exist; theorem file not yet registered)" for i in range(1, 21)}
