TEXT = {
 "C19": {
  "text": "Translation validation (weakest property for this technique). For every generated command line the bytes the real binary writes with -o are compared with the Lean model's rendering of the Lean model's range result (Params::new(method) wiring, location from the four validated values, date defaults, serde's map/Result/NaiveTime rendering) - so the CLI output is tied to the same model the other nineteen properties are proved about. Theorems (every scalar type): the wiring, the date defaults, a location exists iff all four values pass their range check and then holds exactly them, the tool computes one entry per date of the range each equal to the single-date result; and the result codec: a strict character-level decoder of the written document (Model/CliDecode.lean) is PROVED to invert the renderer on every well-formed result of any length (decode_render), the rendering is injective, every result the model computes is well formed (seven entries, each absent or h<24 m<60 s<60), hence the document written for a range in years 0..9999 decodes to exactly the per-date results of that range in order (cli_json_decodes_to_library_result). The correspondence line also carries a decode bit (real serde decoder vs library API / model decoder vs model result). The falsifier decodes the file with the real serde decoder against the library API, checks -p/-i byte-identity incl. reused paths, the terminal listing, and non-zero exit just outside each range.",
  "design_ref": "DESIGN.md §7 C19",
  "note": "clap, serde_json, chrono's formatting and the file system are exercised, not modelled in depth; 'today' defaults are not exercised (dates are always passed); the parameter file's float text (shortest round-trip rendering) is not modelled - the save/load clause is decided on the real binary only.",
  "technique": "translation validation of the real binary's output against the Lean model's rendering + Lean wiring and codec (decode-after-render) theorems + falsifier on the real binary",
 },
 "C18": {
  "text": "Bit-level theorems over all 2^64 binary64 patterns: the exact magnitude is strictly increasing in the magnitude bits, so the sign-magnitude key orders exact values; the shared range check accepts exactly the finite patterns whose exact value lies in [lo,hi] (both bounds included, lo/hi the documented numbers: boundBits_values proves their exact values), rejects every NaN and both infinities, and stores the pattern unchanged; all six types route JSON through try_from (attribute re-read from the source) so the JSON number route equals the number route. The JSON number grammar is PROVED to be contained in the text grammar with the same reading (json_grammar_in_text_grammar), hence on every JSON number the JSON and text routes agree, and whatever the JSON route accepts the text route accepts with the same pattern, for every string. The comparison order, the twelve bound patterns and a correctly rounded decimal->binary64 model (text and JSON grammars) are compared with Rust (<=, <, ==, str::parse, serde_json) on large streams; the falsifier checks the three routes and composite documents.",
  "design_ref": "DESIGN.md §7 C18",
  "note": "The decimal parsers (Rust dec2flt, serde_json) are modelled, not verified; 'malformed text is an error, not a panic' is explored (catch_unwind), the grammar model is validated by correspondence. Route theorems: textRoute_in_range, textRoute_eq_number_route, jsonRoute_eq_textRoute; the text stream includes 16 families of non-literal notations (h:mm, 12,5, 45N ...) that must be rejected.",
  "technique": "Lean 4 + Mathlib (order) theorems over bit patterns + translator (ranges, serde attributes) + differential correspondence on bit-pattern and string streams",
 },
 "C15": {
  "text": "Theorems about the fan-in protocol as a labelled transition system (spawn/send/dropTx/recv/close over an unbounded FIFO channel per the mpsc contract), for EVERY schedule, every number of workers and every partition list: every partial result occurs in the state exactly as often as initially (conservation), so when the collector's loop has ended the merged results are exactly the workers' results (nothing lost or duplicated); the loop can end only after the original sender was dropped and every worker has sent; from every reachable unfinished state some action is enabled (no deadlock / lost wake-up); every schedule has at most 3k+2 steps; the sequential/parallel decision; with Thm C14 (exact-cover partition) the collected map is the sequential map. The skeleton of the real function (clone per worker inside the loop, drop(tx) after the loop and before join, collector appends all) is re-read from mod.rs on every run. Runtime: forced worker counts 1..64 and seeded perturbation, compared with the sequential API under a watchdog.",
  "design_ref": "DESIGN.md §7 C15",
  "note": "PARTIAL at the runtime level: real thread scheduling, mpsc and thread::scope internals are exercised, not proved; the model cannot exhibit OS-level behaviour (spurious wake-ups, panics inside std). parallel_eq_sequential composes protocol, partition cover and per-day range: for every completed schedule every date looks up the same result in the collected map as in the sequential map. The protocol skeleton is read structurally from the source (names captured).",
  "technique": "Lean 4 theorems over a labelled transition system (induction over schedules, counting invariant, decreasing measure) + translator (protocol skeleton) + schedule-perturbing runtime exploration",
 },
 "C01": {
  "text": "PARTIAL. Proved: Dhuhr is reported under all 15 policies (every scalar type); get_hour_angle is the stated angle reduced into (-180,180] and the transit fraction is reduced into [0,1) (R); the one-step correction leaves residual H*kappa with kappa=(D1/2+D2(m+m')/2-0.985647)/360, an exact identity, below 0.063 s under an explicit envelope (R; end to end on the model's Dhuhr: dhuhr_hour_angle_small); the RA-wrap handling yields the deltas of the unwrapped sequence (R; fails to check when the source sets prev_ra=0); JulianDay::new = civil day number + 1721424.5 - gmt/24 for every Gregorian date (R); tables and sidereal constants equal the frozen Meeus snapshot. Not proved: agreement of the truncated VSOP87 theory with the sky within 10 s - decided by the falsifier against an independent ephemeris on every run.",
  "design_ref": "DESIGN.md §3.3, §7 C01",
  "note": "The 10-second clause is a statement about the physical sky; it is explored (independent ephemeris), not proved. Envelope hypotheses of residual_bound are not proved: the falsifier evaluates them on every case from the implementation's ephemeris and fails a case outside them; extremes seen are in the evidence.",
  "technique": "Lean 4 + Mathlib theorems over R and generic theorems + translator (tables/constants/wrap statements) + bit-level correspondence + independent-ephemeris falsifier",
 },
 "C02": {
  "text": "PARTIAL. Proved: h0 = -0.8333 within 1e-3; the first approximation of rise/set is the hour angle H0 in (0,180) with sin(phi)sin(dec)+cos(phi)cos(dec)cos(H0)=sin(h0) exactly, so Shurooq/Maghrib sit a positive fraction of a day before/after transit (R); weather reaches only Shurooq and Maghrib, never their validity, and absent weather is the default 1010 mbar/14 C (every scalar type); rise/set in closed form is linear in the single weather factor P/1010*283/(273+T), two weathers move the time by exactly 24*(mu-mu')*rho(alt0)/D hours, mu lies in [283/3333, 1050/1010*283/183] over the valid ranges, and |shift| <= 24*1.53*rho/D under bounds rho, D on the unit refraction and the correction denominator (R); Shurooq-Dhuhr and Maghrib-Dhuhr equal -/+ the semi-diurnal arc plus the two one-step corrections modulo whole days exactly, hence Shurooq lies before and Maghrib after the same day's noon whenever the corrections are smaller than the arc (R). Not proved: size of the Newton correction, the two envelope quantities rho and D, and agreement with the sky (0.05 deg) - falsifier with the independent ephemeris.",
  "design_ref": "DESIGN.md §7 C02",
  "note": "Altitude clause explored, not proved; evaluated at the literal reported instant of the requested civil date; before/after noon is read modulo 24 h.",
  "technique": "Lean 4 + Mathlib theorems over R and generic non-interference theorems + translator + correspondence + independent-ephemeris falsifier",
 },
 "C03": {
  "text": "Proved over R for every latitude/declination with cos(phi)cos(dec)!=0: whenever Fajr (Isha) is reported, sin(phi)sin(dec)+cos(phi)cos(dec)cos(H)=sin(-angle) exactly with H=(Dhuhr-Fajr)/c degrees (resp. Isha-Dhuhr), Fajr<=Dhuhr<=Isha; a larger angle never gives a later Fajr or earlier Isha; for every scalar type Imsaak's computation is Fajr's with angle Fajr+Imsaak (no intervals) and equals that Fajr's time when not extreme; the method table equals the documented one. The 0.5-degree clause against the instantaneous altitude is astronomical: falsifier.",
  "design_ref": "DESIGN.md §7 C03",
  "note": "Exactness is over the reals on the model's declination of the date; the float gap is measured by bit-level correspondence; the instantaneous-altitude clause is explored.",
  "technique": "Lean 4 + Mathlib theorems over R (arccos/sin monotonicity) + generic theorems + translator (method table) + correspondence + falsifier",
 },
 "C04": {
  "text": "Proved over R: whenever Asr is reported the altitude at H=(Asr-Dhuhr)/c is exactly arctan(1/(k+tan|phi-dec|)) = arccot(k + noon shadow), k=1/2 regenerated from the enum; Asr is strictly after Dhuhr; Hanafi Asr strictly later than Shafi Asr; Asr's hour angle is strictly smaller than the first-approximation sunset hour angle (partial w.r.t. the corrected Maghrib). Zenith passage (phi=dec) included (|phi-dec|<90 is the only geometric hypothesis).",
  "design_ref": "DESIGN.md §7 C04",
  "note": "Asr < Maghrib is proved against the first approximation of Maghrib; the corrected Maghrib is checked by the falsifier.",
  "technique": "Lean 4 + Mathlib theorems over R (sin.arctan strictly monotone, arccos strictly antitone) + translator + correspondence + falsifier",
 },
 "C05": {
  "text": "Proved: a result is a record of exactly seven entries; over R Fajr<Dhuhr<Isha strictly, Dhuhr<Asr<Isha strictly, Imsaak<=Fajr (monotonicity at the sum angle), every twilight within 180c hours of Dhuhr, interval-defined Isha/Fajr after Maghrib/before Shurooq, rise/set offset in (0,1/2) day at first approximation (partial for the corrected Shurooq/Maghrib links); for every scalar type, with policy None no entry (Imsaak included) is flagged extreme. The real map's key set and the full chain on the real code: correspondence + falsifier.",
  "design_ref": "DESIGN.md §7 C05",
  "note": "Links through the Newton-corrected Shurooq/Maghrib are explored, not proved.",
  "technique": "Lean 4 + Mathlib theorems over R + generic theorems + correspondence + falsifier",
 },
 "C06": {
  "text": "Proved over R (cos(phi)cos(dec)>0, i.e. off the poles): each validity guard (twilight, rise/set, Asr) holds iff some hour angle puts the Sun at the defining altitude on the date's declination, iff -cos(phi+dec) <= sin(target) <= cos(phi-dec) (target between the day's lowest and highest altitude); for every scalar type policy None without intervals returns exactly the six computed hours unflagged (no fabrication, no withholding). Falsifier: validity vs the independent ephemeris's altitude range with the 0.05-degree exemption up to 89.5 degrees.",
  "design_ref": "DESIGN.md §7 C06",
  "note": "The pole itself (cos phi = 0) is outside the R theorems (division by zero is totalised in Mathlib); the property quantifies to 89.5 degrees.",
  "technique": "Lean 4 + Mathlib theorems over R + generic theorem + correspondence + falsifier",
 },
 "C10": {
  "text": "End-to-end theorems about adj_for_ext_lat for every scalar type: nearest-latitude 'all prayers' writes exactly the conventional hours of the substitute latitude (same day's geocentric ephemeris = from-scratch topocentric day at the substitute coordinates), all flagged; the Fajr/Isha variant exactly those two; seventh of night/day, angle-based and minutes-from-Maghrib give the stated expressions (24-(M-S))/7, (M-S)/7, (angle/60)*(24-M+S), S-FajrInterval, M+IshaInterval, flagged extreme; an interval-defined Isha keeps Maghrib+interval under every policy the interval pass does not skip; replaced values are flagged (Thm C08).",
  "design_ref": "DESIGN.md §7 C10",
  "note": "Formulas are stated in the scalar's own arithmetic, hence exact over R; the 3-second agreement on the real code is checked by the falsifier. The falsifier also probes purity (results depend on the arguments only: neighbours computed in sequence vs on a fresh thread).",
  "technique": "Lean 4 theorems generic in the scalar type + translator (dispatch/always/exclusion lists) + exhaustive-pattern correspondence + falsifier",
 },
 "C12": {
  "text": "For every scalar type: the six hours and the policy layer never read a minute offset; converting prayer p reads only minutes[p] and the rounding mode; Imsaak's conversion is a Fajr conversion with Fajr's offset (minus the Imsaak interval); interval definitions Isha=Maghrib+interval, Fajr=Shurooq-interval; Imsaak interval => Fajr offset reduced by it; when the reported Fajr is extreme Imsaak is that Fajr minus 1.5 min (or the interval) with its flag; changing the Asr school / Fajr angle / Isha angle / weather changes only the stated entries of get_hours; absent weather = default. Over R an offset of k minutes shifts the unrounded clock by exactly k minutes.",
  "design_ref": "DESIGN.md §7 C12, §9.2",
  "note": "Angle/school/weather clauses are stated on get_hours (conventional computation); under replacing policies their scope follows DESIGN 9.2. The falsifier also probes purity: each neighbour of a case (one argument changed, 12 kinds) computed after it on the same thread must equal the computation on a fresh thread.",
  "technique": "Lean 4 theorems generic in the scalar type (definitional non-interference) + R floor arithmetic + correspondence + falsifier",
 },
 "C13": {
  "text": "PARTIAL. Proved over R: for every Gregorian date JulianDay::new = civil day number + 1721424.5 - gmt/24 (the code's floor arithmetic equals the day number: omega over 12 month cases), hence consecutive dates are exactly 1 apart across month/year ends and leap days and JulianDay::sub/add land on the Julian Day of the stepped date; the RA-wrap handling yields the deltas of the unwrapped sequence (Thm C01). Not proved: smoothness of the ephemeris itself (second differences of VSOP87) - falsifier over consecutive triples incl. the March equinox days.",
  "design_ref": "DESIGN.md §7 C13",
  "note": "Thresholds 5/8/12 s and 4 min are explored on the real code; domain GMT within 4 h of lon/15.",
  "technique": "Lean 4 + Mathlib theorems over R/Int (floor arithmetic, omega) + translator + correspondence + falsifier",
 },
 "C16": {
  "text": "Proved over R for every latitude/longitude: the reported angle is atan2(K.west, K.north) with K the Kaaba's unit vector and north/west the local tangent unit vectors at the observer (3-D vector formulation; uses cos(latK)>0), i.e. the bearing counted from true north towards west; it lies in (-180,180]; the rotation label is CW iff negative; the function has no elevation input; the Kaaba constants are within 1e-4 of 21.4233N 39.8233E. The printed text is modelled at the bit level (exact binary64 value rounded half-even to tenths + degree sign + label) and PROVED to show the magnitude within 0.05 and the label CW exactly when the exact value is below zero; the model text is compared with Rust's formatter on every one-decimal rounding boundary below 400 incl. exact ties, carries, subnormals, huge values and random patterns, and with the real Qibla::to_string(). Falsifier: independent vector bearing within 1e-6 deg, text rendering, elevation independence.",
  "design_ref": "DESIGN.md §7 C16",
  "note": "atan2 is modelled by Complex.arg; one open known finding: exactly on the Kaaba's antimeridian floats give -180.0 instead of +180.0.",
  "technique": "Lean 4 + Mathlib theorems over R (Complex.arg_real_mul) and over the binary64 bit model (printed text) + translator + bit-level correspondence + falsifier",
 },
 "C20": {
  "text": "PARTIAL. Proved for every scalar type: the day's computation factors through the Julian Day object of local midnight (no other use of the zone offset); over R: that Julian Day moves by -d/24; get_hour_angle, the transit fraction and the parallax hour angle depend on longitude and sidereal time only through their sum (360-periodicity of the normalisations proved), so a site moved east by x with sidereal times lower by x has identical hours. Not proved: the remaining 10 s (the Sun's motion during the shifted interval) - metamorphic falsifier through the public API.",
  "design_ref": "DESIGN.md §7 C20",
  "note": "10-second clause explored; domain GMT within 4 h of lon/15 and shifts of at most 1 h (the property's parenthetical: the Sun's own motion during the shifted interval).",
  "technique": "Lean 4 + Mathlib theorems over R + correspondence + metamorphic falsifier",
 },
 "C09": {
  "text": "Theorems for EVERY scalar type and an ARBITRARY day->hours function: the outward search returns the hours of date-i or date+i for the smallest i<=bound at which either has both twilights, date-i first (closest date, earlier on ties); it fails iff no date within the bound is good; the bound regenerated from ext_lat.rs is the length of the year; the all-prayers variant writes all six times of that date flagged extreme, the default variant exactly the missing twilights (flagged), leaving everything else untouched. The search/writers are tied to the code by the exhaustive-pattern extlat correspondence and adj; the falsifier compares with policy None on neighbouring dates to the second.",
  "design_ref": "DESIGN.md §7 C09",
  "note": "That a good day exists within the year for |lat|<=64 is not proved (astronomy); equality 'to the second' holds up to the 1-ulp difference between jd-i and the JD of date-i (h:m:s may differ only within 1 ms of a second boundary).",
  "technique": "Lean 4 theorems generic in the scalar type (List.findSome? induction) + translator + differential correspondence",
 },
 "C11": {
  "text": "Theorem over the reals for EVERY hour value and minute offset (bounded only by -2.4e6 h <= x < 4e9 h): hour_to_time succeeds (wrap loop within fuel, h<24, m<60, s<60) and returns exactly the stated function of the unrounded minute count M and second S of x wrapped into the day - None: truncated h:m:s; Normal: minute+1 iff S>=30; Special: that for the prayers in the regenerated set {Fajr,Dhuhr,Asr,Maghrib,Isha}, seconds dropped otherwise; Aggressive: minute+1 iff S>=1 - with carries through the hour and midnight by construction (clock of M+1); a rounded time is the minute of the unrounded one or the next. Validity/flag preservation is structural (to_prayer_time copies the flag). Bit-level correspondence on every mid-second of the day x 7 prayers x 4 modes (thorough) and the public API.",
  "design_ref": "DESIGN.md §7 C11",
  "note": "Ideal-arithmetic semantics: floating-point rounding at exact second boundaries is not covered by the theorem (measure-zero, exercised by correspondence).",
  "technique": "Lean 4 + Mathlib theorems over R (floor arithmetic) on the same generic model + translator + differential correspondence",
 },
 "C07": {
  "text": "Theorems for EVERY scalar type (hence for the Float program that is bit-compared with the Rust code): the policy layer (all 15 policies, every validity pattern, every parameter value, every environment) returns Ok given that Dhuhr is present, get_hours always reports Dhuhr, the interval pass never unwraps an invalid time (flag read re-extracted from ext_lat.rs), and prayer_times_dt returns its 7-field record whenever the hour->time conversions succeed; over R (Thm/C11 hourToTime_ok) every conversion of an hour >= -2.4e6 succeeds (h<24, m<60, s<60, wrap loop terminates). Correspondence on extlat (exhaustive 2^6 patterns x 15 policies x interval configs), adj, imsaak, h2t, ptdt, raw; falsifier with catch_unwind + watchdog.",
  "design_ref": "DESIGN.md §7 C07",
  "note": "Parameter sets with missing HashMap keys are outside the quantifier; non-finite float hours (e.g. -inf entering the wrap loop) are not covered by a theorem, only by the watchdog; bounded time is proved as fuel sufficiency over R, not as wall-clock.",
  "technique": "Lean 4 theorems generic in the scalar type (case analysis over policies/Option patterns) + translator + exhaustive-pattern differential correspondence",
 },
 "C08": {
  "text": "Theorems for EVERY scalar type: (1) the 12 policies restricted to Fajr/Isha leave Shurooq, Dhuhr, Asr, Maghrib exactly as computed (value and flag); (2) the six only-if-invalid policies return a valid angle-based Fajr/Isha exactly as the conventional result does and are the identity when all six hours exist; (3) in every result (15 policies) an unflagged entry equals the conventional entry, i.e. a replaced entry is flagged. The full-strength reading of (2) is proved FALSE with a generic witness (interval-defined Isha flagged extreme) - a known finding replayed on the code. Dispatch table, always-list and interval exclusions are regenerated from ext_lat.rs on every run.",
  "design_ref": "DESIGN.md §7 C08, §8",
  "note": "(3) assumes, for NearestLatitudeAllPrayersAlways with an interval method, that the substitute latitude has a Fajr/Isha; the interval-consuming policies are quantified over angle-based methods as the property states. One open known finding (flag of interval-defined times). Imsaak is included in the unflagged-is-conventional clause since fix 292f915 (theorems imsaak_unflagged_not_fallback / imsaak_unflagged_is_conventional).",
  "technique": "Lean 4 theorems generic in the scalar type + translator + exhaustive-pattern differential correspondence",
 },
 "C14": {
  "text": "Theorems over Int (all start/end/k, no bound): numDays = max(0,end-start+1); the dates visited are exactly start..=end once each in order; partition of a non-empty range is a list of non-empty contiguous sub-ranges covering it exactly; at most max(k,1) parts; empty range with k>=2 gives no part. The model's num_days/partition bodies are tied to date.rs by the translator (shape check + clamp flag) and by bit-level correspondence on (start,end,k) grids; the range API is compared with the single-date API by the falsifier.",
  "design_ref": "DESIGN.md §7 C14",
  "note": "chrono date arithmetic modelled as integer day numbers (unit `civil` validates year/month/day/ordinal/leap against chrono); f64 ceil in partition modelled as integer ceil (exact below 2^52 days); per-day equality of range vs single-date API is tested, not proved (it is a for-loop over prayer_times_dt). Dates and day numbers are in bijection (fromRD_toRD, fromRD_valid); the range API is compared with the single-date API over methods x policies x places x seasons (ranges that leave the season of extreme Fajr).",
  "technique": "Lean 4 theorems (omega/induction) over an integer model + translator + differential correspondence",
 },
 "C17": {
  "text": "Theorem over Int for every day number of 0001-01-01..9999-12-31: the model of HijriDate::from (loops with fuel, comparison operators and leap rule re-read from the source) returns exactly the closed-form Reingold-Dershowitz tabular date, never runs out of fuel, month in 1..12, day in 1..30 (so accessors/Display cannot panic), weekday = civil weekday. The model is compared with the real code on every one of the 3,652,059 dates (thorough) and the real code with an independent integer implementation on every date (both tiers).",
  "design_ref": "DESIGN.md §7 C17",
  "note": "hijri_date.rs computes in f64 with floor; the model computes in Int (exact for these magnitudes; validated exhaustively). chrono's ordinal/year modelled by Civil.lean (validated by unit `civil`).",
  "technique": "Lean 4 theorems (omega, residue splits) over an integer model + translator + exhaustive differential correspondence",
 },
}

NOT_APPLICABLE = {f"C{i:02d}": "check under construction in this session (model and correspondence exist; theorem file not yet registered)" for i in range(1, 21)}
