#!/bin/bash
# coverage.sh - which lines of /repo/src do the correspondence units and falsifiers execute?
# One-off measurement (not a registered check): builds the harness with -C instrument-coverage on
# the nightly toolchain in a scratch directory, runs every unit and falsifier at the quick size,
# and writes coverage/summary.txt + coverage/uncovered.txt.  Scratch is removed at the end.
set -u
S=/tmp/ipt_cov; rm -rf $S; mkdir -p $S/prof
BIN=$(rustc +nightly --print sysroot)/lib/rustlib/x86_64-unknown-linux-gnu/bin
export CARGO_NET_OFFLINE=true CARGO_TARGET_DIR=$S/target RUSTFLAGS="-C instrument-coverage" LLVM_PROFILE_FILE=$S/prof/build_%p.profraw
( cd /verif/harness && cargo +nightly build --release --offline 2>&1 | tail -2 )
H=$S/target/release/ipt_harness
units="angle civil jd astro top raw adj extlat imsaak h2t ptdt params hijri daterange rng qibla fmt1 qtext bounded f64cmp parse"
for u in $units; do LLVM_PROFILE_FILE=$S/prof/u_$u.profraw $H corr $u quick 1 > /dev/null 2>&1; done
IPT_BIN=/verif/build/repo-target/release/islamic_prayer_times LLVM_PROFILE_FILE=$S/prof/u_cli.profraw $H corr cli quick 1 > /dev/null 2>&1
for p in C01 C02 C03 C04 C05 C06 C07 C08 C09 C10 C11 C12 C13 C14 C15 C16 C17 C18 C20; do
  LLVM_PROFILE_FILE=$S/prof/f_$p.profraw $H falsify $p quick 1 < /dev/null > /dev/null 2>&1
done
$BIN/llvm-profdata merge -sparse $S/prof/*.profraw -o $S/all.profdata
mkdir -p /verif/coverage
$BIN/llvm-cov report $H -instr-profile=$S/all.profdata --ignore-filename-regex='(\.cargo|rustc|harness/src)' > /verif/coverage/summary.txt 2>&1
$BIN/llvm-cov show $H -instr-profile=$S/all.profdata --ignore-filename-regex='(\.cargo|rustc|harness/src)' --show-line-counts-or-regions 2>/dev/null \
  | python3 -c "
import sys,re
cur=None; intest=False
for l in sys.stdin:
    if l.startswith('/repo/src') and l.rstrip().endswith(':'):
        cur=l.strip(); print(cur); continue
    m=re.match(r'\s*(\d+)\|\s*0\|(.*)',l)
    if m and cur: print('  %s: %s'%(m.group(1),m.group(2).rstrip()))
" > /verif/coverage/uncovered.txt
rm -rf $S
tail -25 /verif/coverage/summary.txt
