"""Per-property configuration of ./check: theorem module (IPT/Thm/<id>.lean), correspondence
footprint (units), falsifier, level, trusted base.  GEN_ITEMS maps translator items to the
properties whose theorems use them (a translator failure on an item is a broken obligation of
exactly those properties; items not listed break every property)."""

COMMON_ASSUME = [
    "Lean Float = IEEE binary64 with the same libm as Rust's f64 on this machine (measured by the correspondence, not proved)",
    "chrono / serde / clap / std are modelled by contract, exercised by the correspondence",
]

EPHEM = ["angle", "jd", "astro", "top"]

PROPS = {
    "C07": {
        "level": "proof",
        "units": ["extlat", "adj", "imsaak", "h2t", "ptdt", "raw"],
        "rule": "falsifier: 9 methods x 15 policies x 4 roundings with random numeric fields over C07's ranges under catch_unwind and a 20 s watchdog; non-trivial = distinct (policy, rounding, interval-method?, rounded latitude)",
        "trusted": ["HashMaps with the key sets Params::new creates are modelled as records",
                    "float-only escapes (non-finite hours) are outside the theorems; the falsifier's watchdog covers them"],
        "assumptions": COMMON_ASSUME,
    },
    "C08": {
        "level": "proof",
        "units": ["extlat", "adj"],
        "rule": "falsifier: policy P vs ExtremeLatitudeMethod::None on the same inputs, |lat|<=70, 8 methods x 14 policies, half of the cases where twilight is missing; non-trivial = distinct (policy, twilight missing?, date class)",
        "trusted": ["'conventional' = result under policy None (which still runs the interval pass)"],
        "assumptions": COMMON_ASSUME,
    },
    "C09": {
        "level": "proof",
        "units": ["extlat", "adj", "jd", "civil"],
        "rule": "falsifier: NearestGoodDay* vs policy None on neighbouring dates (brute-force closest good day, earlier on ties, within +-366 days), |lat|<=64 weighted to 48..64 both hemispheres and to the local summer; non-trivial = distinct (variant, distance to the good day, date class) with a twilight missing",
        "trusted": ["existence of a good day within the year for |lat|<=64 is astronomical: decided by the falsifier, not a theorem",
                    "JulianDay::sub/add value vs the Julian Day of the stepped date: equal over the reals (Thm C13), 1 ulp in floats (falsifier tolerance DESIGN §9.5)"],
        "assumptions": COMMON_ASSUME,
    },
    "C11": {
        "level": "proof",
        "units": ["h2t", "ptdt"],
        "rule": "falsifier: each rounding mode vs mode None - through the hook for every second of the day at mid-second (stride 11 s quick, every second thorough) x 6 prayers x 3 modes plus edges and +-24 h offsets, and through the public API with prayers slid to 23:59:xx / xx:59:xx; non-trivial = distinct (prayer, mode, unrounded second)",
        "trusted": ["theorems are over the reals: doubles within 1 ulp of a second/minute boundary are outside them (correspondence uses mid-second points; exact-second points are exercised by the unit `h2t`)"],
        "assumptions": COMMON_ASSUME,
    },
    "C14": {
        "level": "proof",
        "units": ["daterange", "civil"],
        "rule": "falsifier: (start,end,k) triples; non-trivial = distinct (span,k) with span>=0 and k>=2",
        "trusted": ["chrono date arithmetic modelled as integer day numbers (validated by unit `civil`)"],
        "assumptions": COMMON_ASSUME,
    },
    "C17": {
        "level": "proof",
        "units": ["hijri", "civil"],
        "rule": "falsifier: every date 0001-01-01..9999-12-31 against an independent integer Reingold-Dershowitz implementation; non-trivial = every date (all distinct)",
        "trusted": ["f64 floor arithmetic in hijri_date.rs modelled over Int (validated exhaustively by unit `hijri` in the thorough tier)"],
        "assumptions": COMMON_ASSUME,
    },
}

GEN_ITEMS = {
    "intFlagRead": ["C07", "C08", "C10", "C12"],
    "isAlways": ["C07", "C08", "C09", "C10", "C12"],
    "canAdj": ["C07", "C08", "C09", "C10", "C12"],
    "hasInv": ["C07", "C08", "C09", "C10", "C12"],
    "dispatch": ["C07", "C08", "C09", "C10", "C12"],
    "intExcluded": ["C07", "C08", "C10", "C12"],
    "Policy": ["C07", "C08", "C09", "C10", "C12", "C05", "C06"],
    "goodDayBound": ["C07", "C09"],
    "roundedPrayers": ["C07", "C11"],
    "methodTable": ["C03", "C05", "C12", "C19"],
    "numDays": ["C14", "C15"],
    "partition": ["C14", "C15"],
    "hijriYear": ["C17"],
    "hijriLeap": ["C17"],
    "hijriMonth": ["C17"],
    "hijriDim": ["C17"],
    "HIJRI_EPOCH": ["C17"],
}
