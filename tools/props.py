"""Per-property configuration of ./check: theorem module (IPT/Thm/<id>.lean), correspondence
footprint (units), falsifier, level, trusted base.  GEN_ITEMS maps translator items to the
properties whose theorems use them (a translator failure on an item is a broken obligation of
exactly those properties; items not listed break every property)."""

COMMON_ASSUME = [
    "Lean Float = IEEE binary64 with the same libm as Rust's f64 on this machine (measured by the correspondence, not proved)",
    "chrono / serde / clap / std are modelled by contract, exercised by the correspondence",
]

EPHEM = ["angle", "jd", "astro", "top"]

PROPS = {
    "C14": {
        "level": "proof",
        "units": ["daterange", "civil"],
        "rule": "falsifier: (start,end,k) triples; non-trivial = distinct (span,k) with span>=0 and k>=2",
        "trusted": ["chrono date arithmetic modelled as integer day numbers (validated by unit `civil`)"],
        "assumptions": COMMON_ASSUME,
    },
    "C17": {
        "level": "proof",
        "units": ["hijri", "civil"],
        "rule": "falsifier: every date 0001-01-01..9999-12-31 against an independent integer Reingold-Dershowitz implementation; non-trivial = every date (all distinct)",
        "trusted": ["f64 floor arithmetic in hijri_date.rs modelled over Int (validated exhaustively by unit `hijri` in the thorough tier)"],
        "assumptions": COMMON_ASSUME,
    },
}

GEN_ITEMS = {
    "numDays": ["C14", "C15"],
    "partition": ["C14", "C15"],
    "hijriYear": ["C17"],
    "hijriLeap": ["C17"],
    "hijriMonth": ["C17"],
    "hijriDim": ["C17"],
    "HIJRI_EPOCH": ["C17"],
}
