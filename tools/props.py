"""Per-property configuration of ./check: theorem module (IPT/Thm/<id>.lean), correspondence
footprint (units), falsifier, level, trusted base.  GEN_ITEMS maps translator items to the
properties whose theorems use them (a translator failure on an item is a broken obligation of
exactly those properties; items not listed break every property)."""

COMMON_ASSUME = [
    "Lean Float = IEEE binary64 with the same libm as Rust's f64 on this machine (measured by the correspondence, not proved)",
    "chrono / serde / clap / std are modelled by contract, exercised by the correspondence",
]

EPHEM = ["angle", "jd", "astro", "top"]

PROPS = {
    "C01": {
        "level": "proof",
        "units": ["angle", "jd", "civil", "astro", "top", "raw"],
        "rule": "falsifier: oracle hour angle of the Sun at the reported Dhuhr (the computed hour wrapped into the requested civil date as reported, UT = local - gmt) within 10 s; all latitudes incl. poles, GMT within 6 h of lon/15, 9 methods, one case in five on 18-24 March (RA wrap), one in seven with the clock at GMT+-12 (branch zone-end); every case also checks the hypotheses of C01.residual_bound (1.7 <= d1 <= 2.3, |d2| <= 0.019, |H| <= 0.5) on the implementation's ephemeris of the three days; non-trivial = distinct (date, lat, lon)",
        "trusted": ["independent ephemeris harness/src/oracle.rs ((i) Meeus ch.25, (ii) frozen VSOP87 snapshot with nutation as published; self-test (i) vs (ii) < 0.02 deg)",
                    "agreement of truncated VSOP87 with the sky and the envelope hypotheses of residual_bound are not theorems"],
        "assumptions": COMMON_ASSUME + ["Delta-T ignored by library and oracle"],
    },
    "C02": {
        "level": "proof",
        "units": ["angle", "jd", "astro", "top", "raw", "ptdt"],
        "rule": "falsifier: oracle geometric altitude at the literal reported instant vs -0.833 +- 0.05 deg, |lat|<=60; before/after noon read modulo 24 h; weather over its box moves only Shurooq/Maghrib by < 60 s; non-trivial = distinct (event, date, lat)",
        "trusted": ["size of the Newton correction and of the refraction term is not proved", "independent ephemeris (oracle.rs)"],
        "assumptions": COMMON_ASSUME,
    },
    "C03": {
        "level": "proof",
        "units": ["raw", "imsaak", "params", "top"],
        "rule": "falsifier: altitude at Fajr/Isha/Imsaak under the oracle's declination of the date within 0.03 deg, instantaneous oracle altitude within 0.5 deg, Imsaak = Fajr at the sum angle (to the second), monotone pairs (+0.7 deg); 6 angle methods + custom angles [9,21] x [0.5,3]; non-trivial = distinct (date, lat, angle)",
        "trusted": ["independent ephemeris (oracle.rs)"],
        "assumptions": COMMON_ASSUME,
    },
    "C04": {
        "level": "proof",
        "units": ["raw", "top"],
        "rule": "falsifier: Asr altitude under the oracle's declination vs arccot(k + tan|lat-dec|) within 0.03 deg, strict order Dhuhr < Asr < Maghrib, Hanafi later than Shafi; one case in four with the Sun passing the zenith (lat = dec +- eps); non-trivial = distinct (school, date, lat)",
        "trusted": ["Asr < Maghrib is proved for the first approximation of Maghrib only"],
        "assumptions": COMMON_ASSUME,
    },
    "C05": {
        "level": "proof",
        "units": ["ptdt", "raw", "adj"],
        "rule": "falsifier: seven keys, order of signed offsets from Dhuhr (mod 24 h) of the conventional entries, nothing extreme under policy None; 8 named methods + custom angles, 4 rounding modes, policy None or the library default; non-trivial = distinct (date, lat, rounding)",
        "trusted": ["the Shurooq/Maghrib links of the chain are proved for the first approximation only"],
        "assumptions": COMMON_ASSUME,
    },
    "C06": {
        "level": "proof",
        "units": ["raw", "adj", "top"],
        "rule": "falsifier: validity of each of the five events vs the oracle's altitude range of the day [-90+|lat+dec|, 90-|lat-dec|], 0.05 deg exemption, |lat|<=89.5 (half of the cases above 45 deg); one random case in fifty and every handed-over date are also evaluated at the latitudes where an event starts or stops existing, +-0.06..0.35 deg around each boundary (branch edge-probe); non-trivial = distinct (event that does not occur, date, lat)",
        "trusted": ["reachability is proved on the model's own declination of the date"],
        "assumptions": COMMON_ASSUME,
    },
    "C10": {
        "level": "proof",
        "units": ["extlat", "adj", "top"],
        "rule": "falsifier: each fallback formula recomputed from the conventional Shurooq/Maghrib (and from the conventional day at the substitute latitude) within 3 s, flags, interval definition kept; 8 methods x 10 policies, substitute latitudes in [-60,60], days with a missing time for the invalid/angle-based variants; non-trivial = distinct (policy, date class, lat) with an expectation",
        "trusted": ["domain: Shurooq and Maghrib fall within the civil day in that order (the property's own quantifier)"],
        "assumptions": COMMON_ASSUME,
    },
    "C12": {
        "level": "proof",
        "units": ["h2t", "imsaak", "extlat", "raw", "ptdt"],
        "rule": "falsifier: pairs of calls differing in one parameter (offset on a random key in [-90,90], intervals [1,120], +-1 deg angles, school, weather); scope of the angle/school/weather clauses per DESIGN 9.2; non-trivial = distinct (date, lat)",
        "trusted": [],
        "assumptions": COMMON_ASSUME,
    },
    "C13": {
        "level": "proof",
        "units": ["jd", "civil", "astro", "top", "raw"],
        "rule": "falsifier: second and first differences of the six raw hours over three consecutive dates, |lat|<=45 (Fajr/Isha <=40, Asr 25..45), GMT within 4 h of lon/15, one case in four on 17-25 March; non-trivial = distinct (date, lat, lon)",
        "trusted": ["smoothness of the ephemeris itself is astronomical (falsifier)", "GMT within 4 h of lon/15: beyond that a rise/set crosses local midnight and the clock time refers to another solar day (DESIGN 9.7)"],
        "assumptions": COMMON_ASSUME,
    },
    "C16": {
        "level": "proof",
        "units": ["qibla", "fmt1", "qtext"],
        "rule": "falsifier: independent 3-D vector bearing (west positive) within 1e-6 deg, range, rotation label, one-decimal text, elevation independence; grid incl. date line, Kaaba meridian/antimeridian + random; non-trivial = distinct (lat, lon) to 0.01 deg",
        "trusted": ["Complex.arg as the model of atan2", "core::fmt's `{:.1}` (exact value, correctly rounded, ties to even) is modelled at the bit level (Model/Fmt.lean) and compared with Rust on ties, carries, subnormals, huge values and random patterns (unit fmt1); the real Qibla::to_string() is compared with the model text of its own degrees() bits (unit qtext)"],
        "assumptions": COMMON_ASSUME,
    },
    "C20": {
        "level": "proof",
        "units": ["jd", "astro", "top", "raw"],
        "rule": "falsifier: metamorphic pairs through the public API (GMT +-1, +-0.5, +0.25 h; 15 deg east + 1 h) within 10 s (+1 s truncation), validity and flags unchanged, |lat|<=45, GMT within 4 h of lon/15; non-trivial = distinct (kind, date, shift, lon)",
        "trusted": ["the residual 10 s (the Sun's own motion during the shifted interval) is astronomical"],
        "assumptions": COMMON_ASSUME,
    },
    "C07": {
        "level": "proof",
        "units": ["extlat", "adj", "imsaak", "h2t", "ptdt", "raw"],
        "rule": "falsifier: 9 methods x 15 policies x 4 roundings with random numeric fields over C07's ranges under catch_unwind and a 20 s watchdog; non-trivial = distinct (policy, rounding, interval-method?, rounded latitude)",
        "trusted": ["HashMaps with the key sets Params::new creates are modelled as records",
                    "float-only escapes (non-finite hours) are outside the theorems; the falsifier's watchdog covers them"],
        "assumptions": COMMON_ASSUME,
    },
    "C08": {
        "level": "proof",
        "units": ["extlat", "adj", "imsaak"],
        "rule": "falsifier: policy P vs ExtremeLatitudeMethod::None on the same inputs, |lat|<=70, 8 methods x 14 policies, half of the cases where twilight is missing; non-trivial = distinct (policy, twilight missing?, date class)",
        "trusted": ["'conventional' = result under policy None (which still runs the interval pass)"],
        "assumptions": COMMON_ASSUME,
    },
    "C09": {
        "level": "proof",
        "units": ["extlat", "adj", "jd", "civil"],
        "rule": "falsifier: NearestGoodDay* vs policy None on neighbouring dates (brute-force closest good day, earlier on ties, within +-366 days), |lat|<=64 weighted to 48..64 both hemispheres and to the local summer; non-trivial = distinct (variant, distance to the good day, date class) with a twilight missing",
        "trusted": ["existence of a good day within the year for |lat|<=64 is astronomical: decided by the falsifier, not a theorem",
                    "JulianDay::sub/add value vs the Julian Day of the stepped date: equal over the reals (Thm C13), 1 ulp in floats (falsifier tolerance DESIGN §9.5)"],
        "assumptions": COMMON_ASSUME,
    },
    "C11": {
        "level": "proof",
        "units": ["h2t", "ptdt"],
        "rule": "falsifier: each rounding mode vs mode None - through the hook for every second of the day at mid-second (stride 11 s quick, every second thorough) x 6 prayers x 3 modes plus edges and +-24 h offsets, and through the public API with prayers slid to 23:59:xx / xx:59:xx; non-trivial = distinct (prayer, mode, unrounded second)",
        "trusted": ["theorems are over the reals: doubles within 1 ulp of a second/minute boundary are outside them (correspondence uses mid-second points; exact-second points are exercised by the unit `h2t`)"],
        "assumptions": COMMON_ASSUME,
    },
    "C14": {
        "level": "proof",
        "units": ["daterange", "civil", "rng"],
        "rule": "falsifier: (start,end,k) triples; non-trivial = distinct (span,k) with span>=0 and k>=2",
        "trusted": ["chrono date arithmetic modelled as integer day numbers (validated by unit `civil`)"],
        "assumptions": COMMON_ASSUME,
    },
    "C15": {
        "level": "proof",
        "units": ["daterange", "civil"],
        "rule": "falsifier: prayer_times_dt_rng_block vs prayer_times_dt_rng with the worker count forced to 1..64, thresholds 0..400, range lengths 0..6000 incl. fewer days than workers, seeded yields/sleeps at every spawn/send/recv point, 30 s watchdog; non-trivial = distinct (workers, days, threshold, seed) that take the parallel path",
        "trusted": ["std::sync::mpsc, thread::scope, available_parallelism are modelled by their documented contract (Model/Block.lean), not verified",
                    "the protocol model is tied to mod.rs by the translator's skeleton item `protocol` and by the runtime exploration, not by a bit-level correspondence"],
        "assumptions": COMMON_ASSUME,
    },
    "C17": {
        "level": "proof",
        "units": ["hijri", "civil"],
        "rule": "falsifier: every date 0001-01-01..9999-12-31 against an independent integer Reingold-Dershowitz implementation; non-trivial = every date (all distinct)",
        "trusted": ["f64 floor arithmetic in hijri_date.rs modelled over Int (validated exhaustively by unit `hijri` in the thorough tier)"],
        "assumptions": COMMON_ASSUME,
    },
    "C19": {
        "level": "translation_validation",
        "needs_bin": True,
        "units": ["cli", "params", "bounded", "daterange"],
        "rule": "falsifier: real binary runs - -o decoded with serde and compared with the library's range result; -p then -i byte-identical; every third case reuses the output/parameter paths of a longer earlier run; terminal listing (Hijri header + seven entries per date) for short ranges; 17 invalid command lines (each range +-1 ulp-ish, NaN/inf, malformed numbers/dates/method, missing argument) must exit non-zero and write nothing; 9 methods, ranges of 1..400 days; non-trivial = distinct (method, span, date class, lat)",
        "trusted": ["clap, serde_json, chrono formatting and the file system are modelled by contract / exercised, not verified",
                    "unit `cli` compares the real -o bytes with the Lean model's rendering (length + FNV-1a 64)"],
        "assumptions": COMMON_ASSUME,
    },
    "C18": {
        "level": "proof",
        "units": ["bounded", "f64cmp", "parse"],
        "rule": "falsifier: three routes x six types on a bit-pattern stream (both bounds +-1 ulp, +-0, subnormals, NaN payloads, +-inf, huge, random) and a string stream (1..25 significant digits, exponents, halfway cases, whitespace, malformed), plus Location/Weather/Params documents embedding out-of-range values; non-trivial = distinct (type, input)",
        "trusted": ["Rust's dec2flt and serde_json(float_roundtrip) are modelled as exact-decimal-to-nearest-even (validated on >10^6 strings by unit `parse`)",
                    "IEEE comparison at the bit level is validated against Rust and Lean Float by unit `f64cmp`"],
        "assumptions": COMMON_ASSUME,
    },
}

GEN_ITEMS = {
    "range": ["C18", "C19"], "serde": ["C18", "C19"],
    "protocol": ["C15"],
    "L0": ["C01", "C02", "C13", "C20"], "L1": ["C01", "C02", "C13", "C20"], "L2": ["C01", "C02", "C13", "C20"],
    "L3": ["C01", "C02", "C13", "C20"], "L4": ["C01", "C02", "C13", "C20"], "L5": ["C01", "C02", "C13", "C20"],
    "B0": ["C01", "C02", "C13", "C20"], "B1": ["C01", "C02", "C13", "C20"],
    "R0": ["C01", "C02", "C13", "C20"], "R1": ["C01", "C02", "C13", "C20"], "R2": ["C01", "C02", "C13", "C20"],
    "R3": ["C01", "C02", "C13", "C20"], "R4": ["C01", "C02", "C13", "C20"], "PE": ["C01", "C02", "C13", "C20"],
    "SIN_COEFFICIENT": ["C01", "C02", "C13", "C20"],
    "RA_WRAP": ["C01", "C13", "C02", "C20"], "raWrapNext": ["C01", "C13"], "raWrapPrev": ["C01", "C13"],
    "SIDEREAL_RATE": ["C01", "C13", "C20"], "GMST": ["C01", "C13", "C20"], "J2000": ["C01", "C13", "C20"],
    "CENTER_OF_SUN_ANGLE": ["C02", "C05", "C06"], "DEGREES_TO_10_BASE": ["C03", "C04", "C05"],
    "ASR_RATIO": ["C04"], "KAABA_LATITUDE": ["C16"], "KAABA_LONGITUDE": ["C16"],
    "DEF_IMSAAK_ANGLE": ["C03", "C12"], "DEFAULT_WEATHER": ["C02", "C12"],
    "intFlagRead": ["C07", "C08", "C10", "C12"],
    "isAlways": ["C07", "C08", "C09", "C10", "C12"],
    "canAdj": ["C07", "C08", "C09", "C10", "C12"],
    "hasInv": ["C07", "C08", "C09", "C10", "C12"],
    "dispatch": ["C07", "C08", "C09", "C10", "C12"],
    "intExcluded": ["C07", "C08", "C10", "C12"],
    "Policy": ["C07", "C08", "C09", "C10", "C12", "C05", "C06"],
    "goodDayBound": ["C07", "C09"],
    "roundedPrayers": ["C07", "C11"],
    "methodTable": ["C03", "C05", "C12", "C19"],
    "numDays": ["C14", "C15"],
    "partition": ["C14", "C15"],
    "hijriYear": ["C17"],
    "hijriLeap": ["C17"],
    "hijriMonth": ["C17"],
    "hijriDim": ["C17"],
    "HIJRI_EPOCH": ["C17"],
}

# translator stage -> the GEN_ITEMS keys whose model text that stage writes (one Lean file per stage).
# When a stage does not recognise its source the whole file keeps the pinned tree's text.
STAGE_ITEMS = {
    "gen_tables": ["L0", "L1", "L2", "L3", "L4", "L5", "B0", "B1", "R0", "R1", "R2", "R3", "R4", "PE", "SIN_COEFFICIENT"],
    "gen_consts": ["RA_WRAP", "raWrapNext", "raWrapPrev", "SIDEREAL_RATE", "GMST", "J2000", "CENTER_OF_SUN_ANGLE",
                   "DEGREES_TO_10_BASE", "ASR_RATIO", "KAABA_LATITUDE", "KAABA_LONGITUDE", "DEF_IMSAAK_ANGLE",
                   "DEFAULT_WEATHER", "range", "serde", "HIJRI_EPOCH"],
    "gen_lists": ["intFlagRead", "isAlways", "canAdj", "hasInv", "dispatch", "intExcluded", "Policy", "goodDayBound",
                  "roundedPrayers", "methodTable"],
    "gen_hijri": ["hijriYear", "hijriLeap", "hijriMonth", "hijriDim"],
    "gen_range": ["numDays", "partition"],
    "gen_protocol": ["protocol"],
}
# stages whose content the correspondence cannot determine by sampling (thread schedules): a shape the
# translator does not recognise is a broken obligation at once
STRICT_STAGES = {"gen_protocol"}
