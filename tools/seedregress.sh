#!/bin/bash
# seedregress.sh [seed names...] - apply every saved seeded change to /repo in turn, run the quick check of
# its property, undo.  Prints one line per seed: DETECTED (concrete replay) / DETECTED (no-failing-input-found)
# / MISSED.  Evidence and replays written meanwhile are discarded.
set -u
cd /verif
seeds=${@:-$(ls seeded | grep -E '^(C[0-9]{2}[a-z]|G[0-9]+)$')}
rm -rf /tmp/evidence_backup && cp -r evidence /tmp/evidence_backup
for sd in $seeds; do
  pid=$(python3 -c "import json;print(json.load(open('seeded/$sd/meta.json'))['property'])")
  if ! git -C /repo apply /verif/seeded/$sd/patch.diff 2>/dev/null; then echo "$sd $pid PATCH-DOES-NOT-APPLY"; continue; fi
  out=$(./check $pid 2>&1 | grep -E "^VIOLATION|^OK" | tail -1)
  git -C /repo checkout -- .
  case "$out" in
    *no-failing-input-found*) echo "$sd $pid DETECTED (no-failing-input-found)";;
    VIOLATION*) echo "$sd $pid DETECTED (concrete replay)";;
    *) echo "$sd $pid MISSED: $out";;
  esac
done
rm -rf evidence && mv /tmp/evidence_backup evidence
rm -f replays/*.json
( cd harness && CARGO_NET_OFFLINE=true cargo build --release --offline >/dev/null 2>&1 )
git -C /repo status --short | head -3
