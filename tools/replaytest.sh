#!/bin/bash
# replaytest.sh [seed names...] - for every saved seed: apply it, run its property's quick check, and if that
# produced a concrete replay, re-run `./check <pid> --replay <file>` on the seeded tree (must report the
# violation again) and on the restored tree (must not).
set -u
cd /verif
seeds=${@:-$(ls seeded | grep -E '^(C[0-9]{2}[a-z]|G[0-9]+)$')}
rm -rf /tmp/evidence_backup && cp -r evidence /tmp/evidence_backup
for sd in $seeds; do
  pid=$(python3 -c "import json;print(json.load(open('seeded/$sd/meta.json'))['property'])")
  git -C /repo apply /verif/seeded/$sd/patch.diff 2>/dev/null || { echo "$sd $pid PATCH-DOES-NOT-APPLY"; continue; }
  out=$(./check $pid 2>&1 | grep -E "^VIOLATION|^OK" | tail -1)
  case "$out" in
    *no-failing-input-found*) git -C /repo checkout -- .; echo "$sd $pid no-failing-input-found (nothing to replay)"; continue;;
    VIOLATION*) ;;
    *) git -C /repo checkout -- .; echo "$sd $pid MISSED"; continue;;
  esac
  cp replays/$pid.json /tmp/replay_$sd.json
  a=$(./check $pid --replay /tmp/replay_$sd.json 2>&1 | grep -cE "^VIOLATION")
  git -C /repo checkout -- .
  b=$(./check $pid --replay /tmp/replay_$sd.json 2>&1 | grep -cE "^VIOLATION")
  if [ "$a" = "1" ] && [ "$b" = "0" ]; then
    echo "$sd $pid replay OK (fails on the seeded tree, passes on the restored one)"
    # a minimised past failure that the restored tree passes: keep it in the corpus that every run evaluates first
    python3 - "$sd" "$pid" <<'PY'
import json, os, sys
sd, pid = sys.argv[1:3]
r = json.load(open(f"/tmp/replay_{sd}.json"))
inp = r.get("input")
if inp:
    os.makedirs("/verif/corpus", exist_ok=True)
    path = f"/verif/corpus/{pid}.jsonl"
    line = json.dumps(dict(inp, corpus_from=sd), sort_keys=True)
    have = set(open(path).read().splitlines()) if os.path.exists(path) else set()
    have = {l for l in have if json.loads(l).get("corpus_from") != sd}
    have.add(line)
    open(path, "w").write("\n".join(sorted(have)) + "\n")
PY
  else echo "$sd $pid REPLAY-PROBLEM seeded=$a clean=$b"; fi
  rm -f /tmp/replay_$sd.json
done
rm -rf evidence && mv /tmp/evidence_backup evidence
rm -f replays/*.json
( cd harness && CARGO_NET_OFFLINE=true cargo build --release --offline >/dev/null 2>&1 )
git -C /repo status --short | head -3
