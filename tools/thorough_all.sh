#!/bin/bash
# run setup and every property's thorough tier (used with `vp run`); prints one verdict line each
cd "$(dirname "$0")/.."
./setup > /tmp/setup_thorough.log 2>&1 || true
tail -2 /tmp/setup_thorough.log
for p in "$@"; do
  /usr/bin/time -f "$p %es" ./check $p --tier thorough 2>&1 | grep -E "^OK|VIOLATION|KNOWN|^C[0-9]+ [0-9.]+s" | cut -c1-220
  if [ -f replays/$p.json ]; then head -c 1500 replays/$p.json; echo; fi
done
