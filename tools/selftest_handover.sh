#!/bin/bash
# selftest_handover.sh - on the UNCHANGED tree, hand every falsifier the request streams of the day-level
# correspondence units (arbitrary parameter sets: angles 0..25, intervals 0..180, offsets, all policies)
# exactly as `check` does after a correspondence break, and require that none of them reports a failure
# other than a listed known-finding class.  A failure here is a falsifier that evaluates a clause outside
# its property's quantifier: it would turn a harmless correspondence break into a bogus replay.
set -u
H=/verif/harness/target/release/ipt_harness
( cd /verif/harness && CARGO_NET_OFFLINE=true cargo build --release --offline >/dev/null 2>&1 )   # against /repo as it is now
T=$(mktemp -d /tmp/ipt_handover.XXXX)
for u in extlat adj raw ptdt imsaak; do $H corr $u quick ${1:-7} | cut -f1 >> $T/req.txt; done
rc=0
for p in C01 C02 C03 C04 C05 C06 C07 C08 C09 C10 C11 C12 C13 C20; do
  out=$(timeout 1800 $H falsify $p replay 1 - < $T/req.txt 2>&1)
  nf=$(echo "$out" | grep '"fail"' | grep -vc finding_class)
  ev=$(echo "$out" | grep -o '"evaluations":[0-9]*' | head -1)
  echo "$p unlisted-failures=$nf $ev"
  if [ "$nf" != "0" ]; then rc=1; echo "$out" | grep '"fail"' | grep -v finding_class | head -2 | cut -c1-600; fi
done
rm -rf $T
exit $rc
