#!/usr/bin/env python3
"""Writes MANIFEST.json from tools/props.py (one source of truth for what is claimed)."""
import json, os, sys
ROOT = os.path.dirname(os.path.dirname(os.path.abspath(__file__)))
sys.path.insert(0, os.path.join(ROOT, "tools"))
from props import PROPS
from manifest_text import TEXT, NOT_APPLICABLE

checks = []
for pid in sorted(PROPS):
    t = TEXT[pid]
    checks.append({
        "property_id": pid,
        "quick_cmd": f"./check {pid} --tier quick",
        "thorough_cmd": f"./check {pid} --tier thorough",
        "evidence_file": f"/verif/evidence/{pid}.json",
        "replay_cmd_template": f"./check {pid} --replay {{path}}",
        "engine": "lean4-proof+correspondence",
        "level_claimed": {"category": PROPS[pid]["level"], "text": t["text"], "design_ref": t["design_ref"]},
        "level_note": t["note"],
        "technique": t["technique"],
    })
m = {
    "version": 1,
    "setup_cmd": "./setup",
    "hooks": {
        "guard": "verif",
        "enable": "cargo feature `verif` of islamic_prayer_times (harness/Cargo.toml depends on /repo with features = [\"verif\"])",
        "baseline_off_cmd": "cd /repo && cargo test --workspace --no-fail-fast --offline",
        "source_commits": ["89f0972"],
        "add_only": True,
    },
    "engines": [{
        "name": "lean4-proof+correspondence",
        "path": "/verif/lean, /verif/harness, /verif/tools/gen.py, /verif/check",
        "serves_properties": sorted(PROPS),
        "kind_free_text": "Lean 4 model generic in the scalar type (theorems over R / Int / every scalar); translator regenerates tables, constants and dispatch lists from the Rust source on every run; Float instance of the same model bit-compared with the Rust code; falsifiers produce replays",
    }],
    "checks": checks,
    "not_applicable": [{"property_id": k, "reason": v} for k, v in sorted(NOT_APPLICABLE.items()) if k not in PROPS],
    "notes": "See DESIGN.md (sections 14-16 describe the machinery as built, the seeded changes it was tried on and the alarms it raised on the unchanged tree). known_findings.json lists the nine repaired defects (status fixed: suppress nothing) and two open findings, each identified by its input class: C08 interval-defined time flagged extreme by an only-if-invalid policy, C16 -180.0 exactly on the Kaaba's antimeridian; their checks print one KNOWN-FINDING line each and exit 0. corpus/ holds the minimised failing inputs of 110 past seeded changes, evaluated first on every run. THEOREMS.md indexes the 260 property theorems.",
}
json.dump(m, open(os.path.join(ROOT, "MANIFEST.json"), "w"), indent=1)
print("MANIFEST.json:", len(checks), "checks,", len(m["not_applicable"]), "not yet claimed")
