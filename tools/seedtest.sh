#!/bin/bash
# seedtest.sh <seed_name> <seed_dir> <pid> [more pids...]
# 1. confirm the seeded change in a scratch worktree (existing tests pass, demo fails with / passes without)
# 2. apply it to /repo, run ./check for each pid, undo it; print verdicts
set -u
name=$1; dir=$2; shift 2
WT=/tmp/seedwt_$name
git -C /repo worktree add -q --detach $WT HEAD || exit 2
export CARGO_TARGET_DIR=$WT/target CARGO_NET_OFFLINE=true
res="seed=$name"
( cd $WT && git apply $dir/patch.diff ) || { echo "patch does not apply"; git -C /repo worktree remove --force $WT; exit 2; }
t=$(cd $WT && cargo test --workspace --no-fail-fast --offline 2>&1 | grep -E "^test result" | awk '{p+=$4; f+=$6} END{print p"/"f}')
res="$res suite_with_patch(pass/fail)=$t"
cp $dir/demo.rs $WT/tests/demo_seed.rs
d1=$(cd $WT && cargo test --offline --test demo_seed 2>&1 | grep -E "^test result" | awk '{p+=$4; f+=$6} END{print p"/"f}')
res="$res demo_with_patch=$d1"
( cd $WT && git apply -R $dir/patch.diff )
d2=$(cd $WT && cargo test --offline --test demo_seed 2>&1 | grep -E "^test result" | awk '{p+=$4; f+=$6} END{print p"/"f}')
res="$res demo_without_patch=$d2"
git -C /repo worktree remove --force $WT
unset CARGO_TARGET_DIR
echo "$res"
rm -rf /tmp/evidence_backup && cp -r /verif/evidence /tmp/evidence_backup
git -C /repo apply $dir/patch.diff || { echo "cannot apply to /repo"; exit 2; }
for pid in "$@"; do
  out=$(cd /verif && ./check $pid 2>&1 | grep -E "VIOLATION|^OK|KNOWN" | grep -v KNOWN | tail -1)
  echo "  check $pid -> $out"
  if [ -f /verif/replays/$pid.json ]; then python3 - <<PY
import json
r=json.load(open('/verif/replays/$pid.json'))
print("     broken:", [(b['kind'],b['name']) for b in r.get('broken_obligations',[])][:6])
if 'input' in r: print("     replay input:", {k:v for k,v in (r['input'] or {}).items() if k!='req'}, "| observed:", str(r.get('observed'))[:160], "| required:", str(r.get('required'))[:120])
PY
  fi
done
git -C /repo checkout -- . ; git -C /repo status --short | head -3
# evidence written while a seed was applied is not evidence about the tree: put the clean files back
rm -rf /verif/evidence && mv /tmp/evidence_backup /verif/evidence
rm -f /verif/replays/*.json   # replays written while a patch was applied are not about the tree
# the harness binary was last built against the patched tree: rebuild it against the restored one
( cd /verif/harness && CARGO_NET_OFFLINE=true cargo build --release --offline >/dev/null 2>&1 )
