#!/bin/bash
# refactest.sh <patch> <pid>... : apply a behaviour-preserving patch to /repo, run the checks, undo.
# Expected outcome: every check exits 0 (possibly with NOTE lines).
set -u
patch=$1; shift
rm -rf /tmp/evidence_backup && cp -r /verif/evidence /tmp/evidence_backup
git -C /repo apply $patch || { echo "cannot apply"; exit 2; }
for pid in "$@"; do
  out=$(cd /verif && ./check $pid 2>&1 | grep -E "VIOLATION|^OK|^NOTE" | tr '\n' ' ')
  echo "  $pid -> $out"
done
git -C /repo checkout -- . ; git -C /repo status --short | head -3
rm -rf /verif/evidence && mv /tmp/evidence_backup /verif/evidence
rm -f /verif/replays/*.json   # replays written while a patch was applied are not about the tree
# the harness binary was last built against the patched tree: rebuild it against the restored one
( cd /verif/harness && CARGO_NET_OFFLINE=true cargo build --release --offline >/dev/null 2>&1 )
