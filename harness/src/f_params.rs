//! C10 (fallback formulas), C12 (each parameter affects only its own times), C16 (Qibla)
use crate::f_policy::*;
use crate::falsify::*;
use crate::gen::*;
use crate::oracle::{D2R, R2D};
use crate::rng::Rng;
use crate::units::gen_location;
use islamic_prayer_times::*;
use serde_json::{json, Value};
use std::panic::{catch_unwind, AssertUnwindSafe};

const NAMED8: [Method; 8] = [
    Method::Egyptian, Method::Egypt, Method::Shafi, Method::Hanafi, Method::Isna, Method::Mwl, Method::UmmAlQurra, Method::FixedIsha,
];

fn t(d: &Day, p: Prayer) -> Option<(f64, bool)> {
    d[&p].ok().map(|x| (secs(&x) as f64, x.extreme))
}

/// circular difference in seconds
fn cdiff(a: f64, b: f64) -> f64 {
    let mut d = (a - b).rem_euclid(86400.);
    if d > 43200. {
        d -= 86400.;
    }
    d
}

// ------------------------------------------------------------------------------------ C10
fn c10_one(ctx: &mut Ctx, c: &DayCase, pol: usize, near: f64) {
    ctx.eval();
    let conv = c.with(|p| p.extreme_latitude_method = ExtremeLatitudeMethod::None);
    let (res, cv) = match (c.run(), conv.run()) {
        (Ok(a), Ok(b)) => (a, b),
        _ => {
            ctx.fail(c.to_json(), "panic".into(), "results".into());
            return;
        }
    };
    let (s, m) = match (t(&cv, Prayer::Shurooq), t(&cv, Prayer::Maghrib)) {
        (Some(a), Some(b)) => (a.0, b.0),
        _ => return, // |lat| <= 60: they exist
    };
    // the property's domain: Shurooq and Maghrib exist and fall within the civil day (in that order)
    // (the unwrapped hours decide: a rise/set whose Newton correction carries it across local midnight
    // is reported with a clock time of the neighbouring day)
    let raw = std::panic::catch_unwind(std::panic::AssertUnwindSafe(|| {
        islamic_prayer_times::verif_hooks::raw_hours(&conv.p, conv.l, date_of_rd(conv.rd), conv.w.unwrap_or_default())
    }));
    let in_day = match raw {
        Ok(h) => matches!((h[1], h[4]), (Ok(a), Ok(b)) if (0. ..24.).contains(&a) && (0. ..24.).contains(&b) && a < b),
        Err(_) => false,
    };
    if !(s < m) || !in_day {
        ctx.branch("outside-domain:rise-or-set-crosses-midnight");
        return;
    }
    let day = m - s;
    let night = 86400. - day;
    let fi = c.p.intervals[&Prayer::Fajr] * 60.;
    let ii = c.p.intervals[&Prayer::Isha] * 60.;
    let missing_f = cv[&Prayer::Fajr].is_err();
    let missing_i = cv[&Prayer::Isha].is_err();
    let show = |res: &Day| format!("P: {} | None: {}", show_day(res), show_day(&cv));
    let mut expect: Vec<(Prayer, f64, String)> = vec![];
    let angle_f = c.p.angles[&Prayer::Fajr];
    let angle_i = c.p.angles[&Prayer::Isha];
    match pol {
        2 | 3 | 4 => {
            // nearest latitude: conventional times at the substitute latitude, same longitude and date
            let mut sub = conv.clone();
            sub.l.coords.latitude = Latitude::try_from(near).unwrap();
            let sv = match sub.run() {
                Ok(d) => d,
                Err(()) => return,
            };
            let which: Vec<Prayer> = if pol == 2 {
                vec![Prayer::Fajr, Prayer::Shurooq, Prayer::Dhuhr, Prayer::Asr, Prayer::Maghrib, Prayer::Isha]
            } else {
                vec![Prayer::Fajr, Prayer::Isha]
            };
            for q in which {
                let replace = pol != 4 || cv[&q].is_err();
                if !replace {
                    continue;
                }
                // an interval-defined Fajr/Isha keeps its definition relative to the (substituted) Shurooq/Maghrib
                if (q == Prayer::Fajr && fi != 0.) || (q == Prayer::Isha && ii != 0.) {
                    continue;
                }
                if let Some((x, _)) = t(&sv, q) {
                    expect.push((q, x, format!("conventional {:?} at latitude {:.3}", q, near)));
                }
            }
        }
        7 | 8 => {
            let p7 = night / 7.;
            if fi == 0. && (pol == 7 || missing_f) {
                expect.push((Prayer::Fajr, s - p7, "Shurooq - night/7".into()));
            }
            if ii == 0. && (pol == 7 || missing_i) {
                expect.push((Prayer::Isha, m + p7, "Maghrib + night/7".into()));
            }
        }
        9 | 10 => {
            let p7 = day / 7.;
            if fi == 0. && (pol == 9 || missing_f) {
                expect.push((Prayer::Fajr, s - p7, "Shurooq - day/7".into()));
            }
            if ii == 0. && (pol == 10 - 1 || pol == 9 || missing_i) {
                expect.push((Prayer::Isha, m + p7, "Maghrib + day/7".into()));
            }
        }
        1 => {
            if PRAYERS.iter().skip(1).any(|q| cv[q].is_err()) {
                if fi == 0. {
                    expect.push((Prayer::Fajr, s - angle_f / 60. * night, "Shurooq - (FajrAngle/60) x night".into()));
                }
                if ii == 0. {
                    expect.push((Prayer::Isha, m + angle_i / 60. * night, "Maghrib + (IshaAngle/60) x night".into()));
                }
            }
        }
        13 | 14 => {
            if pol == 13 || missing_f {
                expect.push((Prayer::Fajr, s - fi, "Shurooq - FajrInterval".into()));
            }
            if pol == 13 || missing_i {
                expect.push((Prayer::Isha, m + ii, "Maghrib + IshaInterval".into()));
            }
        }
        _ => {}
    }
    ctx.branch(POLICY_NAMES[pol]);
    if !expect.is_empty() {
        ctx.nontrivial(&format!("{}|{}|{:.0}", pol, c.rd % 211, f64::from(c.l.coords.latitude)));
    }
    for (q, want, what) in expect {
        match t(&res, q) {
            Some((got, ext)) => {
                if cdiff(got, want).abs() > 3. {
                    ctx.fail(c.to_json(), format!("{:?} = {} ; {} = {} ; {}", q, hms(got as i64), what, hms(want.rem_euclid(86400.) as i64), show(&res)), "agree within 3 s".into());
                    return;
                }
                // every replaced value is flagged extreme (a value equal to the conventional one is not "replaced")
                let same_as_conv = t(&cv, q).map(|(x, _)| cdiff(x, got).abs() < 1.).unwrap_or(false);
                if !ext && !same_as_conv {
                    ctx.fail(c.to_json(), format!("{:?} replaced but not flagged: {}", q, show(&res)), "replaced value flagged extreme".into());
                    return;
                }
            }
            None => {
                ctx.fail(c.to_json(), format!("{:?} invalid; {}", q, show(&res)), what);
                return;
            }
        }
    }
    // a Fajr/Isha the method defines by an interval keeps that definition (relative to the result's own Shurooq/Maghrib)
    if ![11usize, 12, 14].contains(&pol) {
        if ii != 0. {
            if let (Some((mi, _)), Some((is, _))) = (t(&res, Prayer::Maghrib), t(&res, Prayer::Isha)) {
                if cdiff(is, mi + ii).abs() > 3. {
                    ctx.fail(c.to_json(), format!("Isha {} vs Maghrib {} + {} min", hms(is as i64), hms(mi as i64), ii / 60.), "interval definition kept".into());
                }
            }
        }
    }
}

pub fn c10(ctx: &mut Ctx, tier: &str, r: &mut Rng, js: &[Value], reqs: &[String], replay_only: bool) {
    purity_replay(ctx, js);
    for c in cases_from(js, reqs) {
        let (pn, pl) = policy_name(&c.p.extreme_latitude_method);
        let pol = POLICY_NAMES.iter().position(|n| *n == pn).unwrap();
        if f64::from(c.l.coords.latitude).abs() <= 60. && pl.abs() <= 60. && PRAYERS.iter().all(|q| c.p.minutes[q] == 0.) {
            c10_one(ctx, &c.with(|p| p.round_seconds = RoundSeconds::None), pol, pl);
        }
    }
    if replay_only {
        ctx.finish(json!({}));
        return;
    }
    let n = sz!(tier, 260, 6000);
    for i in 0..n {
        for pol in [1usize, 2, 3, 4, 7, 8, 9, 10, 13, 14] {
            let mut p = Params::new(r.pick(&NAMED8));
            p.round_seconds = RoundSeconds::None;
            let near = if r.chance(0.4) { 48.5 } else { r.range(-60., 60.) };
            p.extreme_latitude_method = policy(pol, near);
            if pol >= 13 {
                *p.intervals.get_mut(&Prayer::Fajr).unwrap() = r.range(1., 120.).round();
                *p.intervals.get_mut(&Prayer::Isha).unwrap() = r.range(1., 120.).round();
            }
            let mut l = gen_location(r, 60., 3.);
            let mut rd = gen_rd(r);
            if [1usize, 4, 8, 10, 14].contains(&pol) || r.chance(0.4) {
                // a day where a time is missing: 49..60 degrees around the local summer solstice
                let la = r.range(49., 60.) * if r.chance(0.5) { 1. } else { -1. };
                l.coords.latitude = Latitude::try_from(la).unwrap();
                rd = (rd_of(r.int(1600, 2399) as i32, if la >= 0. { 6 } else { 12 }, 21) + r.int(-40, 40)).clamp(rd_of(1600, 1, 1), rd_of(2399, 12, 31));
            }
            let c = DayCase { p, l, rd, w: None };
            if i == 0 && pol == 7 {
                ctx.sample(c.to_json());
            }
            c10_one(ctx, &c, pol, near);
            // the policy results depend on the arguments only (one case in four, all nine neighbours)
            if i % 4 == 0 && !purity_probe(ctx, &c) {
                ctx.finish(json!({}));
                return;
            }
        }
    }
    ctx.finish(json!({}));
}

// ------------------------------------------------------------------------------------ C12
fn same_except(a: &Day, b: &Day, allowed: &[Prayer]) -> Option<Prayer> {
    PRAYERS.iter().copied().find(|q| !allowed.contains(q) && a[q] != b[q])
}

fn c12_one(ctx: &mut Ctx, c: &DayCase, r: &mut Rng) {
    ctx.eval();
    let base = match c.run() {
        Ok(d) => d,
        Err(()) => {
            ctx.fail(c.to_json(), "panic".into(), "a result".into());
            return;
        }
    };
    let none_policy = matches!(c.p.extreme_latitude_method, ExtremeLatitudeMethod::None);
    let all_present = base.values().all(|x| x.is_ok()) && base.values().all(|x| !x.unwrap().extreme);
    ctx.nontrivial(&format!("{}|{:.0}", c.rd, f64::from(c.l.coords.latitude)));
    // (1) a minute offset shifts exactly that prayer by exactly that many minutes (Imsaak follows Fajr's)
    let k = r.int(-90, 90) as f64;
    let pr = r.pick(&PRAYERS);
    let c1 = c.with(|p| *p.minutes.get_mut(&pr).unwrap() += k);
    if let Ok(d1) = c1.run() {
        let moved: Vec<Prayer> = match pr {
            Prayer::Fajr => vec![Prayer::Fajr, Prayer::Imsaak],
            Prayer::Imsaak => vec![],
            q => vec![q],
        };
        if let Some(q) = same_except(&base, &d1, &moved) {
            ctx.fail(c1.to_json(), format!("offset on {:?} changed {:?}: {} -> {}", pr, q, show_day(&base), show_day(&d1)), "only that prayer moves".into());
            return;
        }
        for q in moved {
            if let (Some((a, _)), Some((b, _))) = (t(&base, q), t(&d1, q)) {
                if c.p.round_seconds == RoundSeconds::None && cdiff(b, a + 60. * k).abs() > 0.5 {
                    ctx.fail(c1.to_json(), format!("{:?} {} -> {} with offset {} min", q, hms(a as i64), hms(b as i64), k), "shift by exactly that many minutes".into());
                    return;
                }
            }
        }
    }
    // (2) intervals (policies that the interval pass does not skip)
    let (pn, _) = policy_name(&c.p.extreme_latitude_method);
    if !["MinutesFromMaghribFajrIshaInvalid", "HalfOfNightFajrIshaInvalid", "HalfOfNightFajrIshaAlways"].contains(&pn) && c.p.round_seconds == RoundSeconds::None {
        // the case as given (a recorded input carries its own intervals): Imsaak = Fajr - interval, same flag
        let (ivf, ivi) = (c.p.intervals[&Prayer::Fajr], c.p.intervals[&Prayer::Imsaak]);
        if ivf >= 1. && ivi >= 1. && ivf <= 120. && ivi <= 120. && PRAYERS.iter().all(|q| c.p.minutes[q] == 0.) {
            if let (Some((f, fe)), Some((im, ime))) = (t(&base, Prayer::Fajr), t(&base, Prayer::Imsaak)) {
                if cdiff(im, f - 60. * ivi).abs() > 1. || fe != ime {
                    ctx.fail(c.to_json(), format!("Imsaak {} (extreme {}) Fajr {} (extreme {}) Imsaak interval {} Fajr interval {}", hms(im as i64), ime, hms(f as i64), fe, ivi, ivf), "Imsaak = Fajr - interval, same flag".into());
                    return;
                }
            }
        }
        let iv = r.int(1, 120) as f64;
        let c2 = c.with(|p| *p.intervals.get_mut(&Prayer::Isha).unwrap() = iv);
        if let Ok(d2) = c2.run() {
            if let (Some((m, _)), Some((i, _))) = (t(&d2, Prayer::Maghrib), t(&d2, Prayer::Isha)) {
                if cdiff(i, m + 60. * iv).abs() > 1. {
                    ctx.fail(c2.to_json(), format!("Isha {} Maghrib {} interval {}", hms(i as i64), hms(m as i64), iv), "Isha = Maghrib + interval".into());
                    return;
                }
            }
        }
        let c3 = c.with(|p| *p.intervals.get_mut(&Prayer::Fajr).unwrap() = iv);
        if let Ok(d3) = c3.run() {
            if let (Some((s, _)), Some((f, _))) = (t(&d3, Prayer::Shurooq), t(&d3, Prayer::Fajr)) {
                if cdiff(f, s - 60. * iv).abs() > 1. {
                    ctx.fail(c3.to_json(), format!("Fajr {} Shurooq {} interval {}", hms(f as i64), hms(s as i64), iv), "Fajr = Shurooq - interval".into());
                    return;
                }
            }
        }
        // Imsaak interval: Imsaak = Fajr - interval; when Fajr is extreme, Imsaak is 1.5 min (or the interval) before it and extreme too
        if c.p.intervals[&Prayer::Fajr] == 0. {
            let c4 = c.with(|p| *p.intervals.get_mut(&Prayer::Imsaak).unwrap() = iv);
            if let Ok(d4) = c4.run() {
                if let (Some((f, fe)), Some((im, ime))) = (t(&d4, Prayer::Fajr), t(&d4, Prayer::Imsaak)) {
                    if cdiff(im, f - 60. * iv).abs() > 1. || fe != ime {
                        ctx.fail(c4.to_json(), format!("Imsaak {} (extreme {}) Fajr {} (extreme {}) interval {}", hms(im as i64), ime, hms(f as i64), fe, iv), "Imsaak = Fajr - interval, same flag".into());
                        return;
                    }
                }
            }
            // the same with Fajr itself defined by an interval (both intervals inside the quantifier)
            let iv2 = r.int(1, 120) as f64;
            let c5 = c4.with(|p| *p.intervals.get_mut(&Prayer::Fajr).unwrap() = iv2);
            if let Ok(d5) = c5.run() {
                if let (Some((f, fe)), Some((im, ime))) = (t(&d5, Prayer::Fajr), t(&d5, Prayer::Imsaak)) {
                    ctx.branch("fajr-and-imsaak-interval");
                    if cdiff(im, f - 60. * iv).abs() > 1. || fe != ime {
                        ctx.fail(c5.to_json(), format!("Imsaak {} (extreme {}) Fajr {} (extreme {}) Imsaak interval {} Fajr interval {}", hms(im as i64), ime, hms(f as i64), fe, iv, iv2), "Imsaak = Fajr - interval, same flag".into());
                        return;
                    }
                }
            }
            if let (Some((f, true)), Some((im, ime))) = (t(&base, Prayer::Fajr), t(&base, Prayer::Imsaak)) {
                if c.p.intervals[&Prayer::Imsaak] == 0. && (cdiff(im, f - 90.).abs() > 1. || !ime) {
                    ctx.fail(c.to_json(), format!("Fajr extreme {}; Imsaak {} extreme {}", hms(f as i64), hms(im as i64), ime), "Imsaak 1.5 min before an extreme Fajr, extreme too".into());
                    return;
                }
            }
        }
    }
    // (3) school / angles / weather: scope per DESIGN §9.2 — policy None, or default policy on days where everything exists
    if none_policy || all_present {
        let other = if c.p.asr_shadow_ratio == AsrShadowRatio::Shafi { AsrShadowRatio::Hanafi } else { AsrShadowRatio::Shafi };
        if let Ok(d) = c.with(|p| p.asr_shadow_ratio = other).run() {
            if let Some(q) = same_except(&base, &d, &[Prayer::Asr]) {
                ctx.fail(c.to_json(), format!("Asr school changed {:?}", q), "only Asr".into());
                return;
            }
        }
        let da = if r.chance(0.5) { 1. } else { -1. };
        if c.p.intervals[&Prayer::Fajr] == 0. {
            if let Ok(d) = c.with(|p| *p.angles.get_mut(&Prayer::Fajr).unwrap() += da).run() {
                let still = none_policy || (d.values().all(|x| x.is_ok()) && d.values().all(|x| !x.unwrap().extreme));
                if still {
                    if let Some(q) = same_except(&base, &d, &[Prayer::Fajr, Prayer::Imsaak]) {
                        ctx.fail(c.to_json(), format!("Fajr angle {:+} changed {:?}: {} -> {}", da, q, show_day(&base), show_day(&d)), "only Fajr and Imsaak".into());
                        return;
                    }
                }
            }
        }
        if c.p.intervals[&Prayer::Isha] == 0. {
            if let Ok(d) = c.with(|p| *p.angles.get_mut(&Prayer::Isha).unwrap() += da).run() {
                let still = none_policy || (d.values().all(|x| x.is_ok()) && d.values().all(|x| !x.unwrap().extreme));
                if still {
                    if let Some(q) = same_except(&base, &d, &[Prayer::Isha]) {
                        ctx.fail(c.to_json(), format!("Isha angle {:+} changed {:?}", da, q), "only Isha".into());
                        return;
                    }
                }
            }
        }
        let mut allowed = vec![Prayer::Shurooq, Prayer::Maghrib];
        if c.p.intervals[&Prayer::Fajr] != 0. {
            allowed.push(Prayer::Fajr);
            allowed.push(Prayer::Imsaak);
        }
        if c.p.intervals[&Prayer::Isha] != 0. {
            allowed.push(Prayer::Isha);
        }
        let cw = DayCase { w: Some(weather(r.range(100., 1050.), r.range(-90., 57.))), ..c.clone() };
        if let Ok(d) = cw.run() {
            if let Some(q) = same_except(&base, &d, &allowed) {
                ctx.fail(cw.to_json(), format!("weather changed {:?}", q), "only Shurooq/Maghrib and times derived from them".into());
                return;
            }
        }
    }
    // (3b) under a replacing policy other than nearest-good-day (whose search needs both twilights), the
    // replaced Fajr depends on the Fajr angle only and the replaced Isha on the Isha angle only, as long
    // as the angle change does not alter which conventional times exist (that decides whether the policy fires)
    let is_good_day = matches!(c.p.extreme_latitude_method, ExtremeLatitudeMethod::NearestGoodDayAllPrayersAlways | ExtremeLatitudeMethod::NearestGoodDayFajrIshaInvalid);
    if !none_policy && !is_good_day && c.p.intervals[&Prayer::Fajr] == 0. && c.p.intervals[&Prayer::Isha] == 0. {
        let pattern = |d: &DayCase| d.with(|p| p.extreme_latitude_method = ExtremeLatitudeMethod::None).run().ok().map(|x| PRAYERS.iter().skip(1).map(|q| x[q].is_ok()).collect::<Vec<_>>());
        let base_pat = pattern(c);
        for (which, allowed) in [(Prayer::Fajr, vec![Prayer::Fajr, Prayer::Imsaak]), (Prayer::Isha, vec![Prayer::Isha])] {
            let c2 = c.with(|p| *p.angles.get_mut(&which).unwrap() += 1.);
            if pattern(&c2) == base_pat && base_pat.is_some() {
                if let Ok(d) = c2.run() {
                    if let Some(q) = same_except(&base, &d, &allowed) {
                        ctx.fail(c2.to_json(), format!("{:?} angle +1 changed {:?}: {} -> {}", which, q, show_day(&base), show_day(&d)), format!("only {:?}", allowed));
                        return;
                    }
                }
            }
        }
    }
    // absent weather = default weather
    let wn = DayCase { w: None, ..c.clone() };
    let wd = DayCase { w: Some(Weather::default()), ..c.clone() };
    if wn.run() != wd.run() {
        ctx.fail(c.to_json(), "absent weather != default weather".into(), "equal".into());
    }
}

pub fn c12(ctx: &mut Ctx, tier: &str, r: &mut Rng, js: &[Value], reqs: &[String], replay_only: bool) {
    purity_replay(ctx, js);
    for c in cases_from(js, reqs) {
        if f64::from(c.l.coords.latitude).abs() <= 62. {
            // the clauses are evaluated from a parameter set without minute offsets (the offset clause adds its own)
            let c2 = c.with(|p| {
                p.round_seconds = RoundSeconds::None;
                for q in PRAYERS {
                    *p.minutes.get_mut(&q).unwrap() = 0.;
                }
            });
            c12_one(ctx, &DayCase { w: None, ..c2 }, r);
        }
    }
    if replay_only {
        ctx.finish(json!({}));
        return;
    }
    let n = sz!(tier, 1500, 40000);
    for i in 0..n {
        let mut p = Params::new(r.pick(&METHODS).0);
        p.round_seconds = RoundSeconds::None;
        p.extreme_latitude_method = match i % 4 {
            0 => ExtremeLatitudeMethod::None,
            1 => ExtremeLatitudeMethod::NearestGoodDayFajrIshaInvalid,
            2 => ExtremeLatitudeMethod::NearestGoodDayFajrIshaInvalid,
            _ => policy(r.below(15) as usize, 48.5),
        };
        let mut l = gen_location(r, 62., 3.);
        let mut rd = gen_rd(r);
        if i % 5 == 0 {
            // a day with an extreme Fajr: 50..62 degrees near the local summer solstice
            let la = r.range(50., 62.) * if r.chance(0.5) { 1. } else { -1. };
            l.coords.latitude = Latitude::try_from(la).unwrap();
            rd = (rd_of(r.int(1600, 2399) as i32, if la >= 0. { 6 } else { 12 }, 21) + r.int(-30, 30)).clamp(rd_of(1600, 1, 1), rd_of(2399, 12, 31));
        }
        let c = DayCase { p, l, rd, w: None };
        if i == 0 {
            ctx.sample(c.to_json());
        }
        c12_one(ctx, &c, r);
        // "changing X changes only Y" presupposes that a result is a function of the arguments: one
        // case in ten is also probed for dependence on the preceding call (all nine neighbours)
        if i % 10 == 0 && !purity_probe(ctx, &c) {
            ctx.finish(json!({}));
            return;
        }
    }
    ctx.finish(json!({}));
}

// ------------------------------------------------------------------------------------ C16
fn c16_one(ctx: &mut Ctx, lat: f64, lon: f64, elev: f64) {
    ctx.eval();
    // the Kaaba position the library documents (21.4233 N, 39.8233 E), to the precision its constants carry
    const KLAT: f64 = 21.423333;
    const KLON: f64 = 39.823333;
    // exemptions: within 0.1 deg of the Kaaba or its antipode
    let near = |la: f64, lo: f64| {
        let (a, b, c, d) = (lat * D2R, lon * D2R, la * D2R, lo * D2R);
        let cosd = a.sin() * c.sin() + a.cos() * c.cos() * (b - d).cos();
        cosd.clamp(-1., 1.).acos() * R2D < 0.1
    };
    if near(KLAT, KLON) || near(-KLAT, KLON - 180.) {
        ctx.branch("exempt");
        return;
    }
    let input = json!({"kind": "qibla", "lat": lat, "lon": lon, "elev": elev, "lat_bits": hx(lat), "lon_bits": hx(lon)});
    let r = catch_unwind(AssertUnwindSafe(|| {
        let mk = |e: f64| Coordinates::new(Latitude::try_from(lat).unwrap(), Longitude::try_from(lon).unwrap(), Elevation::try_from(e).unwrap());
        let q = Qibla::new(mk(elev));
        let q0 = Qibla::new(mk(0.));
        (q.degrees(), q.rotation(), q.to_string(), q0.degrees())
    }));
    let (deg, rot, text, deg0) = match r {
        Ok(x) => x,
        Err(_) => {
            ctx.fail(input, "panic".into(), "a bearing".into());
            return;
        }
    };
    // independent 3-D vector computation with the documented Kaaba position
    let (p, l, pk, lk) = (lat * D2R, lon * D2R, KLAT * D2R, KLON * D2R);
    let k = [pk.cos() * lk.cos(), pk.cos() * lk.sin(), pk.sin()];
    let north = [-p.sin() * l.cos(), -p.sin() * l.sin(), p.cos()];
    let east = [-l.sin(), l.cos(), 0.];
    let dn = k[0] * north[0] + k[1] * north[1] + k[2] * north[2];
    let de = k[0] * east[0] + k[1] * east[1] + k[2] * east[2];
    let bearing_east = de.atan2(dn) * R2D; // clockwise from north
    let want = -bearing_east; // positive = west of north
    ctx.nontrivial(&format!("{:.2}|{:.2}", lat, lon));
    let mut diff = (deg - want).rem_euclid(360.);
    if diff > 180. {
        diff -= 360.;
    }
    let tol = 1e-6;
    if diff.abs() > tol {
        ctx.fail(input, format!("{:.7} deg", deg), format!("{:.7} deg (vector bearing, west positive) +- {:.1e}", want, tol));
        return;
    }
    if !(deg > -180. && deg <= 180.) {
        let mut input = input;
        if deg == -180. {
            // exactly on the Kaaba's antimeridian sin(-pi) is a negative rounding residue: known finding
            input["finding_class"] = json!("minus-180-on-kaaba-antimeridian");
        }
        ctx.fail(input, format!("{} deg", deg), "in (-180, 180]".into());
        return;
    }
    if deg.to_bits() != deg0.to_bits() {
        ctx.fail(input, format!("{} vs {} at elevation 0", deg, deg0), "independent of elevation".into());
        return;
    }
    let label = if deg < 0. { "CW" } else { "CCW" };
    let rl = match rot {
        Rotation::Cw => "CW",
        Rotation::Ccw => "CCW",
    };
    // "the printed text agrees with the sign and magnitude": the text names the rotation (as a word of
    // its own: "CW" is not found inside "CCW") and shows the magnitude to the precision it prints -
    // whatever that precision is (the property does not fix the number of decimals)
    let words: Vec<&str> = text.split(|ch: char| !ch.is_ascii_alphanumeric() && ch != '.' && ch != '-').filter(|w| !w.is_empty()).collect();
    let names_rotation = words.iter().any(|w| *w == label) && !words.iter().any(|w| *w == if label == "CW" { "CCW" } else { "CW" });
    let shown = words.iter().find_map(|w| w.parse::<f64>().ok().map(|x| (x, w.split('.').nth(1).map_or(0, |f| f.len()))));
    let magnitude_ok = match shown {
        Some((x, decimals)) => x >= 0. && (x - deg.abs()).abs() <= 0.5 * 10f64.powi(-(decimals as i32)) * (1. + 1e-9) + 1e-12,
        None => false,
    };
    if rl != label || !names_rotation || !magnitude_ok {
        ctx.fail(input, format!("rotation {} text `{}`", rl, text), format!("{} and |{}| to the printed precision, e.g. `{:.1}° {}`", label, deg, deg.abs(), label));
    }
}

pub fn c16(ctx: &mut Ctx, tier: &str, r: &mut Rng, js: &[Value], reqs: &[String], replay_only: bool) {
    // requests handed over from a correspondence break: `qibla <lat bits> <lon bits>`
    for q in reqs {
        let t: Vec<&str> = q.split_whitespace().collect();
        if t.len() == 3 && t[0] == "qibla" {
            let f = |s: &str| u64::from_str_radix(s, 16).ok().map(f64::from_bits);
            if let (Some(a), Some(b)) = (f(t[1]), f(t[2])) {
                if a.abs() <= 90. && b.abs() <= 180. {
                    c16_one(ctx, a, b, 0.);
                }
            }
        }
    }
    for v in js {
        if let (Some(a), Some(b)) = (v.get("lat").and_then(|x| x.as_f64()), v.get("lon").and_then(|x| x.as_f64())) {
            c16_one(ctx, a, b, v.get("elev").and_then(|x| x.as_f64()).unwrap_or(0.));
        }
    }
    if replay_only {
        ctx.finish(json!({}));
        return;
    }
    let n = sz!(tier, 20000, 400000);
    for lon in [-180., 180., 39.8233, 39.823333, -140.1767, -140.176667, 0., 90., -90., 179.999999, -179.999999] {
        for lat in [-89.9, -60., -21.4233, 0., 21.4233, 21.5, 45., 89.9] {
            c16_one(ctx, lat, lon, 0.);
        }
    }
    for i in 0..n {
        let lat = gen_lat(r, 89.999);
        let lon = gen_lon(r);
        if i < 2 {
            ctx.sample(json!({"lat": lat, "lon": lon}));
        }
        c16_one(ctx, lat, lon, gen_elev(r));
    }
    ctx.finish(json!({}));
}
