//! Generators of structured, mostly-valid inputs built from the repo's own types.
use crate::rng::Rng;
use chrono::{Datelike, NaiveDate};
use islamic_prayer_times::*;

pub const METHODS: [(Method, &str); 9] = [
    (Method::None, "None"),
    (Method::Egyptian, "Egyptian"),
    (Method::Egypt, "Egypt"),
    (Method::Shafi, "Shafi"),
    (Method::Hanafi, "Hanafi"),
    (Method::Isna, "Isna"),
    (Method::Mwl, "Mwl"),
    (Method::UmmAlQurra, "UmmAlQurra"),
    (Method::FixedIsha, "FixedIsha"),
];

pub const POLICY_NAMES: [&str; 15] = [
    "None",
    "AngleBased",
    "NearestLatitudeAllPrayersAlways",
    "NearestLatitudeFajrIshaAlways",
    "NearestLatitudeFajrIshaInvalid",
    "NearestGoodDayAllPrayersAlways",
    "NearestGoodDayFajrIshaInvalid",
    "SeventhOfNightFajrIshaAlways",
    "SeventhOfNightFajrIshaInvalid",
    "SeventhOfDayFajrIshaAlways",
    "SeventhOfDayFajrIshaInvalid",
    "HalfOfNightFajrIshaAlways",
    "HalfOfNightFajrIshaInvalid",
    "MinutesFromMaghribFajrIshaAlways",
    "MinutesFromMaghribFajrIshaInvalid",
];

pub const PRAYERS: [Prayer; 7] = [
    Prayer::Imsaak,
    Prayer::Fajr,
    Prayer::Shurooq,
    Prayer::Dhuhr,
    Prayer::Asr,
    Prayer::Maghrib,
    Prayer::Isha,
];

pub const ROUNDS: [RoundSeconds; 4] = [
    RoundSeconds::None,
    RoundSeconds::NormalRounding,
    RoundSeconds::SpecialRounding,
    RoundSeconds::AggressiveRounding,
];

pub fn policy(idx: usize, lat: f64) -> ExtremeLatitudeMethod {
    use ExtremeLatitudeMethod::*;
    let l = Latitude::try_from(lat).unwrap();
    match idx {
        0 => None,
        1 => AngleBased,
        2 => NearestLatitudeAllPrayersAlways(l),
        3 => NearestLatitudeFajrIshaAlways(l),
        4 => NearestLatitudeFajrIshaInvalid(l),
        5 => NearestGoodDayAllPrayersAlways,
        6 => NearestGoodDayFajrIshaInvalid,
        7 => SeventhOfNightFajrIshaAlways,
        8 => SeventhOfNightFajrIshaInvalid,
        9 => SeventhOfDayFajrIshaAlways,
        10 => SeventhOfDayFajrIshaInvalid,
        11 => HalfOfNightFajrIshaAlways,
        12 => HalfOfNightFajrIshaInvalid,
        13 => MinutesFromMaghribFajrIshaAlways,
        _ => MinutesFromMaghribFajrIshaInvalid,
    }
}

pub fn policy_name(p: &ExtremeLatitudeMethod) -> (&'static str, f64) {
    use ExtremeLatitudeMethod::*;
    match *p {
        None => ("None", 0.),
        AngleBased => ("AngleBased", 0.),
        NearestLatitudeAllPrayersAlways(l) => ("NearestLatitudeAllPrayersAlways", l.into()),
        NearestLatitudeFajrIshaAlways(l) => ("NearestLatitudeFajrIshaAlways", l.into()),
        NearestLatitudeFajrIshaInvalid(l) => ("NearestLatitudeFajrIshaInvalid", l.into()),
        NearestGoodDayAllPrayersAlways => ("NearestGoodDayAllPrayersAlways", 0.),
        NearestGoodDayFajrIshaInvalid => ("NearestGoodDayFajrIshaInvalid", 0.),
        SeventhOfNightFajrIshaAlways => ("SeventhOfNightFajrIshaAlways", 0.),
        SeventhOfNightFajrIshaInvalid => ("SeventhOfNightFajrIshaInvalid", 0.),
        SeventhOfDayFajrIshaAlways => ("SeventhOfDayFajrIshaAlways", 0.),
        SeventhOfDayFajrIshaInvalid => ("SeventhOfDayFajrIshaInvalid", 0.),
        HalfOfNightFajrIshaAlways => ("HalfOfNightFajrIshaAlways", 0.),
        HalfOfNightFajrIshaInvalid => ("HalfOfNightFajrIshaInvalid", 0.),
        MinutesFromMaghribFajrIshaAlways => ("MinutesFromMaghribFajrIshaAlways", 0.),
        MinutesFromMaghribFajrIshaInvalid => ("MinutesFromMaghribFajrIshaInvalid", 0.),
    }
}

pub fn hx(x: f64) -> String {
    format!("{:016x}", x.to_bits())
}

pub fn round_tok(r: RoundSeconds) -> &'static str {
    match r {
        RoundSeconds::None => "N",
        RoundSeconds::NormalRounding => "R",
        RoundSeconds::SpecialRounding => "S",
        RoundSeconds::AggressiveRounding => "A",
    }
}

/// the 17-token parameter block of the line protocol
pub fn params_tokens(p: &Params) -> String {
    let (pn, pl) = policy_name(&p.extreme_latitude_method);
    let mut v = vec![
        round_tok(p.round_seconds).to_string(),
        (p.asr_shadow_ratio as u8).to_string(),
        pn.to_string(),
        hx(pl),
        hx(p.angles[&Prayer::Fajr]),
        hx(p.angles[&Prayer::Isha]),
        hx(p.angles[&Prayer::Imsaak]),
        hx(p.intervals[&Prayer::Fajr]),
        hx(p.intervals[&Prayer::Isha]),
        hx(p.intervals[&Prayer::Imsaak]),
    ];
    for pr in PRAYERS {
        v.push(hx(p.minutes[&pr]));
    }
    v.join(" ")
}

pub fn loc(lat: f64, lon: f64, elev: f64, gmt: f64) -> Location {
    Location {
        coords: Coordinates::new(
            Latitude::try_from(lat).unwrap(),
            Longitude::try_from(lon).unwrap(),
            Elevation::try_from(elev).unwrap(),
        ),
        gmt: Gmt::try_from(gmt).unwrap(),
    }
}

pub fn loc_tokens(l: &Location) -> String {
    format!(
        "{} {} {} {}",
        hx(l.coords.latitude.into()),
        hx(l.coords.longitude.into()),
        hx(l.coords.elevation.into()),
        hx(l.gmt.into())
    )
}

pub fn weather_tokens(w: &Option<Weather>) -> String {
    match w {
        Some(w) => format!("{} {}", hx(w.pressure.into()), hx(w.temperature.into())),
        None => "- -".to_string(),
    }
}

pub fn weather(p: f64, t: f64) -> Weather {
    Weather {
        pressure: Pressure::try_from(p).unwrap(),
        temperature: Temperature::try_from(t).unwrap(),
    }
}

pub fn date_of_rd(rd: i64) -> NaiveDate {
    NaiveDate::from_num_days_from_ce_opt(rd as i32).unwrap()
}

pub fn rd_of(y: i32, m: u32, d: u32) -> i64 {
    NaiveDate::from_ymd_opt(y, m, d).unwrap().num_days_from_ce() as i64
}

pub const LATS: [f64; 19] = [
    0., 23.44, -23.44, 45., -45., 48.5, -48.5, 60., -60., 64., -64., 66.56, -66.56, 70., -70., 89.5,
    -89.5, 90., -90.,
];

pub fn gen_lat(r: &mut Rng, max_abs: f64) -> f64 {
    if r.chance(0.35) {
        for _ in 0..20 {
            let l = r.pick(&LATS);
            if l.abs() <= max_abs {
                return l;
            }
        }
        0.
    } else if r.chance(0.2) {
        (r.range(-max_abs, max_abs)).round()
    } else {
        r.range(-max_abs, max_abs)
    }
}

pub fn gen_lon(r: &mut Rng) -> f64 {
    if r.chance(0.15) {
        r.pick(&[180., -180., 0., 39.823333, -140.176667, 15., -75., 179.99, -179.99])
    } else if r.chance(0.2) {
        r.range(-180., 180.).round()
    } else {
        r.range(-180., 180.)
    }
}

/// a GMT offset within `within` hours of lon/15, on the quarter-hour grid most of the time
pub fn gen_gmt(r: &mut Rng, lon: f64, within: f64) -> f64 {
    let c = lon / 15.;
    for _ in 0..50 {
        let g = if r.chance(0.7) {
            ((c + r.range(-within.min(3.), within.min(3.))) * 4.).round() / 4.
        } else {
            c + r.range(-within, within)
        };
        if (-12. ..=12.).contains(&g) && (g - c).abs() <= within {
            return g;
        }
    }
    c.clamp(-12., 12.)
}

pub fn gen_elev(r: &mut Rng) -> f64 {
    if r.chance(0.5) {
        0.
    } else if r.chance(0.2) {
        r.pick(&[-420., 8848., 87., 1000.])
    } else {
        r.range(-420., 8848.)
    }
}

/// day number of a date in 1600-01-01..2399-12-31 with a boundary stream mixed in
pub fn gen_rd(r: &mut Rng) -> i64 {
    let y = r.int(1600, 2399) as i32;
    if r.chance(0.35) {
        let (m, d) = r.pick(&[
            (1u32, 1u32), (12, 31), (2, 28), (3, 1), (3, 19), (3, 20), (3, 21), (3, 22), (3, 23), (6, 20),
            (6, 21), (6, 22), (12, 21), (12, 22), (9, 22), (9, 23), (1, 5), (12, 30), (1, 2), (7, 6),
        ]);
        let mut rd = rd_of(y, m, d);
        if m == 2 && d == 28 && r.chance(0.5) {
            rd += 1; // Feb 29 or Mar 1
        }
        rd
    } else {
        let lo = rd_of(1600, 1, 1);
        let hi = rd_of(2399, 12, 31);
        r.int(lo, hi)
    }
}

pub fn gen_weather(r: &mut Rng) -> Option<Weather> {
    if r.chance(0.5) {
        None
    } else if r.chance(0.2) {
        Some(weather(r.pick(&[100., 1050., 1010.]), r.pick(&[-90., 57., 14.])))
    } else {
        Some(weather(r.range(100., 1050.), r.range(-90., 57.)))
    }
}

#[derive(Clone, Copy)]
pub struct ParamSpace {
    pub angle_max: f64,
    pub interval_max: f64,
    pub offset_max: f64,
    pub near_lat_max: f64,
}

pub const C07_SPACE: ParamSpace = ParamSpace {
    angle_max: 25.,
    interval_max: 180.,
    offset_max: 1500.,
    near_lat_max: 90.,
};

/// Params derived from a method by changing numeric fields and policies
pub fn gen_params(r: &mut Rng, sp: ParamSpace) -> Params {
    let (m, _) = r.pick(&METHODS);
    let mut p = Params::new(m);
    let near = if r.chance(0.5) {
        48.5 * if r.chance(0.5) { 1. } else { -1. }
    } else {
        gen_lat(r, sp.near_lat_max)
    };
    p.extreme_latitude_method = policy(r.below(15) as usize, near);
    p.round_seconds = r.pick(&ROUNDS);
    if r.chance(0.2) {
        p.asr_shadow_ratio = r.pick(&[AsrShadowRatio::Shafi, AsrShadowRatio::Hanafi]);
    }
    if r.chance(0.3) {
        *p.angles.get_mut(&Prayer::Fajr).unwrap() = pick_num(r, 0., sp.angle_max);
    }
    if r.chance(0.3) {
        *p.angles.get_mut(&Prayer::Isha).unwrap() = pick_num(r, 0., sp.angle_max);
    }
    if r.chance(0.2) {
        *p.angles.get_mut(&Prayer::Imsaak).unwrap() = pick_num(r, 0., 3.);
    }
    if r.chance(0.25) {
        *p.intervals.get_mut(&Prayer::Fajr).unwrap() = pick_num(r, 0., sp.interval_max);
    }
    if r.chance(0.25) {
        *p.intervals.get_mut(&Prayer::Isha).unwrap() = pick_num(r, 0., sp.interval_max);
    }
    if r.chance(0.25) {
        *p.intervals.get_mut(&Prayer::Imsaak).unwrap() = pick_num(r, 0., sp.interval_max.min(60.));
    }
    if r.chance(0.35) {
        let n = 1 + r.below(3);
        for _ in 0..n {
            let pr = r.pick(&PRAYERS);
            *p.minutes.get_mut(&pr).unwrap() = pick_num(r, -sp.offset_max, sp.offset_max);
        }
    }
    p
}

fn pick_num(r: &mut Rng, lo: f64, hi: f64) -> f64 {
    if r.chance(0.5) {
        r.range(lo, hi).round()
    } else if r.chance(0.15) {
        if r.chance(0.5) {
            lo
        } else {
            hi
        }
    } else {
        r.range(lo, hi)
    }
}
