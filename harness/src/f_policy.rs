//! C07 (no panic / no hang), C08 (policies change only what they name), C11 (rounding)
use crate::falsify::*;
use crate::gen::*;
use crate::rng::Rng;
use crate::units::{gen_location, pt_tok};
use chrono::Timelike;
use islamic_prayer_times::verif_hooks as vh;
use islamic_prayer_times::*;
use serde_json::{json, Value};
use std::collections::BTreeMap;
use std::panic::{catch_unwind, AssertUnwindSafe};
use std::sync::mpsc;
use std::time::Duration;

pub type Day = BTreeMap<Prayer, Result<PrayerTime, ()>>;

/// a fully specified single-day call, replayable from its protocol tokens
#[derive(Clone)]
pub struct DayCase {
    pub p: Params,
    pub l: Location,
    pub rd: i64,
    pub w: Option<Weather>,
}

impl DayCase {
    pub fn to_json(&self) -> Value {
        let (pn, pl) = policy_name(&self.p.extreme_latitude_method);
        json!({
            "kind": "day",
            "req": format!("{} {} {} {}", params_tokens(&self.p), loc_tokens(&self.l), self.rd, weather_tokens(&self.w)),
            "date": ymd(self.rd),
            "lat": f64::from(self.l.coords.latitude), "lon": f64::from(self.l.coords.longitude),
            "elev": f64::from(self.l.coords.elevation), "gmt": f64::from(self.l.gmt),
            "policy": pn, "policy_lat": pl, "round": round_tok(self.p.round_seconds),
            "asr": self.p.asr_shadow_ratio as u8,
            "angles": [self.p.angles[&Prayer::Fajr], self.p.angles[&Prayer::Isha], self.p.angles[&Prayer::Imsaak]],
            "intervals": [self.p.intervals[&Prayer::Fajr], self.p.intervals[&Prayer::Isha], self.p.intervals[&Prayer::Imsaak]],
            "minutes": PRAYERS.iter().map(|q| self.p.minutes[q]).collect::<Vec<_>>(),
            "weather": self.w.map(|w| vec![f64::from(w.pressure), f64::from(w.temperature)]),
        })
    }
    /// parse `<17 param tokens> <4 loc tokens> <rd> <2 weather tokens>` (optionally preceded by a unit name)
    pub fn from_req(req: &str) -> Option<DayCase> {
        let mut t: Vec<&str> = req.split_whitespace().collect();
        if !t.is_empty() && ["raw", "adj", "ptdt", "imsaak", "extlat"].contains(&t[0]) {
            t.remove(0);
        }
        if t.len() < 24 {
            return None;
        }
        let f = |s: &str| u64::from_str_radix(s, 16).ok().map(f64::from_bits);
        let mut p = Params::new(Method::None);
        p.round_seconds = match t[0] {
            "N" => RoundSeconds::None,
            "R" => RoundSeconds::NormalRounding,
            "S" => RoundSeconds::SpecialRounding,
            "A" => RoundSeconds::AggressiveRounding,
            _ => return None,
        };
        p.asr_shadow_ratio = if t[1] == "2" { AsrShadowRatio::Hanafi } else { AsrShadowRatio::Shafi };
        let pidx = POLICY_NAMES.iter().position(|n| *n == t[2])?;
        p.extreme_latitude_method = policy(pidx, f(t[3])?);
        *p.angles.get_mut(&Prayer::Fajr)? = f(t[4])?;
        *p.angles.get_mut(&Prayer::Isha)? = f(t[5])?;
        *p.angles.get_mut(&Prayer::Imsaak)? = f(t[6])?;
        *p.intervals.get_mut(&Prayer::Fajr)? = f(t[7])?;
        *p.intervals.get_mut(&Prayer::Isha)? = f(t[8])?;
        *p.intervals.get_mut(&Prayer::Imsaak)? = f(t[9])?;
        for (k, pr) in PRAYERS.iter().enumerate() {
            *p.minutes.get_mut(pr)? = f(t[10 + k])?;
        }
        let l = Location {
            coords: Coordinates::new(
                Latitude::try_from(f(t[17])?).ok()?,
                Longitude::try_from(f(t[18])?).ok()?,
                Elevation::try_from(f(t[19])?).ok()?,
            ),
            gmt: Gmt::try_from(f(t[20])?).ok()?,
        };
        let rd: i64 = t[21].parse().ok()?;
        let w = if t[22] == "-" {
            None
        } else {
            Some(Weather { pressure: Pressure::try_from(f(t[22])?).ok()?, temperature: Temperature::try_from(f(t[23])?).ok()? })
        };
        Some(DayCase { p, l, rd, w })
    }
    pub fn from_json(v: &Value) -> Option<DayCase> {
        v.get("req").and_then(|r| r.as_str()).and_then(DayCase::from_req).or_else(|| DayCase::from_fields(v))
    }
    /// a case written by hand: the readable fields of `to_json` without the bit-exact `req`
    /// (`date` as yyyy-mm-dd; `angles`, `intervals`, `minutes`, `policy`, `round`, `asr`, `elev`, `weather` optional)
    pub fn from_fields(v: &Value) -> Option<DayCase> {
        if v.get("kind").and_then(|k| k.as_str()).map_or(false, |k| k != "day") {
            return None;
        }
        let num = |k: &str| v.get(k).and_then(|x| x.as_f64());
        let arr = |k: &str, n: usize, d: f64| -> Vec<f64> {
            let a: Vec<f64> = v.get(k).and_then(|x| x.as_array()).map(|a| a.iter().filter_map(|x| x.as_f64()).collect()).unwrap_or_default();
            if a.len() == n { a } else { vec![d; n] }
        };
        let date = v.get("date")?.as_str()?;
        let mut it = date.splitn(3, '-');
        let (y, m, d): (i32, u32, u32) = (it.next()?.parse().ok()?, it.next()?.parse().ok()?, it.next()?.parse().ok()?);
        chrono::NaiveDate::from_ymd_opt(y, m, d)?;
        let angles = v.get("angles").and_then(|x| x.as_array()).map(|a| a.iter().filter_map(|x| x.as_f64()).collect::<Vec<_>>()).filter(|a| a.len() == 3).unwrap_or(vec![18., 17., 1.5]);
        let intervals = arr("intervals", 3, 0.);
        let minutes = arr("minutes", 7, 0.);
        let weather = match v.get("weather").and_then(|x| x.as_array()) {
            Some(a) if a.len() == 2 => format!("{} {}", hx(a[0].as_f64()?), hx(a[1].as_f64()?)),
            _ => "- -".to_string(),
        };
        let mut t = vec![
            v.get("round").and_then(|x| x.as_str()).unwrap_or("N").to_string(),
            v.get("asr").and_then(|x| x.as_u64()).unwrap_or(1).to_string(),
            v.get("policy").and_then(|x| x.as_str()).unwrap_or("None").to_string(),
            hx(num("policy_lat").unwrap_or(0.)),
        ];
        t.extend(angles.iter().chain(intervals.iter()).chain(minutes.iter()).map(|x| hx(*x)));
        t.extend([hx(num("lat")?), hx(num("lon")?), hx(num("elev").unwrap_or(0.)), hx(num("gmt")?)]);
        t.push(rd_of(y, m, d).to_string());
        t.push(weather);
        DayCase::from_req(&t.join(" "))
    }
    pub fn run(&self) -> Result<Day, ()> {
        crate::falsify::begin_case(self);
        catch_unwind(AssertUnwindSafe(|| prayer_times_dt(&self.p, self.l, date_of_rd(self.rd), self.w))).map_err(|_| ())
    }
    pub fn with<F: FnOnce(&mut Params)>(&self, f: F) -> DayCase {
        let mut c = self.clone();
        f(&mut c.p);
        c
    }
}

/// Is this parameter set one the properties about named methods quantify over: no minute offsets, no
/// Fajr or Imsaak interval, Isha either by an angle in [9, 21] or by the 90-minute interval of the two
/// interval methods (whose Isha angle is 0), Fajr angle in [9, 21]?  Inputs handed over from a correspondence break are
/// arbitrary (angles 0..25, intervals 0..180, offsets): a falsifier evaluates its clauses only on the
/// ones inside its property's quantifier.
pub fn named_like(c: &DayCase, allow_interval_isha: bool) -> bool {
    let fa = c.p.angles[&Prayer::Fajr];
    let ia = c.p.angles[&Prayer::Isha];
    let ii = c.p.intervals[&Prayer::Isha];
    PRAYERS.iter().all(|q| c.p.minutes[q] == 0.)
        && c.p.intervals[&Prayer::Fajr] == 0.
        && c.p.intervals[&Prayer::Imsaak] == 0.
        && (9. ..=21.).contains(&fa)
        && (0.5..=3.).contains(&c.p.angles[&Prayer::Imsaak])
        && (if ii == 0. { (9. ..=21.).contains(&ia) } else { allow_interval_isha && ii == 90. && ia == 0. })
}

/// Results depend on the inputs only.  Every property is stated as a function of the call's
/// arguments, so the same call must give the same result whatever was computed before it on the same
/// thread (memoisation keyed on too little, reused buffers, thread-locals).  `c` is computed first,
/// then each neighbour of it (one argument changed) on the same thread, and the neighbour's result is
/// compared with the one a fresh thread gives (sixteen neighbours: Asr school, the two angles, rounding, an
/// offset, elevation, weather, date, policy, latitude, longitude, GMT offset).  Returns false after reporting a failure.
pub fn purity_probe(ctx: &mut Ctx, c: &DayCase) -> bool {
    let flip_asr = c.with(|p| p.asr_shadow_ratio = if matches!(p.asr_shadow_ratio, AsrShadowRatio::Shafi) { AsrShadowRatio::Hanafi } else { AsrShadowRatio::Shafi });
    let fajr_up = c.with(|p| *p.angles.get_mut(&Prayer::Fajr).unwrap() += 1.);
    let isha_up = c.with(|p| *p.angles.get_mut(&Prayer::Isha).unwrap() += 1.);
    let round = c.with(|p| p.round_seconds = if matches!(p.round_seconds, RoundSeconds::None) { RoundSeconds::NormalRounding } else { RoundSeconds::None });
    let offset = c.with(|p| *p.minutes.get_mut(&Prayer::Asr).unwrap() += 7.);
    let mut elev = c.clone();
    elev.l.coords.elevation = Elevation::try_from((f64::from(c.l.coords.elevation) + 500.).min(8848.)).unwrap();
    let mut wx = c.clone();
    wx.w = Some(weather(900., -20.));
    let mut next = c.clone();
    next.rd += 1;
    let (la, lo, g) = (f64::from(c.l.coords.latitude), f64::from(c.l.coords.longitude), f64::from(c.l.gmt));
    let mut north = c.clone();
    north.l.coords.latitude = Latitude::try_from(if la + 1. <= 90. { la + 1. } else { la - 1. }).unwrap();
    let mut east = c.clone();
    east.l.coords.longitude = Longitude::try_from(if lo + 15. <= 180. { lo + 15. } else { lo - 15. }).unwrap();
    let mut zone = c.clone();
    zone.l.gmt = Gmt::try_from(if g + 1. <= 12. { g + 1. } else { g - 1. }).unwrap();
    // small steps too: a memo keyed on a quantised argument (the hour of the Julian Day, a rounded
    // coordinate) confuses neighbours that a whole-unit step tells apart
    let mut zone_q = c.clone();
    zone_q.l.gmt = Gmt::try_from(if g + 0.25 <= 12. { g + 0.25 } else { g - 0.25 }).unwrap();
    let mut north_q = c.clone();
    north_q.l.coords.latitude = Latitude::try_from(if la + 0.01 <= 90. { la + 0.01 } else { la - 0.01 }).unwrap();
    let mut east_q = c.clone();
    east_q.l.coords.longitude = Longitude::try_from(if lo + 0.01 <= 180. { lo + 0.01 } else { lo - 0.01 }).unwrap();
    let mut elev_q = c.clone();
    elev_q.l.coords.elevation = Elevation::try_from((f64::from(c.l.coords.elevation) + 1.).min(8848.)).unwrap();
    let pol = c.with(|p| {
        p.extreme_latitude_method = match p.extreme_latitude_method {
            ExtremeLatitudeMethod::NearestLatitudeAllPrayersAlways(l) => ExtremeLatitudeMethod::NearestLatitudeFajrIshaAlways(l),
            ExtremeLatitudeMethod::NearestLatitudeFajrIshaAlways(l) => ExtremeLatitudeMethod::NearestLatitudeAllPrayersAlways(l),
            ExtremeLatitudeMethod::NearestGoodDayAllPrayersAlways => ExtremeLatitudeMethod::NearestGoodDayFajrIshaInvalid,
            ExtremeLatitudeMethod::None => ExtremeLatitudeMethod::NearestGoodDayFajrIshaInvalid,
            _ => ExtremeLatitudeMethod::NearestGoodDayAllPrayersAlways,
        }
    });
    for (what, v) in [("asr school", flip_asr), ("Fajr angle", fajr_up), ("Isha angle", isha_up), ("rounding", round), ("Asr offset", offset), ("elevation", elev), ("weather", wx), ("next day", next), ("policy", pol), ("latitude", north), ("longitude", east), ("GMT offset", zone),
                      ("GMT offset by a quarter hour", zone_q), ("latitude by 0.01 deg", north_q), ("longitude by 0.01 deg", east_q), ("elevation by 1 m", elev_q)] {
        ctx.eval();
        let _ = c.run();
        let seq = v.run();
        let v2 = v.clone();
        let fresh = std::thread::spawn(move || v2.run()).join().unwrap_or(Err(()));
        ctx.nontrivial(&format!("pure|{}|{}|{:.0}", what, c.rd % 97, f64::from(c.l.coords.latitude)));
        if seq != fresh {
            let mut input = v.to_json();
            input["after"] = c.to_json();
            input["kind"] = json!("day-after-day");
            let show = |d: &Result<Day, ()>| d.as_ref().map(show_day).unwrap_or_else(|_| "PANIC".into());
            ctx.fail(input, format!("after a call differing in {}: {} ; on a fresh thread: {}", what, show(&seq), show(&fresh)), "the result depends on the arguments only".into());
            return false;
        }
    }
    true
}

/// replay form of `purity_probe`: {"after": <day>, ...<day>}
pub fn purity_replay(ctx: &mut Ctx, js: &[Value]) {
    for v in js {
        if let (Some(first), Some(_)) = (v.get("after").and_then(DayCase::from_json), DayCase::from_json(v)) {
            purity_probe(ctx, &first);
        }
    }
}

pub fn cases_from(js: &[Value], reqs: &[String]) -> Vec<DayCase> {
    let mut v: Vec<DayCase> = js.iter().filter_map(DayCase::from_json).collect();
    v.extend(reqs.iter().filter_map(|r| DayCase::from_req(r)));
    v
}

pub fn show_day(d: &Day) -> String {
    PRAYERS.iter().map(|p| d.get(p).map(pt_tok).unwrap_or("MISSING".into())).collect::<Vec<_>>().join(" ")
}

pub fn secs(t: &PrayerTime) -> i64 {
    t.time.num_seconds_from_midnight() as i64
}

// ------------------------------------------------------------------------------------ C07
fn c07_one(ctx: &mut Ctx, c: &DayCase) {
    ctx.eval();
    let (pn, _) = policy_name(&c.p.extreme_latitude_method);
    ctx.nontrivial(&format!("{}|{}|{}|{:.0}", pn, round_tok(c.p.round_seconds), c.p.intervals[&Prayer::Isha] != 0., f64::from(c.l.coords.latitude)));
    ctx.branch(pn);
    match c.run() {
        Err(()) => ctx.fail(c.to_json(), "panic".into(), "a 7-entry result".into()),
        Ok(d) => {
            if d.len() != 7 || !PRAYERS.iter().all(|p| d.contains_key(p)) {
                ctx.fail(c.to_json(), format!("{} entries", d.len()), "7 entries".into());
            }
            if d.values().any(|x| x.is_err()) {
                ctx.branch("has-invalid");
            }
        }
    }
}

pub fn c07(ctx: &mut Ctx, tier: &str, r: &mut Rng, js: &[Value], reqs: &[String], replay_only: bool) {
    // watchdog: the work runs on a thread that reports each case before starting it
    let mut cases = cases_from(js, reqs);
    if !replay_only {
        let reps = sz!(tier, 3, 60);
        for _ in 0..reps {
            for (m, _) in METHODS {
                for pol in 0..15usize {
                    for rs in ROUNDS {
                        let mut p = gen_params(r, C07_SPACE);
                        let base = Params::new(m);
                        if r.chance(0.5) {
                            p.angles = base.angles.clone();
                            p.intervals = base.intervals.clone();
                        }
                        let near = if r.chance(0.4) { 48.5 } else { gen_lat(r, 90.) };
                        p.extreme_latitude_method = policy(pol, near);
                        p.round_seconds = rs;
                        cases.push(DayCase { p, l: gen_location(r, 90., 12.), rd: gen_rd(r), w: gen_weather(r) });
                    }
                }
            }
        }
    }
    if !replay_only {
        // corners of the search loops: poles and near-poles (no good day within the year) on calendar
        // corner dates, under the two nearest-good-day policies, incl. interval methods
        for la in [90., -90., 89.5, -85., 82.5] {
            for (y, m, d) in [(2024, 2, 29), (2000, 2, 29), (2023, 2, 28), (2100, 3, 1), (2023, 1, 1), (2023, 12, 31), (2023, 6, 21), (2024, 12, 21)] {
                for pol in [5usize, 6] {
                    for me in [Method::Mwl, Method::UmmAlQurra, Method::Egyptian] {
                        let mut p = Params::new(me);
                        p.extreme_latitude_method = policy(pol, 48.5);
                        cases.push(DayCase { p, l: loc(la, 10., 0., 1.), rd: rd_of(y, m, d), w: None });
                    }
                }
            }
        }
    }
    let (tx, rx) = mpsc::channel::<Option<usize>>();
    let work = cases.clone();
    let handle = std::thread::spawn(move || {
        let mut local = Ctx::new();
        for (i, c) in work.iter().enumerate() {
            tx.send(Some(i)).ok();
            c07_one(&mut local, c);
        }
        tx.send(None).ok();
        local
    });
    let mut last = 0usize;
    loop {
        match rx.recv_timeout(Duration::from_secs(60)) {
            Ok(Some(i)) => last = i,
            Ok(None) => break,
            Err(_) => {
                ctx.fail(cases[last].to_json(), "no result after 60 s (hang)".into(), "a result in bounded time".into());
                ctx.evals += last as u64;
                ctx.finish(json!({"watchdog": "fired"}));
                std::process::exit(0);
            }
        }
    }
    let local = handle.join().unwrap();
    ctx.evals += local.evals;
    ctx.fails += local.fails;
    ctx.fail_lines.extend(local.fail_lines);
    ctx.shrinker = Some(c07_one);
    ctx.nontrivial.extend(local.nontrivial);
    for (k, v) in local.branches {
        *ctx.branches.entry(k).or_insert(0) += v;
    }
    if let Some(c) = cases.last() {
        ctx.sample(c.to_json());
    }
    ctx.finish(json!({"watchdog_s": 60}));
}

// ------------------------------------------------------------------------------------ C08
const FI_ONLY: [usize; 12] = [1, 3, 4, 6, 7, 8, 9, 10, 11, 12, 13, 14]; // all but None and the two "all prayers" policies
const INVALID_ONLY: [usize; 6] = [4, 6, 8, 10, 12, 14];
const CONSUMES_INTERVALS: [usize; 3] = [11, 12, 14]; // half-of-night (both), minutes-from-maghrib invalid
const HALF: [usize; 2] = [11, 12];

fn c08_one(ctx: &mut Ctx, c: &DayCase, pol: usize) {
    ctx.eval();
    let conv = c.with(|p| p.extreme_latitude_method = ExtremeLatitudeMethod::None);
    let (rp, rc) = match (c.run(), conv.run()) {
        (Ok(a), Ok(b)) => (a, b),
        _ => {
            ctx.fail(c.to_json(), "panic".into(), "results under P and under None".into());
            return;
        }
    };
    let missing = [Prayer::Fajr, Prayer::Isha].iter().any(|q| rc[q].is_err());
    ctx.branch(if missing { "twilight-missing" } else { "all-present" });
    ctx.nontrivial(&format!("{}|{}|{}", pol, missing, c.rd % 97));
    let show = || format!("P: {} | None: {}", show_day(&rp), show_day(&rc));
    if FI_ONLY.contains(&pol) {
        for q in [Prayer::Shurooq, Prayer::Dhuhr, Prayer::Asr, Prayer::Maghrib] {
            if rp[&q] != rc[&q] {
                ctx.fail(c.to_json(), show(), format!("{:?} unchanged by a Fajr/Isha policy", q));
                return;
            }
        }
    }
    if INVALID_ONLY.contains(&pol) {
        for q in [Prayer::Fajr, Prayer::Isha] {
            if rc[&q].is_ok() && rp[&q] != rc[&q] {
                let mut input = c.to_json();
                // classify: same clock time, only the flag differs, and the method defines this
                // prayer by an interval (known finding, see known_findings.json / DESIGN §8)
                if let (Ok(a), Ok(b)) = (rp[&q], rc[&q]) {
                    if a.time == b.time && a.extreme && !b.extreme && c.p.intervals[&q] != 0. {
                        input["finding_class"] = json!("interval-defined-time-inherits-extreme-flag");
                    }
                }
                ctx.fail(input, show(), format!("conventionally valid {:?} unchanged and unflagged under an only-if-invalid policy", q));
                return;
            }
        }
    }
    if !HALF.contains(&pol) {
        for q in PRAYERS {
            // Imsaak is a time of the result like the other six: unflagged means conventional
            // (the second half - "a replaced time is flagged" - is stated for the six the policies write)
            if let Ok(t) = rp[&q] {
                if !t.extreme && rp[&q] != rc[&q] {
                    ctx.fail(c.to_json(), show(), format!("unflagged {:?} equals the conventional time", q));
                    return;
                }
                if t.extreme && false {
                    unreachable!();
                }
            }
            // a replaced time is flagged: differs from the conventional one => extreme
            if q == Prayer::Imsaak {
                continue;
            }
            if let (Ok(a), Ok(b)) = (rp[&q], rc[&q]) {
                if a.time != b.time && !a.extreme {
                    ctx.fail(c.to_json(), show(), format!("replaced {:?} flagged extreme", q));
                    return;
                }
            }
        }
    }
}

pub fn c08(ctx: &mut Ctx, tier: &str, r: &mut Rng, js: &[Value], reqs: &[String], replay_only: bool) {
    for c in cases_from(js, reqs) {
        let (pn, _) = policy_name(&c.p.extreme_latitude_method);
        let pol = POLICY_NAMES.iter().position(|n| *n == pn).unwrap();
        // inputs handed over from a correspondence break are evaluated only inside the property's
        // quantifier: |lat| <= 70, the angle/interval configuration of a named method (no Fajr or
        // Imsaak interval, Isha interval 0 or the 90 minutes of the two interval methods), and the
        // interval-consuming policies with angle-based methods only
        let named = named_like(&c, true);
        let interval_method = c.p.intervals[&Prayer::Isha] != 0.;
        if pol != 0 && named && f64::from(c.l.coords.latitude).abs() <= 70. && !(CONSUMES_INTERVALS.contains(&pol) && interval_method) {
            c08_one(ctx, &c, pol);
        } else {
            ctx.branch("handed-over-input-outside-quantifier");
        }
    }
    if replay_only {
        ctx.finish(json!({}));
        return;
    }
    let n = sz!(tier, 14, 400);
    for rep in 0..n {
        for (mi, (m, _)) in METHODS.iter().enumerate().skip(1) {
            for pol in 1..15usize {
                let interval_method = mi >= 7;
                if CONSUMES_INTERVALS.contains(&pol) && interval_method {
                    continue; // quantified over angle-based methods only
                }
                let mut p = Params::new(*m);
                let near = if rep % 2 == 0 { 48.5 } else { r.range(-60., 60.) };
                p.extreme_latitude_method = policy(pol, near);
                p.round_seconds = RoundSeconds::None;
                // half the cases sit where twilight goes missing
                let mut l = gen_location(r, 70., 6.);
                if r.chance(0.6) {
                    let lat = r.range(46., 70.) * if r.chance(0.5) { 1. } else { -1. };
                    l.coords.latitude = Latitude::try_from(lat).unwrap();
                }
                let mut rd = gen_rd(r);
                if r.chance(0.5) {
                    // within ~70 days of the local summer solstice
                    let y = r.int(1600, 2399) as i32;
                    let north = f64::from(l.coords.latitude) >= 0.;
                    rd = rd_of(y, if north { 6 } else { 12 }, 21) + r.int(-70, 70);
                    rd = rd.clamp(rd_of(1600, 1, 1), rd_of(2399, 12, 31));
                }
                let c = DayCase { p, l, rd, w: None };
                if rep == 0 && pol == 8 && mi == 1 {
                    ctx.sample(c.to_json());
                }
                c08_one(ctx, &c, pol);
            }
        }
    }
    ctx.finish(json!({}));
}

// ------------------------------------------------------------------------------------ C11
/// the stated function of the unrounded h:m:s
pub fn expected_round(mode: RoundSeconds, pr: Prayer, t: i64) -> i64 {
    let (hm, s) = (t - t % 60, t % 60);
    let rounded = |cap: i64| if s >= cap { (hm + 60) % 86400 } else { hm };
    let five = matches!(pr, Prayer::Fajr | Prayer::Dhuhr | Prayer::Asr | Prayer::Maghrib | Prayer::Isha | Prayer::Imsaak);
    match mode {
        RoundSeconds::None => t,
        RoundSeconds::NormalRounding => rounded(30),
        RoundSeconds::SpecialRounding => if five { rounded(30) } else { hm },
        RoundSeconds::AggressiveRounding => if five { rounded(1) } else { hm },
    }
}

fn c11_hook(ctx: &mut Ctx, pr: Prayer, mode: RoundSeconds, offset: f64, hour: f64) {
    // through the hook: Imsaak is never passed to hour_to_time by the library (it is Fajr's), skip it
    ctx.eval();
    let mut p0 = Params::new(Method::Isna);
    p0.round_seconds = RoundSeconds::None;
    *p0.minutes.get_mut(&pr).unwrap() = offset;
    let mut p1 = p0.clone();
    p1.round_seconds = mode;
    let input = json!({"kind": "h2t", "prayer": format!("{:?}", pr), "mode": round_tok(mode), "offset_min": offset, "hour": hour, "hour_bits": hx(hour)});
    let r = catch_unwind(AssertUnwindSafe(|| (vh::hour_to_time(&p0, pr, hour), vh::hour_to_time(&p1, pr, hour))));
    match r {
        Err(_) => ctx.fail(input, "panic".into(), "a time".into()),
        Ok((t0, t1)) => {
            let t = t0.num_seconds_from_midnight() as i64;
            let want = expected_round(mode, pr, t);
            let got = t1.num_seconds_from_midnight() as i64;
            ctx.nontrivial(&format!("{:?}|{}|{}", pr, round_tok(mode), t));
            if got != want {
                ctx.fail(input, format!("unrounded {} -> {}", hms(t), hms(got)), hms(want));
            }
        }
    }
}

pub fn hms(t: i64) -> String {
    format!("{:02}:{:02}:{:02}", t / 3600, t / 60 % 60, t % 60)
}

fn c11_api(ctx: &mut Ctx, c: &DayCase) {
    ctx.eval();
    let base = c.with(|p| p.round_seconds = RoundSeconds::None);
    let r0 = match base.run() {
        Ok(d) => d,
        Err(()) => {
            ctx.fail(c.to_json(), "panic (unrounded)".into(), "a result".into());
            return;
        }
    };
    for mode in ROUNDS {
        let cm = c.with(|p| p.round_seconds = mode);
        let r1 = match cm.run() {
            Ok(d) => d,
            Err(()) => {
                ctx.fail(cm.to_json(), "panic".into(), "a result".into());
                return;
            }
        };
        for pr in PRAYERS {
            match (r0[&pr], r1[&pr]) {
                (Ok(a), Ok(b)) => {
                    let want = expected_round(mode, pr, secs(&a));
                    if secs(&b) != want || a.extreme != b.extreme {
                        ctx.fail(cm.to_json(), format!("{:?}: unrounded {} -> {} extreme {}->{}", pr, hms(secs(&a)), hms(secs(&b)), a.extreme, b.extreme), hms(want));
                        return;
                    }
                    let moved = (secs(&b) - secs(&a)).rem_euclid(86400);
                    if moved.min(86400 - moved) >= 60 {
                        ctx.fail(cm.to_json(), format!("{:?} moved {} s", pr, moved), "less than a minute".into());
                        return;
                    }
                }
                (Err(()), Err(())) => {}
                _ => {
                    ctx.fail(cm.to_json(), format!("{:?}: validity changed by rounding", pr), "validity unaffected".into());
                    return;
                }
            }
        }
    }
}

pub fn c11(ctx: &mut Ctx, tier: &str, r: &mut Rng, js: &[Value], reqs: &[String], replay_only: bool) {
    for v in js {
        if v.get("kind").and_then(|k| k.as_str()) == Some("h2t") {
            let pr = PRAYERS.iter().find(|p| Some(format!("{:?}", p).as_str()) == v["prayer"].as_str()).copied();
            let mode = ROUNDS.iter().find(|m| Some(round_tok(**m)) == v["mode"].as_str()).copied();
            let hour = v["hour_bits"].as_str().and_then(|s| u64::from_str_radix(s, 16).ok()).map(f64::from_bits);
            if let (Some(pr), Some(mode), Some(hour)) = (pr, mode, hour) {
                c11_hook(ctx, pr, mode, v["offset_min"].as_f64().unwrap_or(0.), hour);
            }
        }
    }
    for c in cases_from(js, reqs) {
        c11_api(ctx, &c);
    }
    if replay_only {
        ctx.finish(json!({}));
        return;
    }
    // every second of the day at mid-second, 6 prayers x 3 rounding modes (exhaustive in the thorough tier)
    let stride = sz!(tier, 11, 1);
    for pr in PRAYERS.iter().skip(1) {
        for mode in ROUNDS.iter().skip(1) {
            let mut k = 0;
            while k < 86400 {
                c11_hook(ctx, *pr, *mode, 0., (k as f64 + 0.5) / 3600.);
                k += stride;
            }
            for k in [0, 1, 29, 30, 59, 3540, 3569, 3570, 3599, 86340, 86341, 86369, 86370, 86399] {
                c11_hook(ctx, *pr, *mode, 0., (k as f64 + 0.5) / 3600.);
                // negative and >= 24 h intermediate hours through minute offsets
                c11_hook(ctx, *pr, *mode, -1440., (k as f64 + 0.5) / 3600.);
                c11_hook(ctx, *pr, *mode, 1440., (k as f64 + 0.5) / 3600.);
                c11_hook(ctx, *pr, *mode, -1500., (k as f64 + 0.5) / 3600. + 1.);
            }
        }
    }
    ctx.exhaustive = stride == 1;
    // through the public API, sliding each prayer across midnight and across the hour with its offset
    let n = sz!(tier, 400, 6000);
    for i in 0..n {
        let mut p = Params::new(r.pick(&METHODS).0);
        p.extreme_latitude_method = policy(r.pick(&[0usize, 6, 6, 1, 7]), 48.5);
        let l = gen_location(r, 62., 6.);
        let rd = gen_rd(r);
        let mut c = DayCase { p, l, rd, w: None };
        if i % 2 == 0 {
            // place one prayer at 23:59:xx or xx:59:xx
            let pr = r.pick(&PRAYERS[1..]);
            if let Ok(d) = c.with(|p| p.round_seconds = RoundSeconds::None).run() {
                if let Ok(t) = d[&pr] {
                    let target = if r.chance(0.6) { 86340 + r.int(0, 59) } else { r.int(0, 23) * 3600 + 3540 + r.int(0, 59) };
                    let delta = (target - secs(&t)) as f64 / 60.;
                    *c.p.minutes.get_mut(&pr).unwrap() = delta.round();
                }
            }
        }
        if i == 0 {
            ctx.sample(c.to_json());
        }
        c11_api(ctx, &c);
    }
    ctx.sample(json!({"kind": "h2t", "prayer": "Isha", "mode": "A", "hour": 23.9836}));
    ctx.finish(json!({"stride_s": stride}));
}
