//! C19: the CLI reports what the library computes; saved parameters reproduce it.
//! The real binary (path in $IPT_BIN, built by ./check from /repo's working tree) is run as a process.
use crate::falsify::*;
use crate::gen::*;
use crate::rng::Rng;
use crate::units::Out;
use chrono::NaiveDate;
use islamic_prayer_times::*;
use serde_json::{json, Value};
use std::collections::BTreeMap;
use std::process::Command;

type Ranged = BTreeMap<NaiveDate, BTreeMap<Prayer, Result<PrayerTime, ()>>>;

pub fn bin() -> String {
    std::env::var("IPT_BIN").unwrap_or_else(|_| "/verif/build/repo-target/release/islamic_prayer_times".into())
}

fn scratch() -> std::path::PathBuf {
    let d = std::env::temp_dir().join(format!("ipt_cli_{}", std::process::id()));
    std::fs::create_dir_all(&d).ok();
    d
}

pub fn fnv1a(bytes: &[u8]) -> u64 {
    let mut h: u64 = 0xcbf29ce484222325;
    for b in bytes {
        h ^= *b as u64;
        h = h.wrapping_mul(0x100000001b3);
    }
    h
}

#[derive(Clone)]
pub struct Cli {
    pub method: usize,
    pub lat: f64,
    pub lon: f64,
    pub elev: f64,
    pub gmt: f64,
    pub start: i64,
    pub end: i64,
}

impl Cli {
    pub fn args(&self) -> Vec<String> {
        vec![
            format!("--gmt={:?}", self.gmt),
            format!("--latitude={:?}", self.lat),
            format!("--longitude={:?}", self.lon),
            format!("--elevation={:?}", self.elev),
            "-m".into(),
            method_cli_name(self.method).into(),
            "-s".into(),
            date_of_rd(self.start).to_string(),
            "-n".into(),
            date_of_rd(self.end).to_string(),
        ]
    }
    pub fn json(&self) -> Value {
        json!({"kind": "cli", "method": METHODS[self.method].1, "lat": self.lat, "lon": self.lon, "elev": self.elev, "gmt": self.gmt,
               "start": ymd(self.start), "end": ymd(self.end), "start_rd": self.start, "end_rd": self.end, "args": self.args().join(" ")})
    }
    pub fn from_json(v: &Value) -> Option<Cli> {
        Some(Cli {
            method: METHODS.iter().position(|m| Some(m.1) == v["method"].as_str())?,
            lat: v["lat"].as_f64()?,
            lon: v["lon"].as_f64()?,
            elev: v["elev"].as_f64()?,
            gmt: v["gmt"].as_f64()?,
            start: v["start_rd"].as_i64()?,
            end: v["end_rd"].as_i64()?,
        })
    }
    pub fn library(&self) -> Ranged {
        let params = Params::new(METHODS[self.method].0);
        let l = loc(self.lat, self.lon, self.elev, self.gmt);
        prayer_times_dt_rng(&params, l, &DateRange::from(date_of_rd(self.start)..=date_of_rd(self.end)))
    }
}

/// clap's ValueEnum names (kebab-case of the variant)
pub fn method_cli_name(i: usize) -> &'static str {
    ["none", "egyptian", "egypt", "shafi", "hanafi", "isna", "mwl", "umm-al-qurra", "fixed-isha"][i]
}

pub fn gen_cli(r: &mut Rng, max_days: i64) -> Cli {
    let lon = gen_lon(r);
    let start = gen_rd(r).min(rd_of(2399, 12, 31) - max_days);
    Cli { method: r.below(9) as usize, lat: gen_lat(r, 90.), lon, elev: gen_elev(r), gmt: gen_gmt(r, lon, 12.), start, end: start + r.int(0, max_days - 1) }
}

fn run(args: &[String]) -> (i32, String, String) {
    match Command::new(bin()).args(args).output() {
        Ok(o) => (o.status.code().unwrap_or(-1), String::from_utf8_lossy(&o.stdout).into_owned(), String::from_utf8_lossy(&o.stderr).into_owned()),
        Err(e) => (-2, String::new(), format!("cannot run {}: {}", bin(), e)),
    }
}

/// correspondence unit: the -o bytes of the real binary vs the model's rendering (length + FNV-1a of the
/// bytes and of the canonical form of the decoded value)
pub fn unit_cli(o: &mut Out, tier: &str, r: &mut Rng) {
    let n = sz!(tier, 40, 400);
    let dir = scratch();
    let cases: Vec<Cli> = (0..n).map(|i| gen_cli(r, if i % 4 == 0 { 400 } else { 40 })).collect();
    let workers = std::thread::available_parallelism().map(|x| x.get()).unwrap_or(4).min(16);
    // batches of `workers` runs of the real binary at a time; results are written out after each
    // batch so the harness watchdog (120 s of silence) still sees progress
    let mut base = 0usize;
    for batch in cases.chunks(workers) {
        let results: Vec<std::sync::Mutex<String>> = batch.iter().map(|_| std::sync::Mutex::new(String::new())).collect();
        std::thread::scope(|sc| {
            for (j, c) in batch.iter().enumerate() {
                let (results, dir) = (&results, &dir);
                sc.spawn(move || {
                    let out = dir.join(format!("corr_{}.json", base + j));
                    let mut args = c.args();
                    args.push("-o".into());
                    args.push(out.to_string_lossy().into_owned());
                    let (code, _, err) = run(&args);
                    let res = if code != 0 {
                        if err.contains("panicked") { "PANIC".to_string() } else { format!("EXIT {}", code) }
                    } else {
                        match std::fs::read(&out) {
                            Ok(b) => {
                                // the bytes, and the canonical form of the value they decode to (compact,
                                // keys in byte order): a differently formatted file still decodes to the same result
                                let canon = serde_json::from_slice::<serde_json::Value>(&b).ok().and_then(|v| serde_json::to_vec(&v).ok());
                                // D1: the real decoder (serde, into the library's own result type) gives exactly the
                                // library's range result; the model's side of this field is its own decoder on its
                                // own rendering (Thm C19.decode_render)
                                let dec = match serde_json::from_slice::<Ranged>(&b) { Ok(d) => d == c.library(), Err(_) => false };
                                match canon {
                                    Some(c) => format!("J {} {:016x} {} {:016x} D{}", b.len(), fnv1a(&b), c.len(), fnv1a(&c), dec as u8),
                                    None => format!("J {} {:016x} 0 NOTJSON D{}", b.len(), fnv1a(&b), dec as u8),
                                }
                            }
                            Err(_) => "NOFILE".into(),
                        }
                    };
                    std::fs::remove_file(&out).ok();
                    *results[j].lock().unwrap() = res;
                });
            }
        });
        for (j, c) in batch.iter().enumerate() {
            let res = results[j].lock().unwrap().clone();
            o.case(format!("cli {} {} {} {} {} {} {}", METHODS[c.method].1, hx(c.lat), hx(c.lon), hx(c.elev), hx(c.gmt), c.start, c.end), res);
        }
        base += batch.len();
    }
    std::fs::remove_dir_all(&dir).ok();
}

/// one case against the real binary; `Some((observed, required))` when a clause fails.  Pure with
/// respect to the falsifier context, so cases can run on several threads.
fn one_pure(c: &Cli, dir: &std::path::Path, k: usize, reuse: Option<&Cli>) -> Option<(String, String)> {
    let lib = c.library();
    let (o1, p1, o2) = (dir.join(format!("o1_{}.json", k)), dir.join(format!("p_{}.json", k)), dir.join(format!("o2_{}.json", k)));
    // the same output/parameter paths may already hold the (longer) files of an earlier run
    if let Some(prev) = reuse {
        let mut a = prev.args();
        a.extend(["-o".into(), o1.to_string_lossy().into_owned(), "-p".into(), p1.to_string_lossy().into_owned()]);
        run(&a);
    }
    // run 1: -o and -p
    let mut a = c.args();
    a.extend(["-o".into(), o1.to_string_lossy().into_owned(), "-p".into(), p1.to_string_lossy().into_owned()]);
    let (code, _, err) = run(&a);
    if code != 0 {
        return Some((format!("exit {} : {}", code, err.lines().last().unwrap_or("")), "exit 0".into()));
    }
    let bytes1 = std::fs::read(&o1).unwrap_or_default();
    match serde_json::from_slice::<Ranged>(&bytes1) {
        Ok(dec) => {
            if dec != lib {
                return Some((format!("-o file decodes to {} dates, differs from the library", dec.len()), "exactly the library's range result".into()));
            }
        }
        Err(e) => {
            return Some((format!("-o file does not decode: {}", e), "JSON of the library's range result".into()));
        }
    }
    // the saved parameter file holds the run's parameters (decoded with the library's own decoders): the
    // method's parameter set, the location to the bit, the dates.  If it did not, a replay could only
    // reproduce the output by luck (rounded coordinates change a time once in a million entries).
    {
        let saved: Option<Value> = std::fs::read(&p1).ok().and_then(|b| serde_json::from_slice(&b).ok());
        let want_p = Params::new(METHODS[c.method].0);
        let want_l = loc(c.lat, c.lon, c.elev, c.gmt);
        let problem = match &saved {
            None => Some("the -p file is not a JSON document".to_string()),
            Some(v) => {
                let sp = v.get("params").cloned().and_then(|x| serde_json::from_value::<Params>(x).ok());
                let sl = v.get("location").cloned().and_then(|x| serde_json::from_value::<Location>(x).ok());
                let sd = v.get("date_range").cloned().and_then(|x| serde_json::from_value::<DateRange>(x).ok());
                match (sp, sl, sd) {
                    (Some(sp), Some(sl), Some(sd)) => {
                        if sl != want_l {
                            Some(format!("location in the -p file {:?} differs from the one given {:?}", sl, want_l))
                        } else if sp.round_seconds != want_p.round_seconds || sp.asr_shadow_ratio != want_p.asr_shadow_ratio
                            || sp.extreme_latitude_method != want_p.extreme_latitude_method || sp.angles != want_p.angles
                            || sp.intervals != want_p.intervals || sp.minutes != want_p.minutes
                        {
                            Some(format!("parameters in the -p file differ from Params::new({:?}): policy {:?}", METHODS[c.method].0, sp.extreme_latitude_method))
                        } else if *sd.start_date() != date_of_rd(c.start) || *sd.end_date() != date_of_rd(c.end) {
                            Some(format!("dates in the -p file {}..{} differ from the ones given", sd.start_date(), sd.end_date()))
                        } else {
                            None
                        }
                    }
                    _ => Some("the -p file does not decode into params/location/date_range".to_string()),
                }
            }
        };
        if let Some(pb) = problem {
            return Some((pb, "the saved parameter file holds the parameters of the run (so that feeding it back reproduces the output)".into()));
        }
    }
    // run 2: -i with the saved parameter file must reproduce byte-identical output
    let a2 = vec!["-i".to_string(), p1.to_string_lossy().into_owned(), "-o".into(), o2.to_string_lossy().into_owned()];
    let (code2, _, err2) = run(&a2);
    let bytes2 = std::fs::read(&o2).unwrap_or_default();
    if code2 != 0 || bytes2 != bytes1 {
        return Some((format!("-i run: exit {} ({}), output {} bytes vs {}", code2, err2.lines().last().unwrap_or(""), bytes2.len(), bytes1.len()), "byte-identical output from the saved parameter file".into()));
    }
    // terminal listing: Hijri date header and the seven entries per date
    if c.end - c.start < 20 {
        let (code3, out, _) = run(&c.args());
        if code3 != 0 {
            return Some((format!("terminal run exit {}", code3), "exit 0".into()));
        }
        // The property fixes no layout: per date a header that shows the Hijri date (as the library prints
        // it) and the civil date, followed by the seven entries in order, each naming its prayer and showing
        // its time (12- or 24-hour clock, to the minute), "invalid" for a missing one, "extreme" when flagged.
        let lines: Vec<&str> = out.lines().collect();
        let mut from = 0usize;
        for (d, day) in &lib {
            let hij = match std::panic::catch_unwind(|| HijriDate::from(*d).to_string()) {
                Ok(h) => h,
                Err(_) => return Some(("Hijri date of a listed day cannot be printed (panic)".into(), "a header".into())),
            };
            let pos = match lines[from..].iter().position(|l| l.contains(&hij)) {
                Some(p) => from + p,
                None => return Some((format!("no line showing `{}` in the listing", hij), "Hijri date per day".into())),
            };
            let (yy, dd) = (d.format("%Y").to_string(), d.format("%-d").to_string());
            let header_nums: Vec<&str> = lines[pos].split(|ch: char| !ch.is_ascii_digit()).filter(|t| !t.is_empty()).collect();
            if !(header_nums.iter().any(|t| t.trim_start_matches('0') == yy.trim_start_matches('0')) && header_nums.iter().any(|t| t.trim_start_matches('0') == dd)) {
                return Some((format!("header `{}`", lines[pos]), format!("the civil date {} next to the Hijri date", d)));
            }
            let block: Vec<&str> = lines[pos + 1..].iter().copied().filter(|l| !l.trim().is_empty()).take(7).collect();
            for (i, p) in PRAYERS.iter().enumerate() {
                let line = block.get(i).copied().unwrap_or("<missing>");
                let low = line.to_lowercase();
                let name_ok = low.contains(&format!("{:?}", p).to_lowercase());
                let time_ok = match day[p] {
                    Ok(t) => {
                        use chrono::Timelike;
                        let (h, m) = (t.time.hour(), t.time.minute());
                        let h12 = if h % 12 == 0 { 12 } else { h % 12 };
                        let ampm = if h < 12 { "am" } else { "pm" };
                        let c12 = [format!("{}:{:02} {}", h12, m, ampm), format!("{:02}:{:02} {}", h12, m, ampm), format!("{}:{:02}{}", h12, m, ampm)];
                        let c24 = [format!("{:02}:{:02}", h, m), format!("{}:{:02}", h, m)];
                        let shows = c12.iter().any(|c| low.contains(c)) || (!low.contains("am") && !low.contains("pm") && c24.iter().any(|c| low.contains(c)));
                        shows && (low.contains("extreme") == t.extreme)
                    }
                    Err(()) => low.contains("invalid") || low.contains("n/a") || low.contains("none"),
                };
                if !(name_ok && time_ok) {
                    let want = match day[p] {
                        Ok(t) => format!("{:?} at {}{}", p, t.time.format("%H:%M"), if t.extreme { " (extreme)" } else { "" }),
                        Err(()) => format!("{:?} invalid", p),
                    };
                    return Some((format!("entry {} of {}: `{}`", i + 1, d, line), format!("a line showing {}", want)));
                }
            }
            from = pos + 1;
        }
    }
    for f in [&o1, &p1, &o2] {
        std::fs::remove_file(f).ok();
    }
    None
}

fn one(ctx: &mut Ctx, c: &Cli, dir: &std::path::Path, k: usize, reuse: Option<&Cli>) {
    let r = one_pure(c, dir, k, reuse);
    record(ctx, c, reuse, r);
}

fn record(ctx: &mut Ctx, c: &Cli, reuse: Option<&Cli>, r: Option<(String, String)>) {
    ctx.eval();
    ctx.nontrivial(&format!("{}|{}|{}|{:.0}", c.method, c.end - c.start, c.start % 1000, c.lat));
    if let Some((obs, req)) = r {
        let mut input = c.json();
        if let Some(prev) = reuse {
            // the run was made on paths that already held the files of this earlier run
            input["reused_paths_of"] = prev.json();
        }
        ctx.fail(input, obs, req);
    }
}

fn rejects(ctx: &mut Ctx, what: &str, args: Vec<String>, dir: &std::path::Path) {
    ctx.eval();
    let out = dir.join("never.json");
    std::fs::remove_file(&out).ok();
    let mut a = args.clone();
    a.extend(["-o".into(), out.to_string_lossy().into_owned()]);
    let (code, _, _) = run(&a);
    ctx.nontrivial(what);
    if code == 0 || out.exists() {
        ctx.fail(json!({"kind": "cli-invalid", "what": what, "args": args.join(" ")}), format!("exit {} output written {}", code, out.exists()), "non-zero exit before anything is computed".into());
    }
    std::fs::remove_file(&out).ok();
}

pub fn c19(ctx: &mut Ctx, tier: &str, r: &mut Rng, js: &[Value], _reqs: &[String], replay_only: bool) {
    let dir = scratch();
    for (k, v) in js.iter().enumerate() {
        if v.get("kind").and_then(|x| x.as_str()) == Some("cli-invalid") {
            if let (Some(what), Some(args)) = (v.get("what").and_then(|x| x.as_str()), v.get("args").and_then(|x| x.as_str())) {
                rejects(ctx, what, args.split(' ').map(|t| t.to_string()).collect(), &dir);
            }
            continue;
        }
        if let Some(c) = Cli::from_json(v) {
            let prev = v.get("reused_paths_of").and_then(Cli::from_json);
            one(ctx, &c, &dir, 9000 + k, prev.as_ref());
        }
    }
    if replay_only {
        ctx.finish(json!({}));
        std::fs::remove_dir_all(&dir).ok();
        return;
    }
    if !std::path::Path::new(&bin()).exists() {
        ctx.fail(json!({"kind": "cli", "bin": bin()}), "binary not built".into(), "the tool".into());
        ctx.finish(json!({}));
        return;
    }
    let n = sz!(tier, 36, 300);
    // the cases are drawn from the one stream first, then run against the binary on several threads
    // (each run of the tool can take seconds at polar latitudes), and recorded in their order
    let mut prev: Option<Cli> = None;
    let mut cases: Vec<(Cli, Option<Cli>)> = vec![];
    for i in 0..n {
        let c = gen_cli(r, if i % 5 == 0 { 400 } else { 30 });
        if i == 0 {
            ctx.sample(c.json());
        }
        // every third case reuses the paths of a longer earlier run
        let reuse = if i % 3 == 2 { prev.clone() } else { None };
        if c.end - c.start > 25 {
            prev = Some(c.clone());
        }
        cases.push((c, reuse));
    }
    let results: Vec<std::sync::Mutex<Option<Option<(String, String)>>>> = cases.iter().map(|_| std::sync::Mutex::new(None)).collect();
    let next = std::sync::atomic::AtomicUsize::new(0);
    let workers = std::thread::available_parallelism().map(|x| x.get()).unwrap_or(4).min(16);
    std::thread::scope(|sc| {
        for _ in 0..workers {
            sc.spawn(|| loop {
                let i = next.fetch_add(1, std::sync::atomic::Ordering::SeqCst);
                if i >= cases.len() {
                    break;
                }
                let (c, reuse) = &cases[i];
                let res = one_pure(c, &dir, i, reuse.as_ref());
                *results[i].lock().unwrap() = Some(res);
            });
        }
    });
    for (i, (c, _reuse)) in cases.iter().enumerate() {
        let res = results[i].lock().unwrap().take().unwrap_or(None);
        record(ctx, c, cases[i].1.as_ref(), res);
    }
    // invalid values just outside each range, malformed values, reversed or malformed dates
    let ok = Cli { method: 5, lat: 39., lon: -77., elev: 0., gmt: -5., start: rd_of(2023, 2, 6), end: rd_of(2023, 2, 6) };
    let with = |f: &dyn Fn(&mut Vec<String>)| {
        let mut a = ok.args();
        f(&mut a);
        a
    };
    let cases: Vec<(&str, Vec<String>)> = vec![
        ("latitude 90.00000000000001", with(&|a| a[1] = "--latitude=90.00000000000001".into())),
        ("latitude -90.00000000000001", with(&|a| a[1] = "--latitude=-90.00000000000001".into())),
        ("longitude 180.00000000000003", with(&|a| a[2] = "--longitude=180.00000000000003".into())),
        ("longitude -180.00000000000003", with(&|a| a[2] = "--longitude=-180.00000000000003".into())),
        ("elevation 8848.000000000002", with(&|a| a[3] = "--elevation=8848.000000000002".into())),
        ("elevation -420.00000000000006", with(&|a| a[3] = "--elevation=-420.00000000000006".into())),
        ("gmt 12.000000000000002", with(&|a| a[0] = "--gmt=12.000000000000002".into())),
        ("gmt -12.000000000000002", with(&|a| a[0] = "--gmt=-12.000000000000002".into())),
        ("latitude NaN", with(&|a| a[1] = "--latitude=NaN".into())),
        ("longitude inf", with(&|a| a[2] = "--longitude=inf".into())),
        ("gmt abc", with(&|a| a[0] = "--gmt=abc".into())),
        ("gmt 12:30", with(&|a| a[0] = "--gmt=12:30".into())),
        ("gmt -12:45", with(&|a| a[0] = "--gmt=-12:45".into())),
        ("gmt 5:30 (not a number)", with(&|a| a[0] = "--gmt=5:30".into())),
        ("latitude 45N", with(&|a| a[1] = "--latitude=45N".into())),
        ("longitude 12,5", with(&|a| a[2] = "--longitude=12,5".into())),
        ("elevation 100m", with(&|a| a[3] = "--elevation=100m".into())),
        ("latitude empty", with(&|a| a[1] = "--latitude=".into())),
        ("start date 2023-02-30", with(&|a| a[7] = "2023-02-30".into())),
        ("end date 2023-13-01", with(&|a| a[9] = "2023-13-01".into())),
        ("start date garbage", with(&|a| a[7] = "yesterday".into())),
        ("method unknown", with(&|a| a[5] = "karachi".into())),
        ("missing latitude", with(&|a| { a.remove(1); })),
    ];
    for (what, args) in cases {
        rejects(ctx, what, args, &dir);
    }
    std::fs::remove_dir_all(&dir).ok();
    ctx.finish(json!({"bin": bin()}));
}
