//! C18: validated quantities hold only in-range values however they are constructed.
//! Correspondence units `f64cmp` (IEEE order), `parse` (text/JSON number routes) live here too.
use crate::falsify::*;
use crate::gen::*;
use crate::rng::Rng;
use crate::units::*;
use islamic_prayer_times::*;
use serde_json::{json, Value};
use std::panic::{catch_unwind, AssertUnwindSafe};

pub fn hexs(s: &str) -> String {
    // leading `x` keeps the token non-empty for the empty string
    format!("x{}", s.bytes().map(|b| format!("{:02x}", b)).collect::<String>())
}

fn b01(b: bool) -> &'static str {
    if b {
        "1"
    } else {
        "0"
    }
}

pub fn unit_f64cmp(o: &mut Out, tier: &str, r: &mut Rng) {
    let n = sz!(tier, 20000, 400000);
    let special = [
        0f64, -0., 1., -1., f64::MIN_POSITIVE, -f64::MIN_POSITIVE, f64::from_bits(1), -f64::from_bits(1), f64::MAX, f64::MIN,
        f64::INFINITY, f64::NEG_INFINITY, f64::NAN, -f64::NAN, f64::from_bits(0x7ff0_0000_0000_0001), 90., -90., 180., -180.,
        12., -12., 8848., -420., 100., 1050., 57., next_up(90.), next_down(90.), next_up(-90.), next_down(-90.),
    ];
    let mut pairs: Vec<(f64, f64)> = vec![];
    for a in special {
        for b in special {
            pairs.push((a, b));
        }
    }
    for _ in 0..n {
        let a = match r.below(4) {
            0 => f64::from_bits(r.next()),
            1 => r.range(-1000., 1000.),
            2 => r.pick(&special),
            _ => f64::from_bits(r.next() & 0x800f_ffff_ffff_ffff | (r.below(3) * 0x3ff) << 52),
        };
        let b = match r.below(5) {
            0 => f64::from_bits(r.next()),
            1 => a,
            2 => next_up(a),
            3 => -a,
            _ => r.pick(&special),
        };
        pairs.push((a, b));
    }
    for (a, b) in pairs {
        let t = format!("{} {} {}", b01(a <= b), b01(a < b), b01(a == b));
        o.case(format!("f64cmp {} {}", hx(a), hx(b)), format!("{} {}", t, t));
    }
}

/// notations for a number that are NOT Rust's f64 literal grammar - a lenient parser ("accept 5:30 as
/// an offset", "accept 12,5", "accept 45N") is a change of the text route: the model rejects all of them
fn other_notation(r: &mut Rng) -> String {
    let h = r.pick(&[0i64, 1, 5, 11, 12, 13, 23, 45, 89, 90, 91, 179, 180, 181, 419, 420, 8848]);
    let sign = r.pick(&["", "-", "+"]);
    let m = r.pick(&[0i64, 1, 15, 30, 45, 59, 60]);
    let frac = r.below(1000);
    match r.below(16) {
        0 => format!("{}{}:{:02}", sign, h, m),
        1 => format!("{}{}:{:02}:{:02}", sign, h, m, r.pick(&[0i64, 30, 59])),
        2 => format!("{}{}.{}:{:02}", sign, h - 1, 9, m),
        3 => format!("{}{},{}", sign, h, frac),
        4 => format!("{}{}°", sign, h),
        5 => format!("{}{}°{}'", sign, h, m),
        6 => format!("{}{}{}", h, if r.chance(0.5) { "" } else { " " }, r.pick(&["N", "S", "E", "W", "n", "e"])),
        7 => format!("{}{}.{}{}", sign, h, frac, r.pick(&["N", "S", "E", "W", "h", "m", "deg", "d", "f", "f64"])),
        8 => format!("{}{}h{:02}", sign, h, m),
        9 => format!("{}{}/{}", sign, h, r.pick(&[1i64, 2, 4, 60])),
        10 => format!("UTC{}{}", if sign.is_empty() { "+" } else { sign }, h),
        11 => format!("GMT{}{}:{:02}", if sign.is_empty() { "+" } else { sign }, h, m),
        12 => format!("{}{} {}", sign, h, m),
        13 => format!("{}{}_{}", sign, h, frac),
        14 => format!("{}0{}.{}", sign, h, frac), // leading zero: accepted by Rust, a control
        _ => format!("({}{})", sign, h),
    }
}

pub fn gen_number_string(r: &mut Rng) -> String {
    match r.below(16) {
        14 | 15 => other_notation(r),
        12 | 13 => {
            // malformed text with multi-byte characters at every byte offset: pasted degree-minute-second
            // coordinates, other scripts, emoji; lengths 0..48 bytes
            if r.chance(0.3) {
                return r.pick(&["48°51′24.46″N", "21°25′21.05″N 39°49′34.2″E", "٤٨٫٨٥٦٦ شمال", "北緯35.6895度 東経139.6917度", "−33.8688° (Sydney) 🙂", "12,345678901234567é", "1234567890123456°", "123456789012345°0"]).to_string();
            }
            let pieces = ["°", "′", "″", "N", "E", " ", "4", "8", ".", "٣", "度", "é", "🙂", "-", "e", "inf", "nan", "−", "1", "0"];
            let n = r.below(24) as usize;
            let mut s = String::new();
            for _ in 0..n {
                s.push_str(r.pick(&pieces));
            }
            s
        }
        0 => format!("{:?}", f64::from_bits(r.next())),
        1 => format!("{}", r.range(-200., 200.)),
        2 => format!("{:e}", r.range(-1e5, 1e5)),
        3 => {
            // many significant digits
            let nd = 1 + r.below(25) as usize;
            let mut s = String::new();
            if r.chance(0.4) {
                s.push('-');
            }
            s.push_str(&format!("{}", r.below(180)));
            s.push('.');
            for _ in 0..nd {
                s.push((b'0' + r.below(10) as u8) as char);
            }
            s
        }
        4 => format!("{}", r.int(-10000, 10000)),
        5 => {
            // exponents, one in four padded with leading zeros (their value counts, not their length)
            let e = r.int(-330, 310);
            if r.chance(0.25) {
                format!("{}e{}{:0width$}", r.int(-999, 999), if e < 0 { "-" } else if r.chance(0.5) { "+" } else { "" }, e.abs(), width = r.int(2, 24) as usize)
            } else {
                format!("{}e{}", r.int(-999, 999), e)
            }
        }
        6 => format!("{}.{}E{}{}", r.below(10), r.below(100000), if r.chance(0.5) { "+" } else { "-" }, r.below(40)),
        7 => r.pick(&["90", "-90", "90.0", "-90.00000000000001", "90.00000000000001", "180", "-180.0", "12", "-12", "8848", "-420", "1050", "100", "57", "-90.0", "0", "-0", "-0.0", "0.0", "1e-320", "4.9e-324", "2.4703282292062327e-324", "2.4703282292062328e-324", "1.7976931348623157e308", "1.7976931348623159e308", "1e309", "1e400", "-1e400"]).to_string(),
        8 => {
            // halfway cases between adjacent doubles (exactly representable as decimals)
            let v = r.range(-200., 200.);
            let (a, b) = (v, next_up(v));
            // midpoint printed with enough digits to be exact needs big decimals; approximate with 30 digits
            format!("{:.30}", (a + b) / 2.)
        }
        9 => r.pick(&["", " ", "+5", ".5", "5.", "-.5", "+.5e1", "1e", "1e+", "e5", ".", "-", "+", "1_0", "0x10", "١٢", "12 ", " 12", "1,5", "NaN", "nan", "-nan", "inf", "-inf", "+inf", "Infinity", "infinity", "-Infinity", "iNf", "1.2.3", "--1", "1e5.5", "0123", "00", "-01", "1e0005", "1E5", "1e-0", "1e00000001", "1e-00000001", "1E+0000000000000000001", "1e000000000", "5e-0000000000000324"]).to_string(),
        10 => {
            let mut s = format!("{:?}", r.range(-100., 100.));
            let i = r.below(s.len() as u64 + 1) as usize;
            s.insert(i.min(s.len()), r.pick(&['x', ' ', '-', '.', 'e', '+', '0']));
            s
        }
        _ => format!("{:.17}", r.range(-95., 95.)),
    }
}

pub fn unit_parse(o: &mut Out, tier: &str, r: &mut Rng) {
    let n = sz!(tier, 12000, 300000);
    for i in 0..n {
        let s = gen_number_string(r);
        let h = hexs(&s);
        let rust = guarded(|| match s.parse::<f64>() {
            Ok(v) => hx(v),
            Err(_) => "ERR".into(),
        });
        o.case(format!("parse rust {}", h), rust);
        let js = guarded(|| match serde_json::from_str::<f64>(&s) {
            Ok(v) => hx(v),
            Err(_) => "ERR".into(),
        });
        // serde_json tolerates surrounding JSON whitespace; the number grammar itself is what is modelled
        if s.trim_matches(|c| c == ' ' || c == '\t' || c == '\n' || c == '\r') == s {
            o.case(format!("parse json {}", h), js);
        }
        let ty = BTYPES[i as usize % 6];
        if ty != "Pressure" && ty != "Temperature" {
            let res = guarded(|| match from_text(ty, &s) {
                Some(x) => format!("OK {}", hx(x)),
                None => "ERR".into(),
            });
            o.case(format!("route {} text {}", ty, h), res);
        }
        if s.trim() == s {
            let res = guarded(|| match from_json(ty, &s) {
                Some(x) => format!("OK {}", hx(x)),
                None => "ERR".into(),
            });
            o.case(format!("route {} json {}", ty, h), res);
        }
    }
    // the bit-level range check against the number route
    for ty in BTYPES {
        let (lo, hi) = bounds(ty);
        o.case(format!("rangecheck {}", ty), format!("{} {} {} {}", hx(lo), hx(hi), hx(lo), hx(hi)));
        for v in interesting_values(ty, r, 500) {
            let res = guarded(|| match try_from_f64(ty, v) {
                Some(x) => format!("OK {}", hx(x)),
                None => "ERR".into(),
            });
            o.case(format!("boundedbits {} {}", ty, hx(v)), res);
        }
    }
}

// ------------------------------------------------------------------------------------ C18 falsifier
fn one_value(ctx: &mut Ctx, ty: &str, v: f64) {
    ctx.eval();
    let (lo, hi) = bounds(ty);
    let want = v.is_finite() && lo <= v && v <= hi;
    let input = json!({"kind": "value", "type": ty, "bits": hx(v), "value": format!("{:?}", v)});
    let r = catch_unwind(AssertUnwindSafe(|| try_from_f64(ty, v)));
    ctx.nontrivial(&format!("{}|{}", ty, hx(v)));
    match r {
        Err(_) => {
            ctx.fail(input, "panic".into(), "Ok or Err".into());
            return;
        }
        Ok(got) => {
            if got.is_some() != want {
                ctx.fail(input, format!("number route accepted = {}", got.is_some()), format!("accepted = {} (finite and in [{}, {}])", want, lo, hi));
                return;
            }
            if let Some(x) = got {
                if x.to_bits() != v.to_bits() {
                    ctx.fail(input, format!("reads back {}", hx(x)), "bit-identical".into());
                    return;
                }
            }
        }
    }
    // the three routes agree on the value domain
    let text = format!("{:?}", v);
    if ty != "Pressure" && ty != "Temperature" {
        let t = catch_unwind(AssertUnwindSafe(|| from_text(ty, &text)));
        match t {
            Err(_) => {
                ctx.fail(input, format!("text route panicked on `{}`", text), "Ok or Err".into());
                return;
            }
            Ok(t) => {
                if t.map(f64::to_bits) != (if want { Some(v.to_bits()) } else { None }) {
                    ctx.fail(input, format!("text route on `{}` = {:?}", text, t.map(hx)), format!("same decision and bits as the number route ({})", want));
                    return;
                }
            }
        }
    }
    if v.is_finite() {
        let j = catch_unwind(AssertUnwindSafe(|| from_json(ty, &text)));
        match j {
            Err(_) => ctx.fail(input, format!("JSON route panicked on `{}`", text), "Ok or Err".into()),
            Ok(j) => {
                if j.map(f64::to_bits) != (if want { Some(v.to_bits()) } else { None }) {
                    ctx.fail(input, format!("JSON route on `{}` = {:?}", text, j.map(hx)), format!("same decision and bits as the number route ({})", want));
                }
            }
        }
    }
}

fn one_string(ctx: &mut Ctx, ty: &str, s: &str) {
    ctx.eval();
    let input = json!({"kind": "string", "type": ty, "text": s});
    ctx.nontrivial(&format!("{}|{}", ty, s));
    // text route = f64 parse then range check; never a panic
    if ty != "Pressure" && ty != "Temperature" {
        let want = s.parse::<f64>().ok().and_then(|v| {
            let (lo, hi) = bounds(ty);
            if v.is_finite() && lo <= v && v <= hi {
                Some(v.to_bits())
            } else {
                None
            }
        });
        match catch_unwind(AssertUnwindSafe(|| from_text(ty, s))) {
            Err(_) => {
                ctx.fail(input, "text route panicked".into(), "an error, not a panic".into());
                return;
            }
            Ok(t) => {
                if t.map(f64::to_bits) != want {
                    ctx.fail(input, format!("text route = {:?}", t.map(hx)), format!("{:?}", want.map(|b| format!("{:016x}", b))));
                    return;
                }
            }
        }
    }
    // JSON route: on strings both grammars accept, same decision and same bits as the text parse
    let jv = serde_json::from_str::<f64>(s).ok();
    let tv = s.parse::<f64>().ok();
    match catch_unwind(AssertUnwindSafe(|| from_json(ty, s))) {
        Err(_) => ctx.fail(input, "JSON route panicked".into(), "an error, not a panic".into()),
        Ok(j) => {
            if let (Some(_), Some(t)) = (jv, tv) {
                let (lo, hi) = bounds(ty);
                let want = if t.is_finite() && lo <= t && t <= hi { Some(t.to_bits()) } else { None };
                if j.map(f64::to_bits) != want {
                    ctx.fail(input, format!("JSON route = {:?}", j.map(hx)), format!("as the text route: {:?}", want.map(|b| format!("{:016x}", b))));
                }
            } else if jv.is_none() && j.is_some() {
                ctx.fail(input, "JSON route accepted a non-number".into(), "rejected".into());
            }
        }
    }
}

/// a Location document with the four numbers written as Rust prints them
fn location_doc(ctx: &mut Ctx, la: f64, lo: f64, el: f64, g: f64) {
    ctx.eval();
    let doc = format!(r#"{{"coords":{{"latitude":{:?},"longitude":{:?},"elevation":{:?}}},"gmt":{:?}}}"#, la, lo, el, g);
    let input = json!({"kind": "document", "doc_type": "Location", "doc": doc, "values": [hx(la), hx(lo), hx(el), hx(g)]});
    let ok = la.abs() <= 90. && lo.abs() <= 180. && (-420. ..=8848.).contains(&el) && g.abs() <= 12.;
    let got = catch_unwind(AssertUnwindSafe(|| serde_json::from_str::<Location>(&doc)));
    ctx.nontrivial(&doc);
    match got {
        Err(_) => ctx.fail(input, "panic".into(), "Ok or Err".into()),
        Ok(x) => {
            if x.is_ok() != ok {
                ctx.fail(input, format!("Location accepted = {}", x.is_ok()), format!("accepted = {}", ok));
            } else if let Ok(l) = x {
                if f64::from(l.coords.latitude).to_bits() != la.to_bits() || f64::from(l.gmt).to_bits() != g.to_bits() {
                    ctx.fail(input, "values differ from the text".into(), "bit-identical".into());
                } else {
                    // an accepted value reads back bit-identical: written out and read in again
                    let back = catch_unwind(AssertUnwindSafe(|| serde_json::to_string(&l).ok().and_then(|t| serde_json::from_str::<Location>(&t).ok())));
                    match back {
                        Ok(Some(l2)) if l2 == l
                            && f64::from(l2.coords.latitude).to_bits() == la.to_bits()
                            && f64::from(l2.coords.longitude).to_bits() == lo.to_bits()
                            && f64::from(l2.coords.elevation).to_bits() == el.to_bits()
                            && f64::from(l2.gmt).to_bits() == g.to_bits() => {}
                        other => ctx.fail(input, format!("written out and read back: {:?}", other), "bit-identical".into()),
                    }
                }
            }
        }
    }
}

fn weather_doc(ctx: &mut Ctx, p: f64, t: f64) {
    ctx.eval();
    let doc = format!(r#"{{"pressure":{:?},"temperature":{:?}}}"#, p, t);
    let input = json!({"kind": "document", "doc_type": "Weather", "doc": doc, "values": [hx(p), hx(t)]});
    let ok = (100. ..=1050.).contains(&p) && (-90. ..=57.).contains(&t);
    match catch_unwind(AssertUnwindSafe(|| serde_json::from_str::<Weather>(&doc))) {
        Err(_) => ctx.fail(input, "panic".into(), "Ok or Err".into()),
        Ok(x) => {
            if x.is_ok() != ok {
                ctx.fail(input, format!("Weather accepted = {}", x.is_ok()), format!("accepted = {}", ok));
            }
        }
    }
}

fn params_doc(ctx: &mut Ctx, nl: f64) {
    ctx.eval();
    let mut params = Params::new(Method::Isna);
    params.extreme_latitude_method = ExtremeLatitudeMethod::NearestLatitudeFajrIshaAlways(NEAREST_LATITUDE);
    let doc = serde_json::to_string(&params).unwrap().replace("48.5", &format!("{:?}", nl));
    let input = json!({"kind": "document", "doc_type": "Params", "doc": doc, "values": [hx(nl)]});
    match catch_unwind(AssertUnwindSafe(|| serde_json::from_str::<Params>(&doc))) {
        Err(_) => ctx.fail(input, "panic".into(), "Ok or Err".into()),
        Ok(x) => {
            if x.is_ok() != (nl.abs() <= 90.) {
                ctx.fail(input, format!("Params accepted = {}", x.is_ok()), format!("accepted = {}", nl.abs() <= 90.));
            }
        }
    }
}

/// replay of a recorded document case
fn document_replay(ctx: &mut Ctx, v: &Value) {
    let vals: Vec<f64> = v.get("values").and_then(|x| x.as_array()).map(|a| {
        a.iter().filter_map(|t| t.as_str()).filter_map(|t| u64::from_str_radix(t, 16).ok()).map(f64::from_bits).collect()
    }).unwrap_or_default();
    match (v.get("doc_type").and_then(|x| x.as_str()), vals.len()) {
        (Some("Location"), 4) => location_doc(ctx, vals[0], vals[1], vals[2], vals[3]),
        (Some("Weather"), 2) => weather_doc(ctx, vals[0], vals[1]),
        (Some("Params"), 1) => params_doc(ctx, vals[0]),
        _ => {}
    }
}

fn composite(ctx: &mut Ctx, r: &mut Rng) {
    // Location / Weather / Params documents embedding the six types
    location_doc(ctx, r.range(-100., 100.), r.range(-200., 200.), r.range(-600., 9500.), r.range(-14., 14.));
    weather_doc(ctx, r.range(0., 1200.), r.range(-120., 80.));
    params_doc(ctx, r.range(-120., 120.));
}

pub fn c18(ctx: &mut Ctx, tier: &str, r: &mut Rng, js: &[Value], _reqs: &[String], replay_only: bool) {
    for v in js {
        let ty = v.get("type").and_then(|x| x.as_str()).unwrap_or("Latitude").to_string();
        let ty: &str = BTYPES.iter().find(|t| **t == ty).copied().unwrap_or("Latitude");
        if let Some(b) = v.get("bits").and_then(|x| x.as_str()).and_then(|s| u64::from_str_radix(s, 16).ok()) {
            one_value(ctx, ty, f64::from_bits(b));
        }
        if let Some(s) = v.get("text").and_then(|x| x.as_str()) {
            one_string(ctx, ty, s);
        }
        if v.get("kind").and_then(|x| x.as_str()) == Some("document") {
            document_replay(ctx, v);
        }
    }
    if replay_only {
        ctx.finish(json!({}));
        return;
    }
    let n = sz!(tier, 2500, 60000);
    for ty in BTYPES {
        for v in interesting_values(ty, r, n) {
            one_value(ctx, ty, v);
        }
        for _ in 0..n {
            let s = gen_number_string(r);
            one_string(ctx, ty, &s);
        }
    }
    for _ in 0..n {
        composite(ctx, r);
    }
    ctx.sample(json!({"kind": "value", "type": "Latitude", "bits": hx(next_up(90.))}));
    ctx.sample(json!({"kind": "string", "type": "Gmt", "text": "-12.000000000000001"}));
    ctx.finish(json!({}));
}
