//! Falsifiers for the properties that are statements about the sky: C01, C02, C03, C04, C05, C06,
//! C13, C20.  Each evaluates the property as worded (same tolerances, same exemptions) on the real
//! code against the independent ephemeris of oracle.rs.
use crate::f_policy::*;
use crate::falsify::*;
use crate::gen::*;
use crate::oracle::*;
use crate::rng::Rng;
use crate::units::gen_location;
use islamic_prayer_times::verif_hooks as vh;
use islamic_prayer_times::*;
use serde_json::{json, Value};
use std::panic::{catch_unwind, AssertUnwindSafe};

const ANGLE_METHODS: [Method; 6] = [Method::Egyptian, Method::Egypt, Method::Shafi, Method::Hanafi, Method::Isna, Method::Mwl];
const NAMED8: [Method; 8] = [
    Method::Egyptian, Method::Egypt, Method::Shafi, Method::Hanafi, Method::Isna, Method::Mwl, Method::UmmAlQurra, Method::FixedIsha,
];

fn lat(c: &DayCase) -> f64 {
    c.l.coords.latitude.into()
}
fn lon(c: &DayCase) -> f64 {
    c.l.coords.longitude.into()
}
fn gmt(c: &DayCase) -> f64 {
    c.l.gmt.into()
}

/// the six conventional hours (f64 hours of local clock time), via the hook; panics are failures
fn raw(c: &DayCase) -> Option<[Result<f64, ()>; 6]> {
    catch_unwind(AssertUnwindSafe(|| vh::raw_hours(&c.p, c.l, date_of_rd(c.rd), c.w.unwrap_or_default()))).ok()
}

/// The properties speak of the *reported* times.  Under `RoundSeconds::None` (their "unrounded
/// seconds"), without offsets and without a policy, the clock time the public API reports for a
/// prayer is the computed instant truncated to the second (modulo 24 h), and a missing instant is
/// reported Invalid.  `which`: (index into the six raw hours, prayer).  Returns false after a failure.
fn reported_is_computed(ctx: &mut Ctx, c: &DayCase, h: &[Result<f64, ()>; 6], which: &[(usize, Prayer)]) -> bool {
    let plain = c.with(|p| {
        p.round_seconds = RoundSeconds::None;
        p.extreme_latitude_method = ExtremeLatitudeMethod::None;
        for q in PRAYERS {
            *p.minutes.get_mut(&q).unwrap() = 0.;
        }
    });
    let d = match plain.run() {
        Ok(d) => d,
        Err(()) => {
            ctx.fail(plain.to_json(), "panic".into(), "a result".into());
            return false;
        }
    };
    for (idx, pr) in which {
        if (*pr == Prayer::Fajr || *pr == Prayer::Isha) && c.p.intervals[pr] != 0. {
            continue; // defined by an interval, not by the computed instant
        }
        match (h[*idx], d[pr]) {
            (Ok(t), Ok(rep)) => {
                let want = (t.rem_euclid(24.) * 3600.).floor() as i64;
                let got = secs(&rep);
                let diff = (got - want).rem_euclid(86400);
                if diff.min(86400 - diff) > 1 {
                    ctx.fail(plain.to_json(), format!("{:?} reported {} but computed at {} (unrounded seconds)", pr, hms(got), hms(want)), "the reported time is the computed instant".into());
                    return false;
                }
            }
            (Err(()), Err(())) => {}
            (a, b) => {
                ctx.fail(plain.to_json(), format!("{:?}: computed {:?}, reported {:?}", pr, a.map(|x| (x * 3600.) as i64), b.map(|x| secs(&x))), "the reported entry is the computed one".into());
                return false;
            }
        }
    }
    true
}

/// signed offset (hours) of `x` from Dhuhr, into (-12, 12]
fn off(x: f64, dhuhr: f64) -> f64 {
    let mut d = (x - dhuhr) % 24.;
    if d > 12. {
        d -= 24.;
    }
    if d <= -12. {
        d += 24.;
    }
    d
}

/// Julian Day (UT) of local clock hour `h` on the civil date
fn jd_of(c: &DayCase, h: f64) -> f64 {
    jd0_of_rd(c.rd) + (h - gmt(c)) / 24.
}

/// oracle declination "of the date": at the epoch the property names for the 0.03-degree clause
/// (the date's own declination, local midnight)
fn dec_of_date(c: &DayCase) -> f64 {
    sun(jd_of(c, 0.)).dec
}

fn plain(method: Method, l: Location, rd: i64) -> DayCase {
    let mut p = Params::new(method);
    p.round_seconds = RoundSeconds::None;
    p.extreme_latitude_method = ExtremeLatitudeMethod::None;
    DayCase { p, l, rd, w: None }
}

fn boundary_rd(r: &mut Rng) -> i64 {
    gen_rd(r)
}

// ------------------------------------------------------------------------------------ C01
thread_local! {
    /// extremes seen of the envelope quantities: min d1, max d1, max |d2|, max |H|
    static ENVELOPE: std::cell::RefCell<[f64; 4]> = std::cell::RefCell::new([f64::INFINITY, f64::NEG_INFINITY, 0., 0.]);
}

fn c01_one(ctx: &mut Ctx, c: &DayCase) {
    ctx.eval();
    let h = match raw(c) {
        Some(h) => h,
        None => {
            ctx.fail(c.to_json(), "panic".into(), "Dhuhr".into());
            return;
        }
    };
    let dhuhr = match h[2] {
        Ok(d) => d,
        Err(()) => {
            ctx.fail(c.to_json(), "Dhuhr invalid".into(), "Dhuhr always reported".into());
            return;
        }
    };
    // the API must report it too, also at the poles
    match c.run() {
        Ok(d) => {
            if d.get(&Prayer::Dhuhr).map(|x| x.is_err()).unwrap_or(true) {
                ctx.fail(c.to_json(), "Dhuhr missing in the result".into(), "Dhuhr always reported".into());
                return;
            }
        }
        Err(()) => {
            ctx.fail(c.to_json(), "panic".into(), "a result".into());
            return;
        }
    }
    if !reported_is_computed(ctx, c, &h, &[(2, Prayer::Dhuhr)]) {
        return;
    }
    // the hypotheses of Lean's `C01.residual_bound` (DESIGN 7 C01 "envelope"), evaluated on the
    // implementation's own ephemeris of the three days: daily RA motion, its second difference, and
    // the hour angle at the mean transit fraction that the single correction step removes
    {
        let t = vh::top_astro(c.l, date_of_rd(c.rd));
        let step = |a: f64, b: f64| {
            let d = b - a;
            if d < -180. { d + 360. } else if d > 180. { d - 360. } else { d }
        };
        let (s1, s2) = (step(t[0][0], t[1][0]), step(t[1][0], t[2][0]));
        let (d1, d2) = (s1 + s2, s2 - s1);
        let m = dhuhr.rem_euclid(24.) / 24.;
        let hh = m * (0.985647 - d1 / 2.) - m * m * d2 / 2.;
        ENVELOPE.with(|e| {
            let mut e = e.borrow_mut();
            e[0] = e[0].min(d1);
            e[1] = e[1].max(d1);
            e[2] = e[2].max(d2.abs());
            e[3] = e[3].max(hh.abs());
        });
        if !(1.7..=2.3).contains(&d1) || d2.abs() > 0.019 || hh.abs() > 0.5 {
            ctx.fail(
                c.to_json(),
                format!("RA motion over the two days {:.5} deg, second difference {:.5} deg, hour angle at the mean transit {:.5} deg", d1, d2, hh),
                "the envelope under which C01.residual_bound bounds the residual of the single correction step: 1.7 <= d1 <= 2.3, |d2| <= 0.019, |H| <= 0.5".into(),
            );
            return;
        }
    }
    // the reported instant is a clock time of the requested civil date: an hour outside [0, 24) is
    // reported wrapped into the day, and that is the instant the property speaks about
    let dhuhr = dhuhr.rem_euclid(24.);
    let (ha, _, s) = hour_angle_alt(jd_of(c, dhuhr), lat(c), lon(c));
    let secs = ha * 240.;
    ctx.nontrivial(&format!("{}|{:.0}|{:.0}", c.rd, lat(c), lon(c)));
    if (80. ..=100.).contains(&((c.rd - rd_of(date_of_rd(c.rd).format("%Y").to_string().parse().unwrap(), 1, 1)) as f64)) {
        ctx.branch("near-march-equinox");
    }
    if secs.abs() > 10. {
        ctx.fail(
            c.to_json(),
            format!("Dhuhr {} : oracle hour angle {:+.2} s (RA {:.4} deg)", hms((dhuhr * 3600.) as i64), secs, s.ra),
            "|hour angle| <= 10 s".into(),
        );
    }
}

pub fn c01(ctx: &mut Ctx, tier: &str, r: &mut Rng, js: &[Value], reqs: &[String], replay_only: bool) {
    ctx.shrinker = Some(c01_one);
    for c in cases_from(js, reqs) {
        if (gmt(&c) - lon(&c) / 15.).abs() <= 6. {
            c01_one(ctx, &c.with(|p| p.round_seconds = RoundSeconds::None));
        }
    }
    if replay_only {
        ctx.finish(json!({}));
        return;
    }
    let (ra, dec, st) = self_test();
    if ra > 0.02 || dec > 0.02 || st > 0.02 {
        ctx.fail(json!({"kind": "oracle-self-test"}), format!("{} {} {}", ra, dec, st), "ephemerides (i) and (ii) agree within 0.02 deg".into());
    }
    let n = sz!(tier, 5000, 250000);
    for i in 0..n {
        let m = r.pick(&METHODS).0;
        let mut l = gen_location(r, 90., 6.);
        let mut rd = boundary_rd(r);
        if i % 5 == 0 {
            // the days around the March equinox where the RA wraps 360 -> 0
            rd = rd_of(r.int(1600, 2399) as i32, 3, 18) + r.int(0, 6);
        }
        if i % 7 == 3 {
            // the ends of the zone range: the transit fraction (ra - lon - sidereal)/360 leaves
            // [-1, 1] only with the clock 12 h from Greenwich
            ctx.branch("zone-end");
            let s = if r.chance(0.5) { 1. } else { -1. };
            l = loc(lat(&plain(m, l, rd)), s * r.range(90., 180.), 0., 12. * s);
        }
        let c = plain(m, l, rd);
        if i == 0 {
            ctx.sample(c.to_json());
        }
        c01_one(ctx, &c);
    }
    let env = ENVELOPE.with(|e| *e.borrow());
    ctx.finish(json!({"oracle_self_test_deg": [ra, dec, st],
        "residual_bound_envelope_seen": {"d1_min": env[0], "d1_max": env[1], "abs_d2_max": env[2], "abs_H_max": env[3],
            "required": "1.7 <= d1 <= 2.3, |d2| <= 0.019, |H| <= 0.5"}}));
}

// ------------------------------------------------------------------------------------ C02
fn c02_one(ctx: &mut Ctx, c: &DayCase, r: &mut Rng) {
    ctx.eval();
    let h = match raw(c) {
        Some(h) => h,
        None => {
            ctx.fail(c.to_json(), "panic".into(), "hours".into());
            return;
        }
    };
    let dhuhr = h[2].unwrap_or(12.);
    if !reported_is_computed(ctx, c, &h, &[(1, Prayer::Shurooq), (4, Prayer::Maghrib)]) {
        return;
    }
    for (idx, name, sign) in [(1usize, "Shurooq", -1.), (4usize, "Maghrib", 1.)] {
        if let Ok(t) = h[idx] {
            let o = off(t, dhuhr);
            // the reported clock time is an instant of the requested civil date (rise/set are solved for a
            // day fraction in [0,1) of that date); the before/after-noon clause is read modulo 24 h (DESIGN §9.6)
            // `t` is the unwrapped hour count from local midnight of the requested date (it can fall a
            // few seconds outside [0, 24) when the Newton correction crosses the midnight seam): that is
            // the instant the library solved for
            // (more than three minutes outside [0, 24) is not that seam: then the reported clock time is an
            // instant of the requested date, whatever day the library solved for)
            let t_eval = if (-0.05..=24.05).contains(&t) { t } else { t.rem_euclid(24.) };
            let (_, alt, _) = hour_angle_alt(jd_of(c, t_eval), lat(c), lon(c));
            ctx.nontrivial(&format!("{}|{}|{:.0}", name, c.rd, lat(c)));
            if (alt + 0.833).abs() > 0.05 {
                ctx.fail(c.to_json(), format!("{} at {}: oracle altitude {:.4} deg", name, hms((t.rem_euclid(24.) * 3600.) as i64), alt), "-0.833 +- 0.05 deg".into());
                return;
            }
            if o * sign <= 0. {
                ctx.fail(c.to_json(), format!("{} is {:+.3} h from Dhuhr", name, o), "Shurooq before and Maghrib after noon".into());
                return;
            }
        }
    }
    // weather moves Shurooq/Maghrib by seconds only and nothing else
    let w2 = Some(weather(r.range(100., 1050.), r.range(-90., 57.)));
    let c2 = DayCase { w: w2, ..c.clone() };
    if let Some(h2) = raw(&c2) {
        for k in [0usize, 2, 3, 5] {
            if h[k].map(f64::to_bits) != h2[k].map(f64::to_bits) {
                ctx.fail(c2.to_json(), format!("{:?} changed with weather", vh::HOUR_ORDER[k]), "weather moves only Shurooq/Maghrib".into());
                return;
            }
        }
        for k in [1usize, 4] {
            match (h[k], h2[k]) {
                (Ok(a), Ok(b)) => {
                    if ((a - b) * 3600.).abs() >= 60. {
                        ctx.fail(c2.to_json(), format!("{:?} moved {:.1} s with weather", vh::HOUR_ORDER[k], (a - b) * 3600.), "seconds only (< 60 s)".into());
                        return;
                    }
                }
                (Err(()), Err(())) => {}
                _ => {
                    ctx.fail(c2.to_json(), "validity changed with weather".into(), "unchanged".into());
                    return;
                }
            }
        }
    }
    // absent weather = default weather
    let cd = DayCase { w: Some(Weather::default()), ..c.clone() };
    let cn = DayCase { w: None, ..c.clone() };
    if cd.run() != cn.run() {
        ctx.fail(c.to_json(), "absent weather differs from default weather".into(), "equal".into());
    }
}

pub fn c02(ctx: &mut Ctx, tier: &str, r: &mut Rng, js: &[Value], reqs: &[String], replay_only: bool) {
    for c in cases_from(js, reqs) {
        if lat(&c).abs() <= 60. {
            c02_one(ctx, &c.with(|p| p.round_seconds = RoundSeconds::None), r);
        }
    }
    if replay_only {
        ctx.finish(json!({}));
        return;
    }
    let n = sz!(tier, 4000, 200000);
    for i in 0..n {
        let mut c = plain(r.pick(&METHODS).0, gen_location(r, 60., 6.), boundary_rd(r));
        c.w = gen_weather(r);
        if i == 0 {
            ctx.sample(c.to_json());
        }
        c02_one(ctx, &c, r);
    }
    ctx.finish(json!({}));
}

// ------------------------------------------------------------------------------------ C03
fn c03_one(ctx: &mut Ctx, c: &DayCase) {
    ctx.eval();
    let h = match raw(c) {
        Some(h) => h,
        None => {
            ctx.fail(c.to_json(), "panic".into(), "hours".into());
            return;
        }
    };
    let dhuhr = h[2].unwrap_or(12.).rem_euclid(24.); // the reported clock time of the requested date
    if !reported_is_computed(ctx, c, &h, &[(0, Prayer::Fajr), (5, Prayer::Isha)]) {
        return;
    }
    let dd = dec_of_date(c);
    let af = c.p.angles[&Prayer::Fajr];
    let ai = c.p.angles[&Prayer::Isha];
    let aim = c.p.angles[&Prayer::Imsaak];
    let mut check = |ctx: &mut Ctx, name: &str, t: f64, angle: f64, before: bool| -> bool {
        let o = off(t, dhuhr);
        if (before && o >= 0.) || (!before && o <= 0.) {
            ctx.fail(c.to_json(), format!("{} is {:+.3} h from Dhuhr", name, o), "before resp. after noon".into());
            return false;
        }
        let a1 = alt_at(lat(c), dd, o * 15.);
        if (a1 + angle).abs() > 0.03 {
            ctx.fail(c.to_json(), format!("{}: altitude {:.4} deg under the date's declination {:.4}", name, a1, dd), format!("{:.2} +- 0.03 deg", -angle));
            return false;
        }
        let (_, a2, _) = hour_angle_alt(jd_of(c, dhuhr + o), lat(c), lon(c));
        if (a2 + angle).abs() > 0.5 {
            ctx.fail(c.to_json(), format!("{}: instantaneous altitude {:.4} deg", name, a2), format!("{:.2} +- 0.5 deg", -angle));
            return false;
        }
        true
    };
    if let Ok(t) = h[0] {
        ctx.nontrivial(&format!("F|{}|{:.0}|{:.1}", c.rd, lat(c), af));
        if !check(ctx, "Fajr", t, af, true) {
            return;
        }
    }
    if let Ok(t) = h[5] {
        if !check(ctx, "Isha", t, ai, false) {
            return;
        }
    }
    // Imsaak = Fajr at (Fajr angle + Imsaak angle): through the public API, compared with a Fajr computed at the sum
    let day = c.run();
    let csum = c.with(|p| *p.angles.get_mut(&Prayer::Fajr).unwrap() = af + aim);
    if let (Ok(d), Some(hs)) = (day, raw(&csum)) {
        match (d[&Prayer::Imsaak], hs[0]) {
            (Ok(im), Ok(fs)) => {
                let want = (fs.rem_euclid(24.) * 3600.).floor() as i64;
                if (secs(&im) - want).abs() > 1 {
                    ctx.fail(c.to_json(), format!("Imsaak {} vs Fajr at {}+{} deg = {}", hms(secs(&im)), af, aim, hms(want)), "Imsaak is Fajr at the sum angle".into());
                    return;
                }
                let _ = check(ctx, "Imsaak", fs, af + aim, true);
            }
            (Err(()), Err(())) => {}
            (a, b) => {
                ctx.fail(c.to_json(), format!("Imsaak {:?} vs Fajr at the sum angle {:?}", a.map(|x| secs(&x)), b), "same validity".into());
                return;
            }
        }
    }
    // the same clause under replacing policies: an Imsaak that is not flagged extreme is reported "by
    // conventional angle-based calculation" whatever the policy did to other prayers, so it is the
    // Fajr at the sum angle (library default policy + one more, chosen by the date)
    if let Some(hs) = raw(&csum) {
        let other = [1usize, 4, 8, 10, 12, 14][c.rd.rem_euclid(6) as usize];
        for idx in [6usize, other] {
            let cp = c.with(|p| p.extreme_latitude_method = policy(idx, 48.5));
            if let Ok(d) = cp.run() {
                if let Ok(im) = d[&Prayer::Imsaak] {
                    if !im.extreme {
                        ctx.nontrivial(&format!("IP|{}|{}|{:.0}", idx, c.rd, lat(c)));
                        match hs[0] {
                            Ok(fs) => {
                                let want = (fs.rem_euclid(24.) * 3600.).floor() as i64;
                                if (secs(&im) - want).abs() > 1 {
                                    ctx.fail(cp.to_json(), format!("Imsaak {} (not flagged extreme) vs Fajr at {}+{} deg = {}", hms(secs(&im)), af, aim, hms(want)), "a conventional Imsaak is Fajr at the sum angle under every policy".into());
                                    return;
                                }
                            }
                            Err(()) => {
                                ctx.fail(cp.to_json(), format!("Imsaak {} not flagged extreme, but the Sun does not reach {}+{} deg", hms(secs(&im)), af, aim), "flagged extreme or invalid".into());
                                return;
                            }
                        }
                    }
                }
            }
        }
    }
    // monotonicity: a larger angle never gives a later Fajr/Imsaak or an earlier Isha
    let c2 = c.with(|p| {
        *p.angles.get_mut(&Prayer::Fajr).unwrap() = af + 0.7;
        *p.angles.get_mut(&Prayer::Isha).unwrap() = ai + 0.7;
    });
    if let Some(h2) = raw(&c2) {
        if let (Ok(a), Ok(b)) = (h[0], h2[0]) {
            if off(b, dhuhr) > off(a, dhuhr) {
                ctx.fail(c2.to_json(), format!("Fajr at {} deg later than at {} deg", af + 0.7, af), "monotone".into());
                return;
            }
        }
        if let (Ok(a), Ok(b)) = (h[5], h2[5]) {
            if off(b, dhuhr) < off(a, dhuhr) {
                ctx.fail(c2.to_json(), format!("Isha at {} deg earlier than at {} deg", ai + 0.7, ai), "monotone".into());
            }
        }
    }
}

pub fn c03(ctx: &mut Ctx, tier: &str, r: &mut Rng, js: &[Value], reqs: &[String], replay_only: bool) {
    ctx.shrinker = Some(c03_one);
    for c in cases_from(js, reqs) {
        if lat(&c).abs() <= 60. && c.p.intervals[&Prayer::Fajr] == 0. && c.p.intervals[&Prayer::Isha] == 0. && c.p.intervals[&Prayer::Imsaak] == 0. {
            let c2 = c.with(|p| {
                p.round_seconds = RoundSeconds::None;
                p.extreme_latitude_method = ExtremeLatitudeMethod::None;
                for q in PRAYERS {
                    *p.minutes.get_mut(&q).unwrap() = 0.;
                }
            });
            if (9. ..=21.).contains(&c2.p.angles[&Prayer::Fajr]) && (9. ..=21.).contains(&c2.p.angles[&Prayer::Isha]) {
                c03_one(ctx, &c2);
            }
        }
    }
    if replay_only {
        ctx.finish(json!({}));
        return;
    }
    let n = sz!(tier, 3000, 150000);
    for i in 0..n {
        let mut c = plain(r.pick(&ANGLE_METHODS), gen_location(r, 60., 6.), boundary_rd(r));
        if i % 2 == 0 {
            *c.p.angles.get_mut(&Prayer::Fajr).unwrap() = r.range(9., 21.);
            *c.p.angles.get_mut(&Prayer::Isha).unwrap() = r.range(9., 21.);
            *c.p.angles.get_mut(&Prayer::Imsaak).unwrap() = r.range(0.5, 3.);
        }
        if i == 0 {
            ctx.sample(c.to_json());
        }
        c03_one(ctx, &c);
    }
    ctx.finish(json!({}));
}

// ------------------------------------------------------------------------------------ C04
fn c04_one(ctx: &mut Ctx, c: &DayCase) {
    ctx.eval();
    let cs = c.with(|p| p.asr_shadow_ratio = AsrShadowRatio::Shafi);
    let ch = c.with(|p| p.asr_shadow_ratio = AsrShadowRatio::Hanafi);
    let (hs, hh) = match (raw(&cs), raw(&ch)) {
        (Some(a), Some(b)) => (a, b),
        _ => {
            ctx.fail(c.to_json(), "panic".into(), "hours".into());
            return;
        }
    };
    let dhuhr = hs[2].unwrap_or(12.);
    if !reported_is_computed(ctx, &cs, &hs, &[(3, Prayer::Asr)]) || !reported_is_computed(ctx, &ch, &hh, &[(3, Prayer::Asr)]) {
        return;
    }
    let dd = dec_of_date(c);
    for (k, h, cc) in [(1., &hs, &cs), (2., &hh, &ch)] {
        if let Ok(t) = h[3] {
            let o = off(t, dhuhr);
            let a = alt_at(lat(c), dd, o * 15.);
            let want = (1. / (k + ((lat(c) - dd).abs() * D2R).tan())).atan() * R2D;
            ctx.nontrivial(&format!("{}|{}|{:.0}", k, c.rd, lat(c)));
            if (a - want).abs() > 0.03 {
                ctx.fail(cc.to_json(), format!("Asr (k={}) altitude {:.4} deg", k, a), format!("arccot(k + tan|lat-dec|) = {:.4} +- 0.03", want));
                return;
            }
            if o <= 0. {
                ctx.fail(cc.to_json(), format!("Asr {:+.4} h from Dhuhr", o), "strictly after Dhuhr".into());
                return;
            }
            if let Ok(m) = h[4] {
                if off(m, dhuhr) <= o {
                    ctx.fail(cc.to_json(), format!("Asr {:+.4} h, Maghrib {:+.4} h from Dhuhr", o, off(m, dhuhr)), "strictly before Maghrib".into());
                    return;
                }
            }
        } else {
            ctx.fail(cc.to_json(), "Asr invalid".into(), "Asr exists for |lat| <= 60".into());
            return;
        }
    }
    if let (Ok(a), Ok(b)) = (hs[3], hh[3]) {
        if off(b, dhuhr) <= off(a, dhuhr) {
            ctx.fail(c.to_json(), format!("Hanafi {:+.5} h, Shafi {:+.5} h", off(b, dhuhr), off(a, dhuhr)), "Hanafi strictly later".into());
        }
    }
}

pub fn c04(ctx: &mut Ctx, tier: &str, r: &mut Rng, js: &[Value], reqs: &[String], replay_only: bool) {
    ctx.shrinker = Some(c04_one);
    for c in cases_from(js, reqs) {
        if lat(&c).abs() <= 60. {
            c04_one(ctx, &plain(Method::Isna, c.l, c.rd));
        }
    }
    if replay_only {
        ctx.finish(json!({}));
        return;
    }
    let n = sz!(tier, 3000, 150000);
    for i in 0..n {
        let mut l = gen_location(r, 60., 6.);
        let rd = boundary_rd(r);
        if i % 4 == 0 {
            // the Sun passes the zenith: lat = dec +- epsilon
            let d = sun(jd0_of_rd(rd) + 0.5).dec;
            let eps = r.pick(&[0., 1e-9, -1e-9, 1e-4, -1e-4, 0.01]);
            l.coords.latitude = Latitude::try_from(d + eps).unwrap();
        }
        let c = plain(Method::Isna, l, rd);
        if i == 0 {
            ctx.sample(c.to_json());
        }
        c04_one(ctx, &c);
    }
    ctx.finish(json!({}));
}

// ------------------------------------------------------------------------------------ C05
fn c05_one(ctx: &mut Ctx, c: &DayCase) {
    ctx.eval();
    let d = match c.run() {
        Ok(d) => d,
        Err(()) => {
            ctx.fail(c.to_json(), "panic".into(), "seven entries".into());
            return;
        }
    };
    if d.len() != 7 || !PRAYERS.iter().all(|p| d.contains_key(p)) {
        ctx.fail(c.to_json(), format!("{} entries", d.len()), "exactly seven entries".into());
        return;
    }
    // the ordering and flag clauses: the property's quantifier (also what keeps the shrinker inside it): |lat| <= 60, a named method's
    // configuration or custom angles in [9, 21], no policy or the library default
    let conv = matches!(c.p.extreme_latitude_method, ExtremeLatitudeMethod::None | ExtremeLatitudeMethod::NearestGoodDayFajrIshaInvalid);
    if !(lat(c).abs() <= 60. && named_like(c, true) && conv) {
        ctx.branch("input-outside-quantifier");
        return;
    }
    if matches!(c.p.extreme_latitude_method, ExtremeLatitudeMethod::None) && d.values().any(|x| x.map(|t| t.extreme).unwrap_or(false)) {
        ctx.fail(c.to_json(), show_day(&d), "nothing flagged extreme without a policy".into());
        return;
    }
    let dh = match d[&Prayer::Dhuhr] {
        Ok(t) => secs(&t),
        Err(()) => {
            ctx.fail(c.to_json(), "Dhuhr invalid".into(), "Dhuhr".into());
            return;
        }
    };
    // signed offsets from Dhuhr in seconds, into (-12h, 12h]; conventional entries only
    let mut seq: Vec<(Prayer, i64)> = vec![];
    for p in PRAYERS {
        if let Ok(t) = d[&p] {
            if !t.extreme {
                // within 12 hours of Dhuhr, both ends allowed: a time exactly 12 h away (rounding can
                // produce it) counts as before Dhuhr for Imsaak/Fajr/Shurooq and after it for the others
                let mut o = (secs(&t) - dh).rem_euclid(86400);
                let before = matches!(p, Prayer::Imsaak | Prayer::Fajr | Prayer::Shurooq);
                if o > 43200 || (o == 43200 && before) {
                    o -= 86400;
                }
                seq.push((p, o));
            }
        }
    }
    ctx.nontrivial(&format!("{}|{:.0}|{}", c.rd, lat(c), round_tok(c.p.round_seconds)));
    let rounded = c.p.round_seconds != RoundSeconds::None;
    for w in seq.windows(2) {
        let ((p1, o1), (p2, o2)) = (w[0], w[1]);
        // Imsaak <= Fajr; all others strict (rounding to the minute can make neighbours equal only if < 1 min apart)
        let ok = if p1 == Prayer::Imsaak { o1 <= o2 } else if rounded { o1 <= o2 } else { o1 < o2 };
        if !ok {
            ctx.fail(c.to_json(), format!("{:?} {:+} s, {:?} {:+} s from Dhuhr: {}", p1, o1, p2, o2, show_day(&d)), "Imsaak <= Fajr < Shurooq < Dhuhr < Asr < Maghrib < Isha".into());
            return;
        }
    }
}

pub fn c05(ctx: &mut Ctx, tier: &str, r: &mut Rng, js: &[Value], reqs: &[String], replay_only: bool) {
    ctx.shrinker = Some(c05_one);
    for c in cases_from(js, reqs) {
        c05_one(ctx, &c);
    }
    if replay_only {
        ctx.finish(json!({}));
        return;
    }
    let n = sz!(tier, 5000, 200000);
    for i in 0..n {
        let mut c = plain(r.pick(&NAMED8), gen_location(r, 60., 6.), boundary_rd(r));
        c.p.round_seconds = r.pick(&ROUNDS);
        if i % 3 == 0 && c.p.intervals[&Prayer::Isha] == 0. {
            *c.p.angles.get_mut(&Prayer::Fajr).unwrap() = r.range(9., 21.);
            *c.p.angles.get_mut(&Prayer::Isha).unwrap() = r.range(9., 21.);
        }
        if i % 4 == 0 {
            c.p.extreme_latitude_method = ExtremeLatitudeMethod::NearestGoodDayFajrIshaInvalid; // the library default
        }
        if i == 0 {
            ctx.sample(c.to_json());
        }
        c05_one(ctx, &c);
    }
    ctx.finish(json!({}));
}

// ------------------------------------------------------------------------------------ C06
fn c06_one(ctx: &mut Ctx, c: &DayCase) {
    ctx.eval();
    let h = match raw(c) {
        Some(h) => h,
        None => {
            ctx.fail(c.to_json(), "panic".into(), "hours".into());
            return;
        }
    };
    let day = match c.run() {
        Ok(d) => d,
        Err(()) => {
            ctx.fail(c.to_json(), "panic".into(), "a result".into());
            return;
        }
    };
    let dd = dec_of_date(c);
    let hmax = 90. - (lat(c) - dd).abs();
    let hmin = -90. + (lat(c) + dd).abs();
    let k = c.p.asr_shadow_ratio as u8 as f64;
    let asr_alt = (1. / (k + ((lat(c) - dd).abs() * D2R).tan())).atan() * R2D;
    let targets = [
        (Prayer::Fajr, 0usize, -c.p.angles[&Prayer::Fajr]),
        (Prayer::Shurooq, 1, -0.8333),
        (Prayer::Asr, 3, asr_alt),
        (Prayer::Maghrib, 4, -0.8333),
        (Prayer::Isha, 5, -c.p.angles[&Prayer::Isha]),
    ];
    for (pr, idx, target) in targets {
        if (target - hmax).abs() < 0.05 || (target - hmin).abs() < 0.05 {
            ctx.branch("exempt-knife-edge");
            continue;
        }
        let occurs = hmin <= target && target <= hmax;
        ctx.branch(if occurs { "occurs" } else { "does-not-occur" });
        if !occurs {
            ctx.nontrivial(&format!("{:?}|{}|{:.0}", pr, c.rd, lat(c)));
        }
        let valid_raw = h[idx].is_ok();
        let valid_api = day[&pr].is_ok();
        if valid_raw != occurs || valid_api != occurs {
            ctx.fail(
                c.to_json(),
                format!("{:?} valid={} (api {}), Sun's altitude range that day [{:.3}, {:.3}] deg, defining altitude {:.3}", pr, valid_raw, valid_api, hmin, hmax, target),
                "Invalid iff the Sun never reaches the defining altitude".into(),
            );
            return;
        }
    }
}

/// the same date and meridian at the latitudes where an event starts or stops existing: just outside
/// the exempt band on either side of each existence boundary (the property is a statement about
/// exactly these places; uniform sampling of latitudes rarely lands within a third of a degree of one)
fn c06_edges(ctx: &mut Ctx, c: &DayCase) {
    let dd = dec_of_date(c);
    let targets = [-c.p.angles[&Prayer::Fajr], -0.8333, -c.p.angles[&Prayer::Isha]];
    for t in targets {
        let edges = [(90. + t) - dd, -(90. + t) - dd, dd + (90. - t), dd - (90. - t)];
        for b in edges {
            for off in [-0.35, -0.2, -0.1, -0.06, 0.06, 0.1, 0.2, 0.35] {
                let la: f64 = b + off;
                if la.abs() > 89.5 || ctx.fails > 0 {
                    continue;
                }
                ctx.branch("edge-probe");
                let mut e = c.clone();
                e.l.coords.latitude = Latitude::try_from(la).unwrap();
                c06_one(ctx, &e);
            }
        }
    }
}

pub fn c06(ctx: &mut Ctx, tier: &str, r: &mut Rng, js: &[Value], reqs: &[String], replay_only: bool) {
    ctx.shrinker = Some(c06_one);
    let mut probed = 0;
    for c in cases_from(js, reqs) {
        if lat(&c).abs() <= 89.5 && c.p.intervals[&Prayer::Fajr] == 0. && c.p.intervals[&Prayer::Isha] == 0. {
            let c = c.with(|p| p.extreme_latitude_method = ExtremeLatitudeMethod::None);
            c06_one(ctx, &c);
            if !replay_only && probed < 60 {
                probed += 1;
                c06_edges(ctx, &c);
            }
        }
    }
    if replay_only {
        ctx.finish(json!({}));
        return;
    }
    let n = sz!(tier, 5000, 200000);
    for i in 0..n {
        let mut l = gen_location(r, 89.5, 6.);
        if i % 2 == 0 {
            let la = r.range(45., 89.5) * if r.chance(0.5) { 1. } else { -1. };
            l.coords.latitude = Latitude::try_from(la).unwrap();
        }
        let c = plain(r.pick(&ANGLE_METHODS), l, boundary_rd(r));
        if i == 0 {
            ctx.sample(c.to_json());
        }
        c06_one(ctx, &c);
        if i % 50 == 7 {
            c06_edges(ctx, &c);
        }
    }
    ctx.finish(json!({}));
}

// ------------------------------------------------------------------------------------ C13
fn c13_one(ctx: &mut Ctx, c: &DayCase) {
    ctx.eval();
    let days: Vec<_> = (-1..=1).map(|k| raw(&DayCase { rd: c.rd + k, ..c.clone() })).collect();
    if days.iter().any(|d| d.is_none()) {
        ctx.fail(c.to_json(), "panic".into(), "hours".into());
        return;
    }
    let d: Vec<_> = days.into_iter().map(|x| x.unwrap()).collect();
    let la = lat(c).abs();
    ctx.nontrivial(&format!("{}|{:.0}|{:.0}", c.rd, lat(c), lon(c)));
    // the differences below are taken on the computed hours; the reported times are those hours
    if !reported_is_computed(ctx, c, &d[1], &[(0, Prayer::Fajr), (1, Prayer::Shurooq), (2, Prayer::Dhuhr), (3, Prayer::Asr), (4, Prayer::Maghrib), (5, Prayer::Isha)]) {
        return;
    }
    for (idx, pr) in vh::HOUR_ORDER.iter().enumerate() {
        let limit = match pr {
            Prayer::Dhuhr => 5.,
            Prayer::Shurooq | Prayer::Maghrib => 8.,
            Prayer::Asr => {
                if la < 25. {
                    continue;
                }
                8.
            }
            _ => {
                if la > 40. {
                    continue;
                }
                12.
            }
        };
        if let (Ok(a), Ok(b), Ok(cc)) = (d[0][idx], d[1][idx], d[2][idx]) {
            let d1 = off(b, a) * 3600.;
            let d2 = off(cc, b) * 3600.;
            let second = (d2 - d1).abs();
            if second > limit {
                ctx.fail(c.to_json(), format!("{:?}: day-to-day changes {:+.1} s then {:+.1} s (second difference {:.1} s)", pr, d1, d2, second), format!("second difference <= {} s", limit));
                return;
            }
            if d1.abs() >= 240. || d2.abs() >= 240. {
                ctx.fail(c.to_json(), format!("{:?}: day-to-day change {:+.1} s / {:+.1} s", pr, d1, d2), "below 4 minutes".into());
                return;
            }
        }
    }
}

pub fn c13(ctx: &mut Ctx, tier: &str, r: &mut Rng, js: &[Value], reqs: &[String], replay_only: bool) {
    ctx.shrinker = Some(c13_one);
    for c in cases_from(js, reqs) {
        if lat(&c).abs() <= 45. && (gmt(&c) - lon(&c) / 15.).abs() <= 4. && c.rd > rd_of(1600, 1, 1) && c.rd < rd_of(2399, 12, 31) {
            c13_one(ctx, &plain(Method::Mwl, c.l, c.rd));
        }
    }
    if replay_only {
        ctx.finish(json!({}));
        return;
    }
    let n = sz!(tier, 5000, 200000);
    for i in 0..n {
        let l = gen_location(r, 45., 4.);
        let mut rd = boundary_rd(r).clamp(rd_of(1600, 1, 2), rd_of(2399, 12, 30));
        if i % 4 == 0 {
            rd = rd_of(r.int(1600, 2399) as i32, 3, 17) + r.int(0, 8);
        }
        let c = plain(r.pick(&ANGLE_METHODS), l, rd);
        if i == 0 {
            ctx.sample(c.to_json());
        }
        c13_one(ctx, &c);
    }
    ctx.finish(json!({}));
}

// ------------------------------------------------------------------------------------ C20
/// replayable input of a C20 pair: the base configuration, the shift and which of the two moves failed
fn pair_input(a: &DayCase, shift_h: f64, what: &str) -> Value {
    let mut v = a.to_json();
    v["shift_h"] = json!(shift_h);
    v["pair"] = json!(what);
    v
}

fn c20_pair(ctx: &mut Ctx, a: &DayCase, b: &DayCase, shift_h: f64, what: &str) {
    ctx.eval();
    let (da, db) = match (a.run(), b.run()) {
        (Ok(x), Ok(y)) => (x, y),
        _ => {
            ctx.fail(a.to_json(), "panic".into(), "results".into());
            return;
        }
    };
    ctx.nontrivial(&format!("{}|{}|{:.2}|{:.0}", what, a.rd, shift_h, lon(a)));
    for p in PRAYERS {
        match (da[&p], db[&p]) {
            (Ok(x), Ok(y)) => {
                let want = secs(&x) as f64 + shift_h * 3600.;
                let mut diff = (secs(&y) as f64 - want).rem_euclid(86400.);
                if diff > 43200. {
                    diff -= 86400.;
                }
                if diff.abs() > 11. {
                    // 10 s plus one second of truncation on each side
                    ctx.fail(
                        pair_input(a, shift_h, what),
                        format!("{}: {:?} {} -> {} (expected shift {:+.2} h, off by {:+.0} s)", what, p, hms(secs(&x)), hms(secs(&y)), shift_h, diff),
                        "within 10 s".into(),
                    );
                    return;
                }
                if x.extreme != y.extreme {
                    ctx.fail(pair_input(a, shift_h, what), format!("{:?} extreme flag changed", p), "unchanged".into());
                    return;
                }
            }
            (Err(()), Err(())) => {}
            _ => {
                ctx.fail(pair_input(a, shift_h, what), format!("{}: validity of {:?} changed", what, p), "validity unchanged".into());
                return;
            }
        }
    }
}

pub fn c20(ctx: &mut Ctx, tier: &str, r: &mut Rng, js: &[Value], reqs: &[String], replay_only: bool) {
    let mut pairs = |ctx: &mut Ctx, c: &DayCase, d: f64| {
        // (1) only the GMT offset changes by d hours
        let g2 = gmt(c) + d;
        if (-12. ..=12.).contains(&g2) {
            let mut b = c.clone();
            b.l.gmt = Gmt::try_from(g2).unwrap();
            c20_pair(ctx, c, &b, d, "gmt shift");
        }
        // (2) 15 degrees east and one more hour of offset: clock times unchanged
        let (lo2, g3) = (lon(c) + 15., gmt(c) + 1.);
        if lo2 <= 180. && g3 <= 12. {
            let mut b = c.clone();
            b.l.coords.longitude = Longitude::try_from(lo2).unwrap();
            b.l.gmt = Gmt::try_from(g3).unwrap();
            c20_pair(ctx, c, &b, 0., "15 deg east + 1 h");
        }
    };
    let shifts: Vec<f64> = js.iter().map(|v| v.get("shift_h").and_then(|x| x.as_f64()).unwrap_or(1.)).collect();
    for (ci, c) in cases_from(js, reqs).into_iter().enumerate() {
        let d_replay = shifts.get(ci).copied().unwrap_or(1.);
        // inside the quantifier: a named method's configuration, conventional times (policy None or the
        // library default; a substitute latitude or a neighbouring good day is another place or date)
        let conv = matches!(c.p.extreme_latitude_method, ExtremeLatitudeMethod::None | ExtremeLatitudeMethod::NearestGoodDayFajrIshaInvalid);
        if lat(&c).abs() <= 45. && (gmt(&c) - lon(&c) / 15.).abs() <= 3. && conv && named_like(&c, true) {
            let c2 = c.with(|p| p.round_seconds = RoundSeconds::None);
            pairs(ctx, &c2, d_replay);
        } else {
            ctx.branch("handed-over-input-outside-quantifier");
        }
    }
    if replay_only {
        ctx.finish(json!({}));
        return;
    }
    let n = sz!(tier, 2500, 100000);
    for i in 0..n {
        // both configurations of a pair stay within 4 h of the meridian's own zone (DESIGN §14.3.8)
        let c = plain(r.pick(&METHODS).0, gen_location(r, 45., 3.), boundary_rd(r));
        let d = r.pick(&[1., -1., 0.5, -0.5, 0.25]);
        if i == 0 {
            ctx.sample(c.to_json());
        }
        pairs(ctx, &c, d);
    }
    ctx.finish(json!({}));
}
