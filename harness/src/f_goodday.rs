//! C09: nearest-good-day fallback finds the closest date with valid twilight.
use crate::f_policy::*;
use crate::falsify::*;
use crate::gen::*;
use crate::rng::Rng;
use crate::units::gen_location;
use islamic_prayer_times::verif_hooks as vh;
use islamic_prayer_times::*;
use serde_json::{json, Value};

const SIX: [Prayer; 6] = [Prayer::Fajr, Prayer::Shurooq, Prayer::Dhuhr, Prayer::Asr, Prayer::Maghrib, Prayer::Isha];

/// is the raw hour of `pr` on day `rd` within 1 ms of a second boundary (DESIGN §9.5)
fn near_second_edge(c: &DayCase, rd: i64, pr: Prayer) -> bool {
    let idx = vh::HOUR_ORDER.iter().position(|p| *p == pr).unwrap();
    let raw = vh::raw_hours(&c.p, c.l, date_of_rd(rd), c.w.unwrap_or_default());
    match raw[idx] {
        Ok(h) => {
            let s = (h * 3600.).rem_euclid(1.);
            s < 0.001 || s > 0.999
        }
        Err(()) => true,
    }
}

fn one(ctx: &mut Ctx, c: &DayCase) {
    // the property's quantifier (this also keeps the shrinker inside it: with the policy removed a missing
    // twilight simply stays missing, which is not a failure of the nearest-good-day policies)
    if !(matches!(c.p.extreme_latitude_method, ExtremeLatitudeMethod::NearestGoodDayAllPrayersAlways | ExtremeLatitudeMethod::NearestGoodDayFajrIshaInvalid)
        && f64::from(c.l.coords.latitude).abs() <= 64.
        && named_like(c, false))
    {
        ctx.branch("input-outside-quantifier");
        return;
    }
    ctx.eval();
    let all = matches!(c.p.extreme_latitude_method, ExtremeLatitudeMethod::NearestGoodDayAllPrayersAlways);
    let none = |rd: i64| {
        let mut q = c.with(|p| p.extreme_latitude_method = ExtremeLatitudeMethod::None);
        q.rd = rd;
        q.run()
    };
    let (res, conv) = match (c.run(), none(c.rd)) {
        (Ok(a), Ok(b)) => (a, b),
        _ => {
            ctx.fail(c.to_json(), "panic".into(), "results".into());
            return;
        }
    };
    let missing = conv[&Prayer::Fajr].is_err() || conv[&Prayer::Isha].is_err();
    if !missing && !all {
        ctx.branch("nothing-missing");
        // the six hours only: Imsaak is recomputed with its own (larger) angle and is not C09's subject
        if SIX.iter().any(|q| res[q] != conv[q]) {
            ctx.fail(c.to_json(), format!("P: {} | None: {}", show_day(&res), show_day(&conv)), "identity when both twilights exist".into());
        }
        return;
    }
    // closest date (earlier on ties) on which both twilights exist conventionally
    let mut found: Option<(i64, Day)> = None;
    for i in 0..=366i64 {
        for rd in [c.rd - i, c.rd + i] {
            if found.is_none() {
                if let Ok(d) = none(rd) {
                    if d[&Prayer::Fajr].is_ok() && d[&Prayer::Isha].is_ok() {
                        found = Some((rd, d));
                    }
                }
            }
        }
        if found.is_some() {
            break;
        }
    }
    let (grd, good) = match found {
        Some(x) => x,
        None => {
            ctx.fail(c.to_json(), "no good day within 366 days".into(), "a good day exists within the year for |lat| <= 64".into());
            return;
        }
    };
    let dist = (grd - c.rd).abs();
    ctx.branch(if grd < c.rd { "earlier-day" } else if grd > c.rd { "later-day" } else { "same-day" });
    ctx.nontrivial(&format!("{}|{}|{}", all, dist, c.rd % 50));
    let targets: Vec<Prayer> = if all {
        SIX.to_vec()
    } else {
        [Prayer::Fajr, Prayer::Isha].iter().copied().filter(|q| conv[q].is_err()).collect()
    };
    for q in targets {
        let want = good[&q];
        match (res[&q], want) {
            (Ok(a), Ok(b)) => {
                if !a.extreme {
                    ctx.fail(c.to_json(), format!("{:?} not flagged extreme: {}", q, show_day(&res)), "replaced time flagged extreme".into());
                    return;
                }
                if a.time != b.time && !(secs(&a) - secs(&b)).abs().min(86400 - (secs(&a) - secs(&b)).abs()) <= 1 && true {
                    // fallthrough to the strict check below
                }
                if a.time != b.time {
                    let off = (secs(&a) - secs(&b)).rem_euclid(86400);
                    let one_sec = off == 1 || off == 86399;
                    if !(one_sec && near_second_edge(c, grd, q)) {
                        ctx.fail(
                            c.to_json(),
                            format!("{:?} = {} ; conventional {:?} of {} (closest good day, {} days away) = {}", q, hms(secs(&a)), q, ymd(grd), dist, hms(secs(&b))),
                            "equal to the second".into(),
                        );
                        return;
                    }
                }
            }
            (Err(()), Ok(_)) => {
                ctx.fail(c.to_json(), format!("{:?} invalid: {}", q, show_day(&res)), format!("reported from {} ({} days away)", ymd(grd), dist));
                return;
            }
            (_, Err(())) => {
                // the found day lacks this one of the six (all-prayers variant): must be invalid too
                if res[&q].is_ok() {
                    ctx.fail(c.to_json(), format!("{:?} fabricated", q), "invalid as on the found day".into());
                    return;
                }
            }
        }
    }
    if !all {
        // the others are the conventional ones
        for q in SIX {
            if conv[&q].is_ok() && res[&q] != conv[&q] {
                ctx.fail(c.to_json(), format!("{:?} changed: P: {} | None: {}", q, show_day(&res), show_day(&conv)), "existing times untouched".into());
                return;
            }
        }
    }
}

pub fn c09(ctx: &mut Ctx, tier: &str, r: &mut Rng, js: &[Value], reqs: &[String], replay_only: bool) {
    ctx.shrinker = Some(one);
    for c in cases_from(js, reqs) {
        if matches!(c.p.extreme_latitude_method, ExtremeLatitudeMethod::NearestGoodDayAllPrayersAlways | ExtremeLatitudeMethod::NearestGoodDayFajrIshaInvalid)
            && f64::from(c.l.coords.latitude).abs() <= 64.
            && named_like(&c, false)
        {
            let c2 = c.with(|p| p.round_seconds = RoundSeconds::None);
            one(ctx, &c2);
        }
    }
    if replay_only {
        ctx.finish(json!({}));
        return;
    }
    let n = sz!(tier, 260, 6000);
    let angle_methods = [Method::Egyptian, Method::Egypt, Method::Shafi, Method::Hanafi, Method::Isna, Method::Mwl];
    for i in 0..n {
        let mut p = Params::new(r.pick(&angle_methods));
        p.round_seconds = RoundSeconds::None;
        p.extreme_latitude_method = if i % 3 == 0 { ExtremeLatitudeMethod::NearestGoodDayAllPrayersAlways } else { ExtremeLatitudeMethod::NearestGoodDayFajrIshaInvalid };
        let mut l = gen_location(r, 64., 6.);
        // most cases where twilight disappears: 48..64 degrees, either hemisphere
        if r.chance(0.85) {
            let lat = r.range(48., 64.) * if r.chance(0.5) { 1. } else { -1. };
            l.coords.latitude = Latitude::try_from(lat).unwrap();
        }
        let y = r.int(1600, 2399) as i32;
        let north = f64::from(l.coords.latitude) >= 0.;
        // every day of the year is sampled, weighted towards the local summer (incl. Jan/Dec in the south)
        let rd = if r.chance(0.7) {
            (rd_of(y, if north { 6 } else { 12 }, 21) + r.int(-75, 75)).clamp(rd_of(1600, 1, 1), rd_of(2399, 12, 31))
        } else {
            rd_of(y, 1, 1) + r.int(0, 364)
        };
        let c = DayCase { p, l, rd, w: None };
        if i < 2 {
            ctx.sample(c.to_json());
        }
        one(ctx, &c);
    }
    ctx.finish(json!({}));
}
