//! Independent solar ephemeris used by the falsifiers.  Shares no code with the library and
//! none with the Lean model.
//!  (i)  `sun_low`: Meeus ch. 25 closed-form solar coordinates (0.01 deg class)
//!  (ii) `sun`: full evaluation of the frozen VSOP87/IAU-1980 table snapshot, nutation series
//!       evaluated as published (the library's is a constant offset because of operator precedence)
//! Delta-T is ignored by the library and here.  Altitudes/hour angles come from 3-D unit vectors,
//! not from the spherical formulas the library uses.
use crate::oracle_tables as t;
use std::f64::consts::PI;

pub const D2R: f64 = PI / 180.;
pub const R2D: f64 = 180. / PI;

#[derive(Clone, Copy, Debug)]
pub struct Sun {
    pub ra: f64,   // apparent right ascension, degrees [0,360)
    pub dec: f64,  // apparent declination, degrees
    pub gast: f64, // Greenwich apparent sidereal time, degrees [0,360)
    pub dist: f64, // AU
}

pub fn norm360(x: f64) -> f64 {
    let r = x % 360.;
    if r < 0. {
        r + 360.
    } else {
        r
    }
}

/// into (-180, 180]
pub fn norm180(x: f64) -> f64 {
    let r = norm360(x);
    if r > 180. {
        r - 360.
    } else {
        r
    }
}

fn series(tab: &[(f64, f64, f64)], tau: f64) -> f64 {
    let mut s = 0.;
    for &(a, b, c) in tab {
        s += a * (b + c * tau).cos();
    }
    s
}

fn gmst(jd: f64) -> f64 {
    let d = jd - 2451545.0;
    let tt = d / 36525.;
    norm360(280.46061837 + 360.98564736629 * d + tt * tt * (0.000387933 - tt / 38710000.))
}

/// (delta psi, delta eps) in degrees, IAU 1980 series as published
fn nutation(tt: f64) -> (f64, f64) {
    let d = 297.85036 + 445267.111480 * tt - 0.0019142 * tt * tt + tt * tt * tt / 189474.;
    let m = 357.52772 + 35999.050340 * tt - 0.0001603 * tt * tt - tt * tt * tt / 300000.;
    let mp = 134.96298 + 477198.867398 * tt + 0.0086972 * tt * tt + tt * tt * tt / 56250.;
    let f = 93.27191 + 483202.017538 * tt - 0.0036825 * tt * tt + tt * tt * tt / 327270.;
    let om = 125.04452 - 1934.136261 * tt + 0.0020708 * tt * tt + tt * tt * tt / 450000.;
    let (mut psi, mut eps) = (0., 0.);
    for (k, &(a, b, c, dd, e)) in t::ARG.iter().enumerate() {
        let arg = (a as f64 * d + b as f64 * m + c as f64 * mp + dd as f64 * f + e as f64 * om) * D2R;
        let (p0, p1, e0, e1) = t::NUT[k];
        psi += (p0 + p1 * tt) * arg.sin();
        eps += (e0 + e1 * tt) * arg.cos();
    }
    // units of 0.0001 arcsecond
    (psi / 36000000., eps / 36000000.)
}

/// (ii) full-theory apparent geocentric Sun at a Julian Day (UT taken as TD)
pub fn sun(jd: f64) -> Sun {
    let tt = (jd - 2451545.0) / 36525.;
    let tau = tt / 10.;
    let tp = [1., tau, tau * tau, tau.powi(3), tau.powi(4), tau.powi(5)];
    let l = (series(&t::L0, tau) * tp[0] + series(&t::L1, tau) * tp[1] + series(&t::L2, tau) * tp[2]
        + series(&t::L3, tau) * tp[3] + series(&t::L4, tau) * tp[4] + series(&t::L5, tau) * tp[5])
        / 1e8;
    let b = (series(&t::B0, tau) + series(&t::B1, tau) * tau) / 1e8;
    let r = (series(&t::R0, tau) * tp[0] + series(&t::R1, tau) * tp[1] + series(&t::R2, tau) * tp[2]
        + series(&t::R3, tau) * tp[3] + series(&t::R4, tau) * tp[4])
        / 1e8;
    let (dpsi, deps) = nutation(tt);
    // geocentric longitude/latitude, aberration
    let lam = norm360(l * R2D + 180.) + dpsi - 20.4898 / 3600. / r;
    let beta = -b * R2D;
    let eps0 = 23. + 26. / 60. + 21.448 / 3600. - (46.8150 * tt + 0.00059 * tt * tt - 0.001813 * tt * tt * tt) / 3600.;
    let eps = (eps0 + deps) * D2R;
    let (lr, br) = (lam * D2R, beta * D2R);
    let ra = norm360((lr.sin() * eps.cos() - br.tan() * eps.sin()).atan2(lr.cos()) * R2D);
    let dec = (br.sin() * eps.cos() + br.cos() * eps.sin() * lr.sin()).asin() * R2D;
    Sun { ra, dec, gast: norm360(gmst(jd) + dpsi * eps.cos()), dist: r }
}

/// (i) Meeus ch. 25 low-accuracy formulae
pub fn sun_low(jd: f64) -> Sun {
    let tt = (jd - 2451545.0) / 36525.;
    let l0 = 280.46646 + 36000.76983 * tt + 0.0003032 * tt * tt;
    let m = (357.52911 + 35999.05029 * tt - 0.0001537 * tt * tt) * D2R;
    let e = 0.016708634 - 0.000042037 * tt - 0.0000001267 * tt * tt;
    let c = (1.914602 - 0.004817 * tt - 0.000014 * tt * tt) * m.sin() + (0.019993 - 0.000101 * tt) * (2. * m).sin()
        + 0.000289 * (3. * m).sin();
    let theta = l0 + c;
    let nu = m + c * D2R;
    let r = 1.000001018 * (1. - e * e) / (1. + e * nu.cos());
    let om = (125.04 - 1934.136 * tt) * D2R;
    let lam = (theta - 0.00569 - 0.00478 * om.sin()) * D2R;
    let eps0 = 23. + 26. / 60. + 21.448 / 3600. - (46.8150 * tt + 0.00059 * tt * tt - 0.001813 * tt * tt * tt) / 3600.;
    let eps = (eps0 + 0.00256 * om.cos()) * D2R;
    let ra = norm360((eps.cos() * lam.sin()).atan2(lam.cos()) * R2D);
    let dec = (eps.sin() * lam.sin()).asin() * R2D;
    let dpsi = -17.20 / 3600. * om.sin();
    Sun { ra, dec, gast: norm360(gmst(jd) + dpsi * eps.cos()), dist: r }
}

/// Julian Day of a proleptic-Gregorian civil date at 0h UT, from its day number (0001-01-01 = 1)
pub fn jd0_of_rd(rd: i64) -> f64 {
    rd as f64 + 1721424.5
}

/// local hour angle (degrees, (-180,180]) and geometric topocentric altitude of the Sun's centre
/// (degrees) at a UT instant for an observer at (lat, lon east-positive)
pub fn hour_angle_alt(jd_ut: f64, lat: f64, lon: f64) -> (f64, f64, Sun) {
    let s = sun(jd_ut);
    let lst = (s.gast + lon) * D2R;
    let (ra, dec, phi) = (s.ra * D2R, s.dec * D2R, lat * D2R);
    // unit vectors in the equatorial frame
    let sv = [dec.cos() * ra.cos(), dec.cos() * ra.sin(), dec.sin()];
    let zv = [phi.cos() * lst.cos(), phi.cos() * lst.sin(), phi.sin()];
    let dot = sv[0] * zv[0] + sv[1] * zv[1] + sv[2] * zv[2];
    let alt_geo = dot.clamp(-1., 1.).asin();
    // horizontal parallax 8.794"/dist lowers the apparent altitude by pi*cos(alt)
    let alt = alt_geo * R2D - 8.794 / 3600. / s.dist * alt_geo.cos();
    (norm180(s.gast + lon - s.ra), alt, s)
}

/// altitude (degrees) of a body of declination `dec` at hour angle `h` for latitude `lat`, via vectors
pub fn alt_at(lat: f64, dec: f64, h: f64) -> f64 {
    let (phi, d, hh) = (lat * D2R, dec * D2R, h * D2R);
    let sv = [d.cos() * hh.cos(), -d.cos() * hh.sin(), d.sin()];
    let zv = [phi.cos(), 0., phi.sin()];
    (sv[0] * zv[0] + sv[1] * zv[1] + sv[2] * zv[2]).clamp(-1., 1.).asin() * R2D
}

/// self-test: (i) and (ii) agree within 0.02 deg in RA/Dec over 1600..2399; returns the worst deviations
pub fn self_test() -> (f64, f64, f64) {
    let (mut wra, mut wdec, mut wst) = (0f64, 0f64, 0f64);
    let mut jd = 2305447.5; // 1600-01-01
    while jd < 2597641.5 {
        let a = sun(jd);
        let b = sun_low(jd);
        wra = wra.max(norm180(a.ra - b.ra).abs() * (a.dec * D2R).cos());
        wdec = wdec.max((a.dec - b.dec).abs());
        wst = wst.max(norm180(a.gast - b.gast).abs());
        jd += 7.3;
    }
    (wra, wdec, wst)
}
