//! C15: the parallel range API equals the sequential one under every schedule (runtime exploration:
//! forced worker counts, thresholds, range lengths, seeded perturbation at spawn/send/recv; watchdog).
use crate::f_policy::DayCase;
use crate::f_range::gen_range_case;
use crate::falsify::*;
use crate::gen::*;
use crate::rng::Rng;
use islamic_prayer_times::verif_hooks as vh;
use islamic_prayer_times::*;
use serde_json::{json, Value};
use std::sync::mpsc;
use std::time::Duration;

fn one(ctx: &mut Ctx, workers: usize, days: i64, threshold: usize, seed: u64, start: i64) -> bool {
    one_at(ctx, workers, days, threshold, seed, start, None)
}

/// `at`: parameter set and place (default: MWL at 33.3 N 44.4 E)
fn one_at(ctx: &mut Ctx, workers: usize, days: i64, threshold: usize, seed: u64, start: i64, at: Option<&DayCase>) -> bool {
    ctx.eval();
    let mut input = json!({"kind": "block", "workers": workers, "days": days, "threshold": threshold, "perturb_seed": seed, "start": ymd(start), "start_rd": start});
    if let Some(c) = at {
        input["day"] = c.to_json();
    }
    let params = at.map(|c| c.p.clone()).unwrap_or_else(|| Params::new(Method::Mwl));
    let l = at.map(|c| c.l).unwrap_or_else(|| loc(33.3, 44.4, 30., 3.));
    let dr = DateRange::from(date_of_rd(start)..=date_of_rd(start + days - 1));
    let seq = prayer_times_dt_rng(&params, l, &dr);
    let (tx, rx) = mpsc::channel();
    let (p2, d2) = (params.clone(), dr.clone());
    std::thread::spawn(move || {
        vh::set_parallelism(workers);
        vh::set_perturb_seed(seed);
        let r = std::panic::catch_unwind(std::panic::AssertUnwindSafe(|| prayer_times_dt_rng_block(&p2, l, &d2, threshold)));
        vh::set_perturb_seed(0);
        vh::set_parallelism(0);
        tx.send(r).ok();
    });
    let parallel_path = workers != 1 && !((days.max(0) as usize) / workers < threshold);
    ctx.branch(if parallel_path { "parallel-path" } else { "sequential-path" });
    if parallel_path {
        ctx.nontrivial(&format!("{}|{}|{}|{}", workers, days, threshold, seed));
    }
    match rx.recv_timeout(Duration::from_secs(120)) {
        Err(_) => {
            ctx.fail(input, "no result after 120 s (deadlock / lost wake-up)".into(), "terminates".into());
            false // the stuck thread cannot be killed: stop exploring
        }
        Ok(Err(_)) => {
            ctx.fail(input, "panic".into(), "the sequential map".into());
            true
        }
        Ok(Ok(par)) => {
            if par != seq {
                let extra: Vec<String> = par.keys().filter(|k| !seq.contains_key(k)).take(3).map(|d| d.to_string()).collect();
                let missing: Vec<String> = seq.keys().filter(|k| !par.contains_key(k)).take(3).map(|d| d.to_string()).collect();
                let differing: Vec<String> = seq.iter().filter(|(k, v)| par.get(*k).map_or(false, |w| w != *v)).take(3).map(|(d, _)| d.to_string()).collect();
                ctx.fail(
                    input,
                    format!("{} entries (extra {:?}, missing {:?}, same date with different times {:?})", par.len(), extra, missing, differing),
                    format!("{} entries equal to the sequential API", seq.len()),
                );
            }
            true
        }
    }
}

pub fn c15(ctx: &mut Ctx, tier: &str, r: &mut Rng, js: &[Value], _reqs: &[String], replay_only: bool) {
    for v in js {
        if let (Some(w), Some(d), Some(t)) = (v.get("workers").and_then(|x| x.as_u64()), v.get("days").and_then(|x| x.as_i64()), v.get("threshold").and_then(|x| x.as_u64())) {
            let seed = v.get("perturb_seed").and_then(|x| x.as_u64()).unwrap_or(0);
            let start = v.get("start_rd").and_then(|x| x.as_i64()).unwrap_or(rd_of(2023, 1, 1));
            let at = v.get("day").and_then(DayCase::from_json);
            // the property quantifies over schedules and a perturbation seed does not fix the OS's
            // scheduling: a recorded case is re-run under the recorded seed and fifteen derived ones,
            // stopping at the first failure
            for k in 0..16u64 {
                let before = ctx.fails;
                let sk = if k == 0 { seed } else { seed.wrapping_mul(6364136223846793005).wrapping_add(k) | 1 };
                if !one_at(ctx, w as usize, d, t as usize, sk, start, at.as_ref()) {
                    ctx.finish(json!({"watchdog": "fired"}));
                    return;
                }
                if ctx.fails > before {
                    break;
                }
            }
        }
    }
    if replay_only {
        ctx.finish(json!({}));
        return;
    }
    let workers: Vec<usize> = if tier == "thorough" { (1..=64).collect() } else { vec![1, 2, 3, 4, 5, 7, 8, 13, 16, 31, 32, 64] };
    let start = rd_of(2023, 1, 1);
    for &w in &workers {
        let wl = w as i64;
        let mut lens = vec![0, 1, 2, 3, wl - 1, wl, wl + 1, 2 * wl - 1, 2 * wl + 3, wl * wl - 1, 100, 366];
        if tier == "thorough" {
            lens.extend([1000, 2000, 6000]);
        }
        for days in lens {
            if days < 0 {
                continue;
            }
            for threshold in [0usize, 1, 2, 30, 400] {
                let seed = if threshold <= 1 { r.next() | 1 } else { 0 };
                if !one(ctx, w, days, threshold, seed, start + r.int(0, 3000)) {
                    ctx.finish(json!({"watchdog": "fired"}));
                    return;
                }
            }
        }
    }
    // other parameter sets and places: every method and policy, ranges that start in the season
    // without twilight at 46..70 degrees and run out of it (per-day independence across blocks)
    let n_at = sz!(tier, 40, 600);
    for _ in 0..n_at {
        let (c, days) = gen_range_case(r, 200);
        let w = r.pick(&[2usize, 3, 4, 8, 16]);
        if !one_at(ctx, w, days, r.pick(&[0usize, 1, 5]), if r.chance(0.5) { r.next() | 1 } else { 0 }, c.rd, Some(&c)) {
            ctx.finish(json!({"watchdog": "fired"}));
            return;
        }
    }
    // ranges across the Gregorian reform and other dates where consecutive calendar days are not one
    // Julian Day apart in the library's reckoning: the blocks cut such a range at other places than the
    // sequential function steps through it
    for (y, m, d, days) in [(1582, 10, 1, 40i64), (1582, 9, 1, 90), (1500, 2, 1, 60), (1, 1, 1, 50)] {
        let c = DayCase { p: Params::new(Method::Mwl), l: loc(41.9, 12.5, 20., 1.), rd: rd_of(y, m, d), w: None };
        for w in [2usize, 3, 7] {
            if !one_at(ctx, w, days, 0, 0, c.rd, Some(&c)) {
                ctx.finish(json!({"watchdog": "fired"}));
                return;
            }
        }
    }
    // random configurations with perturbation
    let n = sz!(tier, 120, 1500);
    for i in 0..n {
        let w = r.int(1, 64) as usize;
        let days = if r.chance(0.5) { r.int(0, 3 * w as i64) } else { r.int(0, sz!(tier, 800, 6000)) };
        let c = (w, days, r.pick(&[0usize, 0, 1, 2, 5, 30, 365]), r.next() | 1);
        if i == 0 {
            ctx.sample(json!({"workers": c.0, "days": c.1, "threshold": c.2, "perturb_seed": c.3}));
        }
        if !one(ctx, c.0, c.1, c.2, c.3, start + r.int(0, 100000)) {
            ctx.finish(json!({"watchdog": "fired"}));
            return;
        }
    }
    ctx.finish(json!({"watchdog_s": 120}));
}
