//! SplitMix64: every random choice in the harness derives from one seed.
#[derive(Clone)]
pub struct Rng(pub u64);

impl Rng {
    pub fn new(seed: u64) -> Self {
        Rng(seed.wrapping_mul(0x9E37_79B9_7F4A_7C15) ^ 0xD1B5_4A32_D192_ED03)
    }
    pub fn next(&mut self) -> u64 {
        self.0 = self.0.wrapping_add(0x9E37_79B9_7F4A_7C15);
        let mut z = self.0;
        z = (z ^ (z >> 30)).wrapping_mul(0xBF58_476D_1CE4_E5B9);
        z = (z ^ (z >> 27)).wrapping_mul(0x94D0_49BB_1331_11EB);
        z ^ (z >> 31)
    }
    pub fn below(&mut self, n: u64) -> u64 {
        self.next() % n
    }
    pub fn unit(&mut self) -> f64 {
        (self.next() >> 11) as f64 / (1u64 << 53) as f64
    }
    pub fn range(&mut self, lo: f64, hi: f64) -> f64 {
        lo + (hi - lo) * self.unit()
    }
    pub fn int(&mut self, lo: i64, hi: i64) -> i64 {
        lo + self.below((hi - lo + 1) as u64) as i64
    }
    pub fn pick<T: Copy>(&mut self, xs: &[T]) -> T {
        xs[self.below(xs.len() as u64) as usize]
    }
    pub fn chance(&mut self, p: f64) -> bool {
        self.unit() < p
    }
}
