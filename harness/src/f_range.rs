//! C14: range results are the per-day results for exactly the days in the range.
use crate::f_policy::DayCase;
use crate::falsify::*;
use crate::gen::*;
use crate::rng::Rng;
use crate::units::{gen_location, pt_tok};
use chrono::Datelike;
use islamic_prayer_times::*;
use serde_json::{json, Value};
use std::panic::{catch_unwind, AssertUnwindSafe};

fn one(ctx: &mut Ctx, s: i64, e: i64, k: usize, with_api: bool) {
    ctx.eval();
    let input = json!({"kind": "range", "start": ymd(s), "end": ymd(e), "start_rd": s, "end_rd": e, "parts": k});
    let dr = DateRange::from(date_of_rd(s)..=date_of_rd(e));
    let want_days = (e - s + 1).max(0) as usize;
    let nd = match catch_unwind(AssertUnwindSafe(|| dr.num_days())) {
        Ok(n) => n,
        Err(_) => {
            ctx.fail(input, "num_days panicked".into(), format!("{}", want_days));
            return;
        }
    };
    if nd != want_days {
        ctx.fail(input, format!("num_days = {}", nd), format!("num_days = {}", want_days));
        return; // the range API would iterate `nd` days
    }
    if want_days > 0 && k >= 2 {
        ctx.nontrivial(&format!("{}:{}", want_days, k));
    }
    let parts = match catch_unwind(AssertUnwindSafe(|| dr.partition(k))) {
        Ok(p) => p,
        Err(_) => {
            ctx.fail(input, "partition panicked".into(), "a partition".into());
            return;
        }
    };
    let ps: Vec<(i64, i64)> = parts
        .iter()
        .map(|p| (p.start_date().num_days_from_ce() as i64, p.end_date().num_days_from_ce() as i64))
        .collect();
    let shown = format!("{:?}", ps.iter().take(6).collect::<Vec<_>>());
    if ps.len() > k.max(1) {
        ctx.fail(input.clone(), format!("{} parts {}", ps.len(), shown), format!("at most {}", k.max(1)));
    }
    if want_days > 0 {
        // non-empty, contiguous, non-overlapping, union exact
        let mut expect = s;
        let mut ok = true;
        for (a, b) in &ps {
            if *a != expect || *b < *a {
                ok = false;
            }
            expect = *b + 1;
        }
        if !ok || expect != e + 1 {
            ctx.fail(input.clone(), format!("parts {}", shown), "non-empty contiguous sub-ranges covering start..=end exactly".into());
        }
    } else {
        // empty range: nothing may be covered
        let covered: i64 = ps.iter().map(|(a, b)| (b - a + 1).max(0)).sum();
        if covered != 0 {
            ctx.fail(input.clone(), format!("parts {} cover {} days", shown, covered), "no days".into());
        }
    }
    if with_api {
        let params = Params::new(Method::Mwl);
        let l = loc(33., 44., 30., 3.);
        let res = catch_unwind(AssertUnwindSafe(|| prayer_times_dt_rng(&params, l, &dr)));
        match res {
            Err(_) => ctx.fail(input, "prayer_times_dt_rng panicked".into(), "a map".into()),
            Ok(m) => {
                let keys: Vec<i64> = m.keys().map(|d| d.num_days_from_ce() as i64).collect();
                let want: Vec<i64> = (s..=e).collect();
                if keys != want {
                    ctx.fail(input, format!("{} keys", keys.len()), format!("{} keys start..=end", want.len()));
                } else {
                    for (d, v) in &m {
                        if *v != prayer_times_dt(&params, l, *d, None) {
                            ctx.fail(input.clone(), format!("entry {} differs from prayer_times_dt", d), "identical".into());
                            break;
                        }
                    }
                }
            }
        }
    }
}


/// The range API against the single-date API for an arbitrary parameter set and place: the same
/// dates, each entry identical.  (Catches anything carried over from one day of the range to the next.)
fn api_one(ctx: &mut Ctx, c: &DayCase, days: i64) {
    ctx.eval();
    let (s, e) = (c.rd, c.rd + days - 1);
    let input = json!({"kind": "range-api", "start": ymd(s), "end": ymd(e), "days": days, "day": c.to_json()});
    let dr = DateRange::from(date_of_rd(s)..=date_of_rd(e));
    let (pn, _) = policy_name(&c.p.extreme_latitude_method);
    ctx.nontrivial(&format!("api|{}|{}|{:.0}|{}", pn, days, f64::from(c.l.coords.latitude), s % 365));
    match catch_unwind(AssertUnwindSafe(|| prayer_times_dt_rng(&c.p, c.l, &dr))) {
        Err(_) => ctx.fail(input, "prayer_times_dt_rng panicked".into(), "a map".into()),
        Ok(m) => {
            let keys: Vec<i64> = m.keys().map(|d| d.num_days_from_ce() as i64).collect();
            let want: Vec<i64> = (s..=e).collect();
            if keys != want {
                ctx.fail(input, format!("{} keys", keys.len()), format!("{} keys start..=end", want.len()));
                return;
            }
            for (d, v) in &m {
                let single = catch_unwind(AssertUnwindSafe(|| prayer_times_dt(&c.p, c.l, *d, None)));
                match single {
                    Ok(sv) if sv == *v => {}
                    Ok(sv) => {
                        let diff: Vec<String> = PRAYERS.iter().filter(|q| sv.get(q) != v.get(q)).map(|q| format!("{:?}: range {} vs single {}", q, v.get(q).map(pt_tok).unwrap_or_default(), sv.get(q).map(pt_tok).unwrap_or_default())).collect();
                        ctx.fail(input.clone(), format!("entry {} differs from prayer_times_dt: {}", d, diff.join("; ")), "each entry identical to the single-date API".into());
                        return;
                    }
                    Err(_) => {
                        ctx.fail(input.clone(), format!("prayer_times_dt panicked on {}", d), "a result".into());
                        return;
                    }
                }
            }
        }
    }
}

/// parameter sets, places and ranges for `api_one`: every method and policy, half of the cases at
/// 46..70 degrees with the range starting in the season without twilight and running out of it
pub fn gen_range_case(r: &mut Rng, max_days: i64) -> (DayCase, i64) {
    let (m, _) = METHODS[1 + r.below(8) as usize];
    let mut p = Params::new(m);
    p.extreme_latitude_method = policy(r.below(15) as usize, if r.chance(0.5) { 48.5 } else { r.range(-60., 60.) });
    p.round_seconds = r.pick(&ROUNDS);
    if r.chance(0.3) {
        *p.intervals.get_mut(&Prayer::Imsaak).unwrap() = r.range(1., 30.);
    }
    let mut l = gen_location(r, 70., 6.);
    let mut rd = gen_rd(r).min(rd_of(2399, 12, 31) - max_days);
    if r.chance(0.6) {
        let lat = r.range(46., 70.) * if r.chance(0.5) { 1. } else { -1. };
        l.coords.latitude = Latitude::try_from(lat).unwrap();
        let y = r.int(1601, 2398) as i32;
        rd = rd_of(y, if lat >= 0. { 6 } else { 12 }, 21) + r.int(-90, 60);
    }
    let days = r.int(2, max_days);
    (DayCase { p, l, rd, w: None }, days)
}

pub fn c14(ctx: &mut Ctx, tier: &str, r: &mut Rng, js: &[Value], reqs: &[String], replay_only: bool) {
    // requests handed over from a correspondence break: `numdays s e` / `partition s e k`
    for q in reqs {
        let t: Vec<&str> = q.split_whitespace().collect();
        let n = |i: usize| t.get(i).and_then(|x| x.parse::<i64>().ok());
        let ok = |s: i64, e: i64| s >= rd_of(1, 1, 2) && e <= rd_of(9999, 12, 30) && s >= 1 && e >= 1;
        match (t.first().copied(), n(1), n(2)) {
            (Some("numdays"), Some(s), Some(e)) if ok(s, e) => one(ctx, s, e, 0, false),
            (Some("partition"), Some(s), Some(e)) if ok(s, e) => one(ctx, s, e, n(3).unwrap_or(0).clamp(0, 4096) as usize, false),
            _ => {}
        }
    }
    for v in js {
        if let (Some(s), Some(e), Some(k)) = (v.get("start_rd").and_then(|x| x.as_i64()), v.get("end_rd").and_then(|x| x.as_i64()), v.get("parts").and_then(|x| x.as_u64())) {
            one(ctx, s, e, k as usize, true);
        }
    }
    for v in js {
        if let (Some(c), Some(days)) = (v.get("day").and_then(DayCase::from_json), v.get("days").and_then(|x| x.as_i64())) {
            api_one(ctx, &c, days);
        }
    }
    if replay_only {
        ctx.finish(json!({}));
        return;
    }
    let anchors = [rd_of(2023, 1, 10), rd_of(2024, 2, 20), rd_of(1999, 12, 25), rd_of(2100, 2, 20), rd_of(1900, 2, 25), rd_of(2399, 1, 1) - 1500];
    let max_span: i64 = sz!(tier, 420, 2000);
    let mut n_api = 0;
    for (ai, a) in anchors.iter().enumerate() {
        for span in -5..=max_span {
            let e = a + span - 1;
            for k in 0..=64usize {
                // the range API is exercised on a subset (it computes every day of the range)
                let api = k == 0 && (span <= 40 || span % 97 == 0) && ai < 3;
                n_api += api as u64;
                one(ctx, *a, e, k, api);
            }
        }
    }
    let n = sz!(tier, 2000, 20000);
    for _ in 0..n {
        let s = gen_rd(r);
        let span = r.int(-5, 2000);
        one(ctx, s, s + span - 1, r.below(65) as usize, false);
    }
    // the range API against the single-date API over methods, policies, places and seasons
    let n_sweep = sz!(tier, 60, 1500);
    for _ in 0..n_sweep {
        let (c, days) = gen_range_case(r, 150);
        api_one(ctx, &c, days);
    }
    // the property names no era: ranges across the dates where consecutive calendar days are not one
    // Julian Day apart in the library's reckoning (the Gregorian reform of 1582-10-15, 29 February of the
    // years that are leap in the Julian calendar only, the first days of year 1) and in the far future
    for (y, m, d, days) in [(1582, 10, 1, 40), (1582, 10, 14, 3), (1582, 12, 20, 30), (1500, 2, 20, 20), (1400, 2, 25, 10), (1100, 2, 27, 5),
                            (1, 1, 1, 40), (1, 12, 20, 30), (4, 2, 20, 20), (622, 7, 1, 30), (9999, 11, 20, 42), (1599, 12, 15, 40)] {
        let p = Params::new(Method::Mwl);
        let c = DayCase { p, l: loc(41.9, 12.5, 20., 1.), rd: rd_of(y, m, d), w: None };
        api_one(ctx, &c, days);
    }
    for _ in 0..sz!(tier, 12, 300) {
        let (mut c, days) = gen_range_case(r, 60);
        c.rd = r.int(2, rd_of(1599, 10, 1));
        api_one(ctx, &c, days);
    }
    ctx.sample(json!({"start": ymd(anchors[1]), "end": ymd(anchors[1] + 9), "parts": 4}));
    ctx.sample(json!({"start": ymd(anchors[0]), "end": ymd(anchors[0] - 5), "parts": 3}));
    ctx.finish(json!({"range_api_calls": n_api, "max_span": max_span}));
}
