mod f_astro;
mod f_block;
mod f_bounded;
mod f_cli;
mod f_goodday;
mod f_hijri;
mod f_params;
mod f_policy;
mod f_range;
mod falsify;
mod gen;
mod oracle;
mod oracle_tables;
mod rng;
mod units;

use std::io::{BufWriter, Write};

fn main() {
    // panics are values here: silence the default hook, catch_unwind reports them
    std::panic::set_hook(Box::new(|_| {}));
    let args: Vec<String> = std::env::args().collect();
    let cmd = args.get(1).map(|s| s.as_str()).unwrap_or("");
    match cmd {
        "corr" => {
            // corr <unit> <tier> <seed>
            let unit = &args[2];
            let tier = &args[3];
            let seed: u64 = args[4].parse().unwrap();
            let stdout = std::io::stdout();
            let mut o = units::Out { w: Box::new(BufWriter::new(stdout.lock())), n: 0 };
            if !units::run_unit(unit, &mut o, tier, seed) {
                eprintln!("unknown unit {}", unit);
                std::process::exit(2);
            }
            o.w.flush().unwrap();
        }
        "falsify" => {
            // falsify <pid> <tier|replay> <seed> <corpus|->   (extra inputs on stdin)
            let seed: u64 = args[4].parse().unwrap();
            if !falsify::run(&args[2], &args[3], seed, args.get(5).map(|s| s.as_str()).unwrap_or("-")) {
                eprintln!("no falsifier for {}", args[2]);
                std::process::exit(2);
            }
        }
        _ => {
            eprintln!("usage: ipt_harness corr <unit> <tier> <seed>");
            std::process::exit(2);
        }
    }
}
