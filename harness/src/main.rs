/// sample size by tier: quick, thorough, or "deep" (their geometric mean) - the size `check` escalates
/// to when a translator item falls back to the correspondence (DESIGN 14.4)
#[macro_export]
macro_rules! sz {
    ($tier:expr, $quick:expr, $thorough:expr) => {
        match $tier {
            "thorough" => $thorough,
            "deep" => ((($quick as f64) * ($thorough as f64)).sqrt()) as _,
            _ => $quick,
        }
    };
}

mod f_astro;
mod f_block;
mod f_bounded;
mod f_cli;
mod f_goodday;
mod f_hijri;
mod f_params;
mod f_policy;
mod f_range;
mod falsify;
mod gen;
mod oracle;
mod oracle_tables;
mod rng;
mod units;

use std::io::{BufWriter, Write};

fn main() {
    // panics are values here: silence the default hook, catch_unwind reports them
    if std::env::var("IPT_SHOW_PANICS").is_err() {
        std::panic::set_hook(Box::new(|_| {}));
    }
    let args: Vec<String> = std::env::args().collect();
    let cmd = args.get(1).map(|s| s.as_str()).unwrap_or("");
    match cmd {
        "corr" => {
            // corr <unit> <tier> <seed>; a watchdog turns 120 s of silence into a reported hang
            let unit = args[2].clone();
            let tier = args[3].clone();
            let seed: u64 = args[4].parse().unwrap();
            let (tx, rx) = std::sync::mpsc::channel::<Option<String>>();
            std::thread::spawn(move || {
                struct ChanWriter(std::sync::mpsc::Sender<Option<String>>, Vec<u8>);
                impl Write for ChanWriter {
                    fn write(&mut self, buf: &[u8]) -> std::io::Result<usize> {
                        self.1.extend_from_slice(buf);
                        while let Some(i) = self.1.iter().position(|b| *b == b'\n') {
                            let line: Vec<u8> = self.1.drain(..=i).collect();
                            self.0.send(Some(String::from_utf8_lossy(&line[..line.len() - 1]).into_owned())).ok();
                        }
                        Ok(buf.len())
                    }
                    fn flush(&mut self) -> std::io::Result<()> {
                        Ok(())
                    }
                }
                let mut o = units::Out { w: Box::new(ChanWriter(tx.clone(), vec![])), n: 0 };
                let ok = units::run_unit(&unit, &mut o, &tier, seed);
                drop(o);
                tx.send(if ok { None } else { Some("__UNKNOWN_UNIT__".into()) }).ok();
            });
            let stdout = std::io::stdout();
            let mut w = BufWriter::new(stdout.lock());
            let (mut n, mut last) = (0u64, String::new());
            loop {
                match rx.recv_timeout(std::time::Duration::from_secs(120)) {
                    Ok(Some(l)) if l == "__UNKNOWN_UNIT__" => {
                        eprintln!("unknown unit");
                        std::process::exit(2);
                    }
                    Ok(Some(l)) => {
                        n += 1;
                        last = l.split('\t').next().unwrap_or("").to_string();
                        writeln!(w, "{}", l).unwrap();
                    }
                    Ok(None) => break,
                    Err(_) => {
                        w.flush().unwrap();
                        eprintln!("HANG after {} cases; last completed request: {}", n, last);
                        std::process::exit(3);
                    }
                }
            }
            w.flush().unwrap();
        }
        "falsify" => {
            // falsify <pid> <tier|replay> <seed> <corpus|->   (extra inputs on stdin)
            let seed: u64 = args[4].parse().unwrap();
            // The falsifier runs on its own thread; a watchdog turns 150 s without a single evaluation
            // (a call of the real code that does not return) into a reported failure whose input is the
            // case that was being evaluated, instead of a check that never ends.
            let (pid, tier, corpus) = (args[2].clone(), args[3].clone(), args.get(5).cloned().unwrap_or_else(|| "-".into()));
            let done = std::sync::Arc::new(std::sync::atomic::AtomicU64::new(0));
            let d2 = done.clone();
            std::thread::Builder::new()
                .stack_size(256 << 20)
                .spawn(move || {
                    let ok = falsify::run(&pid, &tier, seed, &corpus);
                    d2.store(if ok { 1 } else { 2 }, std::sync::atomic::Ordering::SeqCst);
                })
                .unwrap();
            let (mut last, mut idle) = (0u64, 0u32);
            loop {
                std::thread::sleep(std::time::Duration::from_millis(200));
                match done.load(std::sync::atomic::Ordering::SeqCst) {
                    1 => break,
                    2 => {
                        eprintln!("no falsifier for {}", args[2]);
                        std::process::exit(2);
                    }
                    _ => {}
                }
                let now = falsify::PROGRESS.load(std::sync::atomic::Ordering::Relaxed);
                if now != last {
                    last = now;
                    idle = 0;
                    continue;
                }
                idle += 1;
                if idle >= 5 * 150 {
                    let input = falsify::CURRENT
                        .try_lock()
                        .ok()
                        .and_then(|g| g.as_ref().map(|c| c.to_json()))
                        .unwrap_or_else(|| serde_json::json!({"kind": "hang", "after_evaluations": now}));
                    println!(
                        "{}",
                        serde_json::json!({"fail": {"input": input, "observed": format!("the call has not returned for 150 s (after {} evaluations)", now), "required": "every call returns"}})
                    );
                    println!(
                        "{}",
                        serde_json::json!({"stats": {"evaluations": now, "distinct_nontrivial": 0, "failures": 1, "branches": {}, "samples": [], "exhaustive": false, "extra": {"watchdog": "fired"}}})
                    );
                    std::process::exit(0);
                }
            }
        }
        _ => {
            eprintln!("usage: ipt_harness corr <unit> <tier> <seed>");
            std::process::exit(2);
        }
    }
}
