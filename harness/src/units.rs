//! Correspondence units: for each case emit `request<TAB>implementation output`.
//! The request goes verbatim to the Lean driver; outputs are compared by ./check.
use crate::gen::*;
use crate::rng::Rng;
use chrono::{Datelike, NaiveDate, Timelike};
use islamic_prayer_times::verif_hooks as vh;
use islamic_prayer_times::*;
use std::collections::BTreeMap;
use std::io::Write;
use std::panic::{catch_unwind, AssertUnwindSafe};

pub fn guarded<F: FnOnce() -> String>(f: F) -> String {
    match catch_unwind(AssertUnwindSafe(f)) {
        Ok(s) => s,
        Err(_) => "PANIC".to_string(),
    }
}

pub struct Out<'a> {
    pub w: Box<dyn Write + 'a>,
    pub n: u64,
}

impl<'a> Out<'a> {
    pub fn case(&mut self, req: String, res: String) {
        self.n += 1;
        writeln!(self.w, "{}\t{}", req, res).unwrap();
    }
}

fn opt_hex(x: Result<f64, ()>) -> String {
    match x {
        Ok(v) => hx(v),
        Err(()) => "ERR".into(),
    }
}

fn ph_tok(x: Result<(f64, bool), ()>) -> String {
    match x {
        Ok((v, e)) => format!("{}:{}", hx(v), e as u8),
        Err(()) => "ERR".into(),
    }
}

pub fn pt_tok(x: &Result<PrayerTime, ()>) -> String {
    match x {
        Ok(t) => format!("{}:{}:{}:{}", t.time.hour(), t.time.minute(), t.time.second(), t.extreme as u8),
        Err(()) => "ERR".into(),
    }
}

pub fn day_tokens(m: &BTreeMap<Prayer, Result<PrayerTime, ()>>) -> String {
    if m.len() != 7 || !PRAYERS.iter().all(|p| m.contains_key(p)) {
        return format!("LEN {}", m.len());
    }
    PRAYERS.iter().map(|p| pt_tok(&m[p])).collect::<Vec<_>>().join(" ")
}

fn astro_tok(a: &[f64; 5]) -> String {
    a.iter().map(|x| hx(*x)).collect::<Vec<_>>().join(" ")
}

fn sizes(tier: &str, quick: u64, thorough: u64) -> u64 {
    sz!(tier, quick, thorough)
}

// ---------------------------------------------------------------- angle
pub fn unit_angle(o: &mut Out, tier: &str, r: &mut Rng) {
    let n = sizes(tier, 1500, 30000);
    let fixed = [
        0., -0., 360., -360., 720., 180., -180., 90., 1., -1., 0.5, -0.5, 359.999999, -359.999999, 1e9,
        -1e9, 723.2, -723.2, 183.2, -183.2, 189.3, -189.3, 165., 540., -540., 1e-300, -1e-300,
    ];
    let mut vals: Vec<f64> = fixed.to_vec();
    for _ in 0..n {
        let mag = r.pick(&[1., 10., 400., 400., 1e4, 1e7]);
        let mut x = r.range(-mag, mag);
        if r.chance(0.15) {
            x = x.round();
        }
        if r.chance(0.05) {
            x = (x / 180.).round() * 180.;
        }
        vals.push(x);
    }
    for x in vals {
        o.case(format!("angle 360 {}", hx(x)), hx(vh::cap_angle_360(x)));
        o.case(format!("angle 180 {}", hx(x)), hx(vh::cap_angle_180(x)));
        o.case(format!("angle 1 {}", hx(x)), hx(vh::cap_angle_1(x)));
        o.case(format!("angle pm180 {}", hx(x)), hx(vh::cap_angle_between_180(x)));
    }
}

// ---------------------------------------------------------------- civil (chrono contract)
fn civil_line(rd: i64) -> (String, String) {
    let d = date_of_rd(rd);
    (
        format!("civil {}", rd),
        format!(
            "{} {} {} {} {} {}",
            d.year(),
            d.month(),
            d.day(),
            d.ordinal(),
            d.leap_year() as u8,
            NaiveDate::from_ymd_opt(d.year(), d.month(), d.day()).unwrap().num_days_from_ce()
        ),
    )
}

pub const RD_MAX: i64 = 3652059; // 9999-12-31

pub fn unit_civil(o: &mut Out, tier: &str, r: &mut Rng) {
    if tier != "quick" {
        for rd in 1..=RD_MAX {
            let (a, b) = civil_line(rd);
            o.case(a, b);
        }
        return;
    }
    for y in [1, 2, 4, 100, 400, 622, 1582, 1583, 1600, 1700, 1900, 2000, 2023, 2024, 2100, 2399, 2400, 9999] {
        for (m, d) in [(1, 1), (2, 28), (3, 1), (12, 31), (10, 15), (10, 4)] {
            let rd = rd_of(y, m, d);
            for k in -1..=1 {
                if rd + k >= 1 && rd + k <= RD_MAX {
                    let (a, b) = civil_line(rd + k);
                    o.case(a, b);
                }
            }
        }
    }
    for _ in 0..20000 {
        let (a, b) = civil_line(r.int(1, RD_MAX));
        o.case(a, b);
    }
}

// ---------------------------------------------------------------- jd
pub fn unit_jd(o: &mut Out, tier: &str, r: &mut Rng) {
    let n = sizes(tier, 4000, 300000);
    for i in 0..n {
        let rd = if i % 10 == 0 { r.int(366, RD_MAX - 800) } else { gen_rd(r) };
        let lon0 = gen_lon(r);
        let gmt = gen_gmt(r, lon0, 12.);
        let g = Gmt::try_from(gmt).unwrap();
        let d = date_of_rd(rd);
        o.case(format!("jd {} {}", rd, hx(gmt)), hx(vh::jd_new(d, g)));
        if i % 4 == 0 {
            let k = r.int(0, 400) as u64;
            let (d2, v2) = vh::jd_sub(d, g, k);
            o.case(format!("jdsub {} {} {}", rd, hx(gmt), k), format!("{} {}", d2.num_days_from_ce(), hx(v2)));
            let (d3, v3) = vh::jd_add(d, g, k);
            o.case(format!("jdadd {} {} {}", rd, hx(gmt), k), format!("{} {}", d3.num_days_from_ce(), hx(v3)));
        }
    }
}

// ---------------------------------------------------------------- astro / top
pub fn unit_astro(o: &mut Out, tier: &str, r: &mut Rng) {
    let n = sizes(tier, 2500, 300000);
    for _ in 0..n {
        let rd = gen_rd(r);
        let lon0 = gen_lon(r);
        let gmt = gen_gmt(r, lon0, 12.);
        let jd = vh::jd_new(date_of_rd(rd), Gmt::try_from(gmt).unwrap()) + r.pick(&[-1., 0., 1.]);
        o.case(format!("astro {}", hx(jd)), astro_tok(&vh::astro(jd)));
    }
}

pub fn gen_location(r: &mut Rng, max_lat: f64, gmt_within: f64) -> Location {
    let lon = gen_lon(r);
    loc(gen_lat(r, max_lat), lon, gen_elev(r), gen_gmt(r, lon, gmt_within))
}

pub fn unit_top(o: &mut Out, tier: &str, r: &mut Rng) {
    let n = sizes(tier, 1500, 150000);
    for i in 0..n {
        let l = gen_location(r, 90., 12.);
        let rd = gen_rd(r);
        let t = vh::top_astro(l, date_of_rd(rd));
        o.case(
            format!("top {} {}", rd, loc_tokens(&l)),
            t.iter().map(astro_tok).collect::<Vec<_>>().join(" "),
        );
        if i % 3 == 0 {
            let c2 = Coordinates::new(
                Latitude::try_from(gen_lat(r, 90.)).unwrap(),
                l.coords.longitude,
                l.coords.elevation,
            );
            let t = vh::top_astro_new_coords(l, date_of_rd(rd), c2);
            o.case(
                format!(
                    "topnc {} {} {} {} {}",
                    rd,
                    loc_tokens(&l),
                    hx(c2.latitude.into()),
                    hx(c2.longitude.into()),
                    hx(c2.elevation.into())
                ),
                t.iter().map(astro_tok).collect::<Vec<_>>().join(" "),
            );
        }
    }
}

// ---------------------------------------------------------------- hours
pub fn raw_case(p: &Params, l: &Location, rd: i64, w: &Option<Weather>) -> (String, String) {
    let req = format!("raw {} {} {} {}", params_tokens(p), loc_tokens(l), rd, weather_tokens(w));
    let res = guarded(|| {
        vh::raw_hours(p, *l, date_of_rd(rd), w.unwrap_or_default())
            .iter()
            .map(|x| opt_hex(*x))
            .collect::<Vec<_>>()
            .join(" ")
    });
    (req, res)
}

pub fn adj_case(p: &Params, l: &Location, rd: i64, w: &Option<Weather>) -> (String, String) {
    let req = format!("adj {} {} {} {}", params_tokens(p), loc_tokens(l), rd, weather_tokens(w));
    let res = guarded(|| {
        vh::adj_hours(p, *l, date_of_rd(rd), w.unwrap_or_default())
            .iter()
            .map(|x| ph_tok(*x))
            .collect::<Vec<_>>()
            .join(" ")
    });
    (req, res)
}

pub fn ptdt_case(p: &Params, l: &Location, rd: i64, w: &Option<Weather>) -> (String, String) {
    let req = format!("ptdt {} {} {} {}", params_tokens(p), loc_tokens(l), rd, weather_tokens(w));
    let res = guarded(|| day_tokens(&prayer_times_dt(p, *l, date_of_rd(rd), *w)));
    (req, res)
}

pub fn imsaak_case(p: &Params, l: &Location, rd: i64, w: &Option<Weather>) -> (String, String) {
    let req = format!("imsaak {} {} {} {}", params_tokens(p), loc_tokens(l), rd, weather_tokens(w));
    let res = guarded(|| pt_tok(&vh::imsaak(p, *l, date_of_rd(rd), w.unwrap_or_default())));
    (req, res)
}

pub fn unit_raw(o: &mut Out, tier: &str, r: &mut Rng) {
    let n = sizes(tier, 3000, 200000);
    for _ in 0..n {
        let p = gen_params(r, C07_SPACE);
        let l = gen_location(r, 90., 12.);
        let (a, b) = raw_case(&p, &l, gen_rd(r), &gen_weather(r));
        o.case(a, b);
    }
}

pub fn unit_adj(o: &mut Out, tier: &str, r: &mut Rng) {
    let n = sizes(tier, 2500, 100000);
    for _ in 0..n {
        let p = gen_params(r, C07_SPACE);
        let l = gen_location(r, 90., 12.);
        let (a, b) = adj_case(&p, &l, gen_rd(r), &gen_weather(r));
        o.case(a, b);
    }
}

pub fn unit_imsaak(o: &mut Out, tier: &str, r: &mut Rng) {
    let n = sizes(tier, 2000, 60000);
    for _ in 0..n {
        let p = gen_params(r, C07_SPACE);
        let l = gen_location(r, 90., 12.);
        let (a, b) = imsaak_case(&p, &l, gen_rd(r), &gen_weather(r));
        o.case(a, b);
    }
}

pub fn unit_ptdt(o: &mut Out, tier: &str, r: &mut Rng) {
    let n = sizes(tier, 2500, 100000);
    for _ in 0..n {
        let p = gen_params(r, C07_SPACE);
        let l = gen_location(r, 90., 12.);
        let (a, b) = ptdt_case(&p, &l, gen_rd(r), &gen_weather(r));
        o.case(a, b);
    }
}

// ---------------------------------------------------------------- extlat: the policy layer on given hours
/// exhaustive over the 2^6 validity patterns x 15 policies x interval configurations
pub fn unit_extlat(o: &mut Out, tier: &str, r: &mut Rng) {
    let reps = sizes(tier, 2, 40);
    for rep in 0..reps {
        for pol in 0..15usize {
            for pattern in 0..64u32 {
                for ints in 0..4u32 {
                    let (m, _) = r.pick(&METHODS);
                    let mut p = Params::new(m);
                    let near = if r.chance(0.5) { 48.5 } else { gen_lat(r, 90.) };
                    p.extreme_latitude_method = policy(pol, near);
                    *p.intervals.get_mut(&Prayer::Fajr).unwrap() = if ints & 1 != 0 { r.range(1., 120.).round() } else { 0. };
                    *p.intervals.get_mut(&Prayer::Isha).unwrap() = if ints & 2 != 0 { r.range(1., 120.).round() } else { 0. };
                    if rep % 2 == 1 {
                        *p.angles.get_mut(&Prayer::Fajr).unwrap() = r.range(0., 25.);
                        *p.angles.get_mut(&Prayer::Isha).unwrap() = r.range(0., 25.);
                    }
                    let l = gen_location(r, 90., 12.);
                    let rd = gen_rd(r);
                    let w = gen_weather(r);
                    // plausible hour values, random but ordered around noon
                    let base = [5.2, 6.7, 12.1, 15.4, 17.6, 19.1];
                    let mut given: [Result<f64, ()>; 6] = [Err(()); 6];
                    for k in 0..6 {
                        // Dhuhr (index 2) is always present in real runs; the pattern bit for it is
                        // honoured too so the model's panic branch is exercised.
                        if pattern & (1 << k) != 0 {
                            given[k] = Ok(base[k] + r.range(-1.5, 1.5));
                        }
                    }
                    let req = format!(
                        "extlat {} {} {} {} {}",
                        params_tokens(&p),
                        loc_tokens(&l),
                        rd,
                        weather_tokens(&w),
                        given.iter().map(|x| opt_hex(*x)).collect::<Vec<_>>().join(" ")
                    );
                    let res = guarded(|| {
                        vh::adj_given(&p, given, l, date_of_rd(rd), w.unwrap_or_default())
                            .iter()
                            .map(|x| ph_tok(*x))
                            .collect::<Vec<_>>()
                            .join(" ")
                    });
                    o.case(req, res);
                }
            }
        }
    }
}

// ---------------------------------------------------------------- h2t
pub fn h2t_case(p: &Params, pr: Prayer, hour: f64) -> (String, String) {
    let req = format!("h2t {} {:?} {}", params_tokens(p), pr, hx(hour));
    let res = guarded(|| {
        let t = vh::hour_to_time(p, pr, hour);
        format!("{}:{}:{}", t.hour(), t.minute(), t.second())
    });
    (req, res)
}

pub fn unit_h2t(o: &mut Out, tier: &str, r: &mut Rng) {
    // every second of the day at mid-second (thorough) or a stride plus all edges (quick)
    let stride: u32 = sz!(tier, 37, 1);
    for (mi, mode) in ROUNDS.iter().enumerate() {
        for (pi, pr) in PRAYERS.iter().enumerate() {
            let mut p = Params::new(Method::Isna);
            p.round_seconds = *mode;
            let mut k = ((mi * 7 + pi) as u32) % stride;
            while k < 86400 {
                let (a, b) = h2t_case(&p, *pr, (k as f64 + 0.5) / 3600.);
                o.case(a, b);
                k += stride;
            }
            // edges: s = 0/1/29/30/59 in minutes 0, 29, 59 of hours 0, 11, 23
            for h in [0u32, 11, 23] {
                for m in [0u32, 29, 59] {
                    for s in [0u32, 1, 29, 30, 59] {
                        let sec = h * 3600 + m * 60 + s;
                        let (a, b) = h2t_case(&p, *pr, (sec as f64 + 0.5) / 3600.);
                        o.case(a, b);
                    }
                }
            }
            // offsets pushing the hour negative or past 24
            for _ in 0..40 {
                let mut q = p.clone();
                *q.minutes.get_mut(pr).unwrap() = r.range(-1500., 1500.).round();
                let sec = r.below(86400) as f64 + 0.5;
                let (a, b) = h2t_case(&q, *pr, sec / 3600.);
                o.case(a, b);
            }
            // arbitrary doubles incl. exact-second points (reported separately by ./check)
            for _ in 0..60 {
                let (a, b) = h2t_case(&p, *pr, r.range(-30., 60.));
                o.case(a, b);
            }
        }
    }
}

// ---------------------------------------------------------------- params
pub fn unit_params(o: &mut Out, _tier: &str, _r: &mut Rng) {
    for (m, name) in METHODS {
        o.case(format!("params {}", name), params_tokens(&Params::new(m)));
    }
    // Default == new(None)
    o.case("params None".into(), params_tokens(&Params::default()));
}

// ---------------------------------------------------------------- hijri
fn hijri_line(rd: i64) -> (String, String) {
    let d = date_of_rd(rd);
    let res = guarded(|| {
        let h = HijriDate::from(d);
        let wd = h.day_of_week() as u8;
        let disp = catch_unwind(AssertUnwindSafe(|| h.to_string()));
        match catch_unwind(AssertUnwindSafe(|| h.month() as u8)) {
            Ok(m) if disp.is_ok() => format!("{} {} {} {} {}", h.year(), m, h.day(), h.pre_epoch() as u8, wd),
            _ => "PANIC".to_string(),
        }
    });
    (format!("hijri {}", rd), res)
}

pub fn unit_hijri(o: &mut Out, tier: &str, r: &mut Rng) {
    if tier != "quick" {
        for rd in 1..=RD_MAX {
            let (a, b) = hijri_line(rd);
            o.case(a, b);
        }
        return;
    }
    for rd in 1..=1200 {
        let (a, b) = hijri_line(rd);
        o.case(a, b);
    }
    for rd in 227015 - 800..=227015 + 800 {
        let (a, b) = hijri_line(rd);
        o.case(a, b);
    }
    for rd in RD_MAX - 400..=RD_MAX {
        let (a, b) = hijri_line(rd);
        o.case(a, b);
    }
    for _ in 0..20000 {
        let (a, b) = hijri_line(r.int(1, RD_MAX));
        o.case(a, b);
    }
}

// ---------------------------------------------------------------- date ranges
pub fn unit_daterange(o: &mut Out, tier: &str, r: &mut Rng) {
    let mut pairs: Vec<(i64, i64)> = Vec::new();
    let anchors = [rd_of(2023, 1, 1), rd_of(2024, 2, 27), rd_of(1999, 12, 30), rd_of(2100, 2, 26), rd_of(1600, 1, 1)];
    for a in anchors {
        for span in -5..=70i64 {
            pairs.push((a, a + span - 1));
        }
    }
    let n = sizes(tier, 300, 20000);
    for _ in 0..n {
        let a = gen_rd(r);
        pairs.push((a, a + r.int(-5, 2000) - 1));
    }
    for (s, e) in pairs {
        let dr = DateRange::from(date_of_rd(s)..=date_of_rd(e));
        o.case(format!("numdays {} {}", s, e), guarded(|| dr.num_days().to_string()));
        let ks: Vec<usize> = if tier == "thorough" || e - s < 70 { (0..=64).collect() } else { vec![0, 1, 2, 3, 7, 16, 64] };
        for k in ks {
            let res = guarded(|| {
                let ps = dr.partition(k);
                let mut s = ps.len().to_string();
                for p in ps {
                    s += &format!(" {}:{}", p.start_date().num_days_from_ce(), p.end_date().num_days_from_ce());
                }
                s
            });
            o.case(format!("partition {} {} {}", s, e, k), res);
        }
    }
}

// ---------------------------------------------------------------- rng: the sequential range API
/// `prayer_times_dt_rng` over short ranges against the model's per-date results for the dates of
/// the range (`rangeDates` + `prayerTimesDt`): the units above exercise one date per call, so state
/// carried from one date of a range to the next would be invisible to them.  Half of the cases sit
/// at latitudes 46..68 of either sign, where a range of a few weeks crosses the beginning or the
/// end of the season without twilight (dates on which the policies and the Imsaak fallback apply
/// next to dates on which they do not); a few ranges are empty or reversed.
pub fn unit_rng(o: &mut Out, tier: &str, r: &mut Rng) {
    let n = sizes(tier, 250, 8000);
    for i in 0..n {
        let p = gen_params(r, C07_SPACE);
        let mut l = gen_location(r, 90., 12.);
        if i % 2 == 0 {
            let lat = r.range(46., 68.) * if r.chance(0.5) { 1. } else { -1. };
            let lon = gen_lon(r);
            l = loc(lat, lon, gen_elev(r), gen_gmt(r, lon, 4.));
        }
        let start = gen_rd(r).min(rd_of(2399, 10, 1));
        let len = match i % 10 {
            0 => r.int(-3, 0),
            _ => r.int(1, 50),
        };
        let end = start + len - 1;
        let res = guarded(|| {
            let m = prayer_times_dt_rng(&p, l, &DateRange::from(date_of_rd(start)..=date_of_rd(end)));
            let parts: Vec<String> = m.iter().map(|(d, day)| format!("{} {}", d.num_days_from_ce(), day_tokens(day))).collect();
            format!("{} {}", parts.len(), parts.join(" | "))
        });
        o.case(format!("rng {} {} {} {}", params_tokens(&p), loc_tokens(&l), start, end), res);
    }
}

// ---------------------------------------------------------------- qibla
pub fn unit_qibla(o: &mut Out, tier: &str, r: &mut Rng) {
    let n = sizes(tier, 4000, 400000);
    for i in 0..n {
        let mut lat = gen_lat(r, 90.);
        let mut lon = gen_lon(r);
        // one case in four close to where the formula is delicate: rings of 0.12 .. 3 degrees around the
        // Kaaba and its antipode (inside 0.1 degree the property exempts the bearing - it is
        // ill-conditioned there and two correct formulas differ by more than the comparison tolerance),
        // and the Kaaba's meridian / antimeridian
        match i % 8 {
            1 | 2 => {
                let (clat, clon) = if i % 8 == 1 { (21.423333, 39.823333) } else { (-21.423333, -140.176667) };
                let rad = 10f64.powf(r.range(-0.92, 0.5));
                let th = r.range(0., std::f64::consts::TAU);
                lat = (clat + rad * th.sin()).clamp(-90., 90.);
                lon = (clon + rad * th.cos()).clamp(-180., 180.);
            }
            3 => lon = if r.chance(0.5) { 39.823333 } else { -140.176667 } + if r.chance(0.5) { 0. } else { r.range(-1e-3, 1e-3) },
            _ => {}
        }
        let c = Coordinates::new(
            Latitude::try_from(lat).unwrap(),
            Longitude::try_from(lon).unwrap(),
            Elevation::try_from(gen_elev(r)).unwrap(),
        );
        let q = Qibla::new(c);
        let rot = match q.rotation() {
            Rotation::Cw => "CW",
            Rotation::Ccw => "CCW",
        };
        o.case(format!("qibla {} {}", hx(lat), hx(lon)), format!("{} {}", hx(q.degrees()), rot));
    }
}


// ---------------------------------------------------------------- fmt1 / qtext (the Qibla text)
fn hexstr(s: &str) -> String {
    s.bytes().map(|b| format!("{:02x}", b)).collect()
}

/// `format!("{:.1}", x.abs())` against Model/Fmt.lean on bit patterns: exact ties (n + 0.25, n + 0.75)
/// and their neighbours, carries (9.95, 99.95, 359.95), zero, subnormals, huge values, NaN and
/// infinities, uniform angles and uniform bit patterns
pub fn unit_fmt1(o: &mut Out, tier: &str, r: &mut Rng) {
    let n = sizes(tier, 3000, 200000);
    let mut pats: Vec<u64> = vec![
        0, 1 << 63, 1, 2, 0x000fffffffffffff, 0x0010000000000000, 0x7fefffffffffffff, 0x7ff0000000000000,
        0xfff0000000000000, 0x7ff8000000000000, 0xfff8000000000001, 0x3fa999999999999a, 0x3fb999999999999a,
    ];
    for k in 0..400u32 {
        for frac in [0.05, 0.15, 0.25, 0.35, 0.45, 0.5, 0.55, 0.65, 0.75, 0.85, 0.95] {
            let b = (k as f64 + frac).to_bits();
            pats.extend([b, b - 1, b + 1]);
        }
    }
    for e in [1e15, 4503599627370496.5, 1e16, 1e22, 1e23, 1.7976931348623157e308, 1e-5, 0.04999999999999999, 0.05, 0.95, 0.9500000000000001] {
        pats.push(f64::to_bits(e));
    }
    let mut seen = std::collections::HashSet::new();
    let mut emit = |o: &mut Out, b: u64| {
        if seen.insert(b) {
            o.case(format!("fmt1 {:016x}", b), hexstr(&format!("{:.1}", f64::from_bits(b).abs())));
        }
    };
    for b in pats {
        emit(o, b);
    }
    for i in 0..n {
        let b = match i % 3 {
            0 => r.range(0., 360.).to_bits(),
            // within two ulps of a multiple of 1/20 (every rounding boundary of one decimal)
            1 => ((r.int(0, 7200) as f64) / 20.).to_bits().wrapping_add(r.below(5)).wrapping_sub(2),
            _ => r.next(),
        };
        emit(o, b);
    }
}

/// the real `Qibla::to_string()` (its number and its label) against the model's text of the implementation's own `degrees()` bits
/// (the angle itself is compared by unit `qibla`)
pub fn unit_qtext(o: &mut Out, tier: &str, r: &mut Rng) {
    let n = sizes(tier, 3000, 100000);
    let mut seen = std::collections::HashSet::new();
    for i in 0..n {
        let mut lat = gen_lat(r, 90.);
        let mut lon = gen_lon(r);
        if i % 5 == 0 {
            // due north / south of the Kaaba and on its antimeridian: 0.0 and 180.0, both labels
            lon = if r.chance(0.5) { 39.823333 } else { -140.176667 };
        }
        if i % 7 == 0 {
            lat = lat.round();
            lon = lon.round();
        }
        let c = Coordinates::new(
            Latitude::try_from(lat).unwrap(),
            Longitude::try_from(lon).unwrap(),
            Elevation::try_from(gen_elev(r)).unwrap(),
        );
        let q = Qibla::new(c);
        if seen.insert(q.degrees().to_bits()) {
            // canonical projection of the printed text: its first number and its label (spacing, the
            // degree sign or added words are layout, which the property does not fix)
            let s = q.to_string();
            let num: String = s.chars().skip_while(|c| !c.is_ascii_digit()).take_while(|c| c.is_ascii_digit() || *c == '.').collect();
            let label = if s.contains("CCW") { "CCW" } else if s.contains("CW") { "CW" } else { "?" };
            o.case(format!("qtext {:016x}", q.degrees().to_bits()), format!("{} {}", num, label));
        }
    }
}

// ---------------------------------------------------------------- bounded (number route and JSON number route)
pub const BTYPES: [&str; 6] = ["Gmt", "Latitude", "Longitude", "Elevation", "Pressure", "Temperature"];

pub fn try_from_f64(ty: &str, v: f64) -> Option<f64> {
    match ty {
        "Gmt" => Gmt::try_from(v).ok().map(f64::from),
        "Latitude" => Latitude::try_from(v).ok().map(f64::from),
        "Longitude" => Longitude::try_from(v).ok().map(f64::from),
        "Elevation" => Elevation::try_from(v).ok().map(f64::from),
        "Pressure" => Pressure::try_from(v).ok().map(f64::from),
        "Temperature" => Temperature::try_from(v).ok().map(f64::from),
        _ => unreachable!(),
    }
}

pub fn from_json(ty: &str, s: &str) -> Option<f64> {
    match ty {
        "Gmt" => serde_json::from_str::<Gmt>(s).ok().map(f64::from),
        "Latitude" => serde_json::from_str::<Latitude>(s).ok().map(f64::from),
        "Longitude" => serde_json::from_str::<Longitude>(s).ok().map(f64::from),
        "Elevation" => serde_json::from_str::<Elevation>(s).ok().map(f64::from),
        "Pressure" => serde_json::from_str::<Pressure>(s).ok().map(f64::from),
        "Temperature" => serde_json::from_str::<Temperature>(s).ok().map(f64::from),
        _ => unreachable!(),
    }
}

pub fn from_text(ty: &str, s: &str) -> Option<f64> {
    match ty {
        "Gmt" => s.parse::<Gmt>().ok().map(f64::from),
        "Latitude" => s.parse::<Latitude>().ok().map(f64::from),
        "Longitude" => s.parse::<Longitude>().ok().map(f64::from),
        "Elevation" => s.parse::<Elevation>().ok().map(f64::from),
        _ => Option::None, // Pressure / Temperature have no FromStr
    }
}

pub fn bounds(ty: &str) -> (f64, f64) {
    match ty {
        "Gmt" => (-12., 12.),
        "Latitude" => (-90., 90.),
        "Longitude" => (-180., 180.),
        "Elevation" => (-420., 8848.),
        "Pressure" => (100., 1050.),
        _ => (-90., 57.),
    }
}

pub fn next_up(x: f64) -> f64 {
    let b = x.to_bits();
    if x == 0. {
        f64::from_bits(1)
    } else if x > 0. {
        f64::from_bits(b + 1)
    } else {
        f64::from_bits(b - 1)
    }
}

pub fn next_down(x: f64) -> f64 {
    -next_up(-x)
}

pub fn interesting_values(ty: &str, r: &mut Rng, n: usize) -> Vec<f64> {
    let (lo, hi) = bounds(ty);
    let mut v = vec![
        lo, hi, next_up(lo), next_down(lo), next_up(hi), next_down(hi), 0., -0., f64::MIN_POSITIVE,
        -f64::MIN_POSITIVE, f64::from_bits(1), -f64::from_bits(1), f64::NAN, -f64::NAN,
        f64::from_bits(0x7ff0_0000_0000_0001), f64::from_bits(0xfff8_0000_dead_beef), f64::INFINITY,
        f64::NEG_INFINITY, f64::MAX, f64::MIN, 1e300, -1e300, 5000., -5000., lo - 1., hi + 1.,
        (lo + hi) / 2.,
    ];
    for _ in 0..n {
        let x = match r.below(5) {
            0 => f64::from_bits(r.next()),
            1 => r.range(lo, hi),
            2 => r.range(lo - (hi - lo), hi + (hi - lo)),
            3 => lo + r.range(-1e-9, 1e-9),
            _ => hi + r.range(-1e-9, 1e-9),
        };
        v.push(x);
    }
    v
}

pub fn unit_bounded(o: &mut Out, tier: &str, r: &mut Rng) {
    let n = sizes(tier, 1500, 100000) as usize;
    for ty in BTYPES {
        for v in interesting_values(ty, r, n) {
            let res = guarded(|| match try_from_f64(ty, v) {
                Some(x) => format!("OK {}", hx(x)),
                Option::None => "ERR".into(),
            });
            o.case(format!("bounded {} {}", ty, hx(v)), res);
            // JSON number route (finite values only: JSON has no NaN/inf literals)
            if v.is_finite() {
                let text = format!("{:?}", v);
                let res = guarded(|| match from_json(ty, &text) {
                    Some(x) if x.to_bits() == v.to_bits() => format!("OK {}", hx(x)),
                    Some(x) => format!("OK {} (from text {})", hx(x), text),
                    Option::None => "ERR".into(),
                });
                o.case(format!("json {} {}", ty, hx(v)), res);
            }
        }
    }
}

pub fn run_unit(name: &str, o: &mut Out, tier: &str, seed: u64) -> bool {
    let mut r = Rng::new(seed ^ name.bytes().fold(0u64, |a, b| a.wrapping_mul(131).wrapping_add(b as u64)));
    match name {
        "angle" => unit_angle(o, tier, &mut r),
        "civil" => unit_civil(o, tier, &mut r),
        "jd" => unit_jd(o, tier, &mut r),
        "astro" => unit_astro(o, tier, &mut r),
        "top" => unit_top(o, tier, &mut r),
        "raw" => unit_raw(o, tier, &mut r),
        "adj" => unit_adj(o, tier, &mut r),
        "extlat" => unit_extlat(o, tier, &mut r),
        "imsaak" => unit_imsaak(o, tier, &mut r),
        "h2t" => unit_h2t(o, tier, &mut r),
        "ptdt" => unit_ptdt(o, tier, &mut r),
        "params" => unit_params(o, tier, &mut r),
        "hijri" => unit_hijri(o, tier, &mut r),
        "daterange" => unit_daterange(o, tier, &mut r),
        "rng" => unit_rng(o, tier, &mut r),
        "qibla" => unit_qibla(o, tier, &mut r),
        "fmt1" => unit_fmt1(o, tier, &mut r),
        "qtext" => unit_qtext(o, tier, &mut r),
        "bounded" => unit_bounded(o, tier, &mut r),
        "cli" => crate::f_cli::unit_cli(o, tier, &mut r),
        "f64cmp" => crate::f_bounded::unit_f64cmp(o, tier, &mut r),
        "parse" => crate::f_bounded::unit_parse(o, tier, &mut r),
        _ => return false,
    }
    true
}
