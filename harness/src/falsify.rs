//! Falsifiers: the properties as worded, evaluated directly on the implementation.
//! Not proofs.  They produce the concrete replay when a proof or the correspondence breaks,
//! and decide the clauses that are statements about the physical sky.
use crate::gen::*;
use crate::rng::Rng;
use serde_json::{json, Value};
use std::collections::{BTreeMap, HashSet};
use std::io::{BufRead, Write};

/// progress of the running falsifier, for the watchdog in main.rs: bumped on every evaluation and
/// on every call of the real single-date API, whose case is remembered so that a call that never
/// returns can be reported with its input
pub static PROGRESS: std::sync::atomic::AtomicU64 = std::sync::atomic::AtomicU64::new(0);
pub static CURRENT: std::sync::Mutex<Option<crate::f_policy::DayCase>> = std::sync::Mutex::new(None);

pub fn begin_case(c: &crate::f_policy::DayCase) {
    if let Ok(mut g) = CURRENT.lock() {
        *g = Some(c.clone());
    }
    PROGRESS.fetch_add(1, std::sync::atomic::Ordering::Relaxed);
}

pub struct Ctx {
    pub evals: u64,
    pub nontrivial: HashSet<u64>,
    pub fails: u64,
    pub samples: Vec<Value>,
    pub branches: BTreeMap<String, u64>,
    pub exhaustive: bool,
    pub nontrivial_extra: u64,
    pub quiet: bool,
    pub fail_lines: Vec<Value>,
    pub shrinker: Option<fn(&mut Ctx, &crate::f_policy::DayCase)>,
    pub out: std::io::Stdout,
}

pub fn hash_str(s: &str) -> u64 {
    let mut h: u64 = 0xcbf29ce484222325;
    for b in s.bytes() {
        h ^= b as u64;
        h = h.wrapping_mul(0x100000001b3);
    }
    h
}

impl Ctx {
    pub fn new() -> Self {
        Ctx {
            evals: 0,
            nontrivial: HashSet::new(),
            fails: 0,
            samples: vec![],
            branches: BTreeMap::new(),
            exhaustive: false,
            nontrivial_extra: 0,
            quiet: false,
            fail_lines: vec![],
            shrinker: None,
            out: std::io::stdout(),
        }
    }
    pub fn eval(&mut self) {
        self.evals += 1;
        PROGRESS.fetch_add(1, std::sync::atomic::Ordering::Relaxed);
    }
    /// record a distinct non-trivial case by its key
    pub fn nontrivial(&mut self, key: &str) {
        self.nontrivial.insert(hash_str(key));
    }
    pub fn branch(&mut self, name: &str) {
        *self.branches.entry(name.to_string()).or_insert(0) += 1;
    }
    pub fn sample(&mut self, v: Value) {
        if self.samples.len() < 4 {
            self.samples.push(v);
        }
    }
    pub fn fail(&mut self, input: Value, observed: String, required: String) {
        self.fails += 1;
        if self.fails <= 40 && !self.quiet {
            self.fail_lines.push(json!({"fail": {"input": input, "observed": observed, "required": required}}));
        }
    }

    /// does `case` still fail under the registered single-case falsifier?
    fn still_fails(f: fn(&mut Ctx, &crate::f_policy::DayCase), case: &crate::f_policy::DayCase) -> Option<Value> {
        let mut c = Ctx::new();
        f(&mut c, case);
        if c.fails > 0 {
            c.fail_lines.into_iter().next()
        } else {
            None
        }
    }

    /// coordinate descent towards plain values (policy None, no rounding, no offsets/intervals, no
    /// weather, sea level, whole-degree site) while the failure persists
    fn shrink_first(&mut self) {
        let f = match self.shrinker {
            Some(f) => f,
            None => return,
        };
        let first = match self.fail_lines.first() {
            Some(v) => v.clone(),
            None => return,
        };
        let mut case = match crate::f_policy::DayCase::from_json(&first["fail"]["input"]) {
            Some(c) => c,
            None => return,
        };
        if first["fail"]["input"].get("finding_class").is_some() {
            return;
        }
        let mut best: Option<Value> = None;
        use islamic_prayer_times::*;
        let steps: Vec<Box<dyn Fn(&crate::f_policy::DayCase) -> crate::f_policy::DayCase>> = vec![
            Box::new(|c| c.with(|p| p.extreme_latitude_method = ExtremeLatitudeMethod::None)),
            Box::new(|c| c.with(|p| p.round_seconds = RoundSeconds::None)),
            Box::new(|c| c.with(|p| for q in crate::gen::PRAYERS { *p.minutes.get_mut(&q).unwrap() = 0.; })),
            Box::new(|c| c.with(|p| { *p.intervals.get_mut(&Prayer::Fajr).unwrap() = 0.; *p.intervals.get_mut(&Prayer::Imsaak).unwrap() = 0.; })),
            Box::new(|c| c.with(|p| *p.intervals.get_mut(&Prayer::Isha).unwrap() = 0.)),
            Box::new(|c| c.with(|p| *p.angles.get_mut(&Prayer::Imsaak).unwrap() = 1.5)),
            Box::new(|c| c.with(|p| { let a = p.angles[&Prayer::Fajr].round(); *p.angles.get_mut(&Prayer::Fajr).unwrap() = a; let b = p.angles[&Prayer::Isha].round(); *p.angles.get_mut(&Prayer::Isha).unwrap() = b; })),
            Box::new(|c| c.with(|p| p.asr_shadow_ratio = AsrShadowRatio::Shafi)),
            Box::new(|c| crate::f_policy::DayCase { w: None, ..c.clone() }),
            Box::new(|c| { let mut d = c.clone(); d.l.coords.elevation = Elevation::try_from(0.).unwrap(); d }),
            Box::new(|c| { let mut d = c.clone(); d.l.coords.latitude = Latitude::try_from(f64::from(c.l.coords.latitude).round()).unwrap(); d }),
            Box::new(|c| { let mut d = c.clone(); d.l.coords.longitude = Longitude::try_from(f64::from(c.l.coords.longitude).round()).unwrap(); d }),
            Box::new(|c| { let mut d = c.clone(); d.l.gmt = Gmt::try_from((f64::from(c.l.coords.longitude) / 15.).round().clamp(-12., 12.)).unwrap(); d }),
        ];
        for _ in 0..2 {
            for st in &steps {
                let cand = st(&case);
                if let Some(v) = Ctx::still_fails(f, &cand) {
                    case = cand;
                    best = Some(v);
                }
            }
        }
        if let Some(mut v) = best {
            v["fail"]["shrunk_from"] = first["fail"]["input"]["req"].clone();
            self.fail_lines.insert(0, v);
        }
    }

    pub fn finish(&mut self, extra: Value) {
        if !self.quiet {
            self.shrink_first();
            for l in &self.fail_lines {
                writeln!(self.out.lock(), "{}", l).unwrap();
            }
        }
        let l = json!({"stats": {
            "evaluations": self.evals,
            "distinct_nontrivial": self.nontrivial.len() as u64 + self.nontrivial_extra,
            "failures": self.fails,
            "branches": self.branches,
            "samples": self.samples,
            "exhaustive": self.exhaustive,
            "extra": extra,
        }});
        writeln!(self.out.lock(), "{}", l).unwrap();
    }
}

pub fn ymd(rd: i64) -> String {
    date_of_rd(rd).to_string()
}

/// inputs handed over by ./check: JSON objects (replay / corpus) or protocol request lines
/// (the minimised correspondence disagreements)
pub fn read_inputs(corpus: &str) -> (Vec<Value>, Vec<String>) {
    let mut js = vec![];
    let mut reqs = vec![];
    if corpus != "-" {
        if let Ok(s) = std::fs::read_to_string(corpus) {
            for l in s.lines() {
                if let Ok(v) = serde_json::from_str::<Value>(l) {
                    js.push(v);
                }
            }
        }
    }
    for l in std::io::stdin().lock().lines().map_while(Result::ok) {
        let l = l.trim().to_string();
        if l.is_empty() {
            continue;
        }
        if l.starts_with('{') {
            if let Ok(v) = serde_json::from_str::<Value>(&l) {
                js.push(v);
            }
        } else {
            reqs.push(l);
        }
    }
    (js, reqs)
}

pub fn run(pid: &str, tier: &str, seed: u64, corpus: &str) -> bool {
    let (js, reqs) = read_inputs(corpus);
    let mut ctx = Ctx::new();
    let mut r = Rng::new(seed ^ hash_str(pid));
    let replay_only = tier == "replay";
    match pid {
        "C01" => crate::f_astro::c01(&mut ctx, tier, &mut r, &js, &reqs, replay_only),
        "C02" => crate::f_astro::c02(&mut ctx, tier, &mut r, &js, &reqs, replay_only),
        "C03" => crate::f_astro::c03(&mut ctx, tier, &mut r, &js, &reqs, replay_only),
        "C04" => crate::f_astro::c04(&mut ctx, tier, &mut r, &js, &reqs, replay_only),
        "C05" => crate::f_astro::c05(&mut ctx, tier, &mut r, &js, &reqs, replay_only),
        "C06" => crate::f_astro::c06(&mut ctx, tier, &mut r, &js, &reqs, replay_only),
        "C13" => crate::f_astro::c13(&mut ctx, tier, &mut r, &js, &reqs, replay_only),
        "C20" => crate::f_astro::c20(&mut ctx, tier, &mut r, &js, &reqs, replay_only),
        "C07" => crate::f_policy::c07(&mut ctx, tier, &mut r, &js, &reqs, replay_only),
        "C08" => crate::f_policy::c08(&mut ctx, tier, &mut r, &js, &reqs, replay_only),
        "C09" => crate::f_goodday::c09(&mut ctx, tier, &mut r, &js, &reqs, replay_only),
        "C10" => crate::f_params::c10(&mut ctx, tier, &mut r, &js, &reqs, replay_only),
        "C12" => crate::f_params::c12(&mut ctx, tier, &mut r, &js, &reqs, replay_only),
        "C15" => crate::f_block::c15(&mut ctx, tier, &mut r, &js, &reqs, replay_only),
        "C18" => crate::f_bounded::c18(&mut ctx, tier, &mut r, &js, &reqs, replay_only),
        "C19" => crate::f_cli::c19(&mut ctx, tier, &mut r, &js, &reqs, replay_only),
        "C16" => crate::f_params::c16(&mut ctx, tier, &mut r, &js, &reqs, replay_only),
        "C11" => crate::f_policy::c11(&mut ctx, tier, &mut r, &js, &reqs, replay_only),
        "C14" => crate::f_range::c14(&mut ctx, tier, &mut r, &js, &reqs, replay_only),
        "C17" => crate::f_hijri::c17(&mut ctx, tier, &mut r, &js, &reqs, replay_only),
        _ => return false,
    }
    true
}
