//! C17: Hijri conversion is the tabular Islamic calendar, day for day.
use crate::falsify::*;
use crate::gen::*;
use crate::rng::Rng;
use crate::units::RD_MAX;
use chrono::Datelike;
use islamic_prayer_times::*;
use serde_json::{json, Value};
use std::panic::{catch_unwind, AssertUnwindSafe};

const EPOCH: i64 = 227015; // R.D. of 1 Muharram 1 A.H. (Friday 622-07-16 Julian = 0622-07-19 proleptic Gregorian)

fn fdiv(a: i64, b: i64) -> i64 {
    a.div_euclid(b)
}

/// Reingold-Dershowitz, Calendrical Calculations: fixed-from-islamic
fn fixed_from_islamic(y: i64, m: i64, d: i64) -> i64 {
    d + 29 * (m - 1) + fdiv(6 * m - 1, 11) + (y - 1) * 354 + fdiv(3 + 11 * y, 30) + EPOCH - 1
}

/// islamic-from-fixed (closed form)
pub fn islamic_from_fixed(g: i64) -> (i64, i64, i64) {
    let y = fdiv(30 * (g - EPOCH) + 10646, 10631);
    let prior = g - fixed_from_islamic(y, 1, 1);
    let m = fdiv(11 * prior + 330, 325);
    let d = g - fixed_from_islamic(y, m, 1) + 1;
    (y, m, d)
}

/// year as the library reports it: (magnitude, before-Hijra flag); astronomical year 0 = 1 B.H.
fn reported_year(y: i64) -> (i64, bool) {
    if y <= 0 {
        (1 - y, true)
    } else {
        (y, false)
    }
}

const WEEKDAYS: [&str; 7] = ["Ahad", "Ithnain", "Thulatha", "Arbiaa", "Khamees", "Jumaah", "Sabt"];
const MONTHS: [&str; 12] = [
    "Muharram", "Safar", "Rabia Awal", "Rabia Thani", "Jumada Awal", "Jumada Thani", "Rajab", "Shaaban", "Ramadan", "Shawwal",
    "Dhul Qiddah", "Dhul Hijjah",
];

/// the printed form "<weekday>, <month> <day>, <year> A.H.|B.H." from the independent calendar
pub fn expected_display(rd: i64) -> String {
    let (y, m, d) = islamic_from_fixed(rd);
    let (ry, pre) = reported_year(y);
    let wd = rd.rem_euclid(7) as usize; // day number 1 = Monday: 0 = Sunday
    format!("{}, {} {}, {} {}", WEEKDAYS[wd], MONTHS[(m - 1) as usize], d, ry, if pre { "B.H." } else { "A.H." })
}

thread_local! {
    /// the date converted just before on this thread (a result that depends on it is a defect; the replay
    /// file records it so that the sequence can be repeated)
    static LAST_RD: std::cell::Cell<Option<i64>> = const { std::cell::Cell::new(None) };
}

fn observe(rd: i64) -> Result<(i64, i64, i64, bool, i64, String), String> {
    let d = date_of_rd(rd);
    catch_unwind(AssertUnwindSafe(|| {
        let h = HijriDate::from(d);
        (h.year() as i64, h.month() as u8 as i64, h.day() as i64, h.pre_epoch(), h.day_of_week() as u8 as i64, h.to_string())
    }))
    .map_err(|_| "panic".to_string())
}

fn one(ctx: &mut Ctx, rd: i64) {
    ctx.eval();
    let (y, m, d) = islamic_from_fixed(rd);
    let (ry, pre) = reported_year(y);
    let civil_wd = date_of_rd(rd).weekday().num_days_from_sunday() as i64 + 1; // 1 = Sunday (Ahad)
    let prev = LAST_RD.with(|c| c.replace(Some(rd)));
    let mut input = json!({"kind": "date", "rd": rd, "date": ymd(rd)});
    if let Some(pr) = prev {
        input["after_rd"] = json!(pr);
    }
    let want = format!("{} {} {} pre={} weekday={}", ry, m, d, pre, civil_wd);
    match observe(rd) {
        Err(e) => ctx.fail(input, e, want),
        Ok((oy, om, od, opre, owd, text)) => {
            if (oy, om, od, opre, owd) != (ry, m, d, pre, civil_wd) {
                ctx.fail(input, format!("{} {} {} pre={} weekday={}", oy, om, od, opre, owd), want);
            } else {
                // printing: the property fixes no wording (names, order, punctuation); the printed date must
                // at least carry the day and the year it was asked to print
                let nums: Vec<i64> = text.split(|ch: char| !ch.is_ascii_digit()).filter(|t| !t.is_empty()).filter_map(|t| t.parse().ok()).collect();
                if text.trim().is_empty() || !nums.contains(&od) || !nums.contains(&oy) {
                    ctx.fail(input, format!("printed `{}`", text), format!("a date text carrying day {} and year {} (e.g. `{}`)", od, oy, expected_display(rd)));
                }
            }
        }
    }
}

pub fn c17(ctx: &mut Ctx, tier: &str, r: &mut Rng, js: &[Value], _reqs: &[String], replay_only: bool) {
    for v in js {
        if let Some(rd) = v.get("rd").and_then(|x| x.as_i64()) {
            // first on a fresh history, then after the date that preceded it in the recorded run
            one(ctx, rd);
            if let Some(pr) = v.get("after_rd").and_then(|x| x.as_i64()) {
                let _ = observe(pr);
                LAST_RD.with(|c| c.set(Some(pr)));
                one(ctx, rd);
            }
        }
    }
    if replay_only {
        ctx.finish(json!({}));
        return;
    }
    // the whole quantifier: every date of the common era the library can represent as asked
    let mut prev: Option<(i64, i64, i64)> = None;
    let mut lens: std::collections::BTreeMap<String, u64> = Default::default();
    for rd in 1..=RD_MAX {
        one(ctx, rd);
        // structural consequences on the independent side (sanity of the oracle itself)
        let cur = islamic_from_fixed(rd);
        if let Some(p) = prev {
            let succ = (cur.0 == p.0 && cur.1 == p.1 && cur.2 == p.2 + 1)
                || (cur.0 == p.0 && cur.1 == p.1 + 1 && cur.2 == 1 && (p.2 == 29 || p.2 == 30))
                || (cur.0 == p.0 + 1 && cur.1 == 1 && cur.2 == 1 && p.1 == 12);
            if !succ {
                ctx.fail(json!({"kind": "oracle", "rd": rd}), format!("{:?} after {:?}", cur, p), "successor day".into());
            }
            if cur.2 == 1 {
                *lens.entry(format!("m{}:{}", p.1, p.2)).or_insert(0) += 1;
            }
        }
        prev = Some(cur);
    }
    // the same dates in other orders (the result is a function of the date, not of what was converted
    // before it on this thread): descending runs around year ends, and random jumps
    let n_jump = sz!(tier, 200_000, 2_000_000);
    for _ in 0..n_jump {
        one(ctx, r.int(1, RD_MAX));
    }
    for k in 0..(sz!(tier, 2000, 20000)) {
        // 1 Muharram of a random year, then the days before it, descending; then forwards across it again
        let y = r.int(-640, 9666);
        let start = ((y - 1) * 354 + (3 + 11 * y).div_euclid(30) + 227015).clamp(40, RD_MAX - 40);
        for d in (start - 35..=start + 2).rev() {
            one(ctx, d);
        }
        if k % 2 == 0 {
            for d in start - 2..=start + 2 {
                one(ctx, d);
            }
        }
    }
    ctx.exhaustive = true;
    ctx.nontrivial_extra = RD_MAX as u64; // every date is a distinct instance of the quantifier
    // all dates are distinct and non-trivial (each is a separate instance of the quantifier)
    for k in 0..4 {
        ctx.sample(json!({"rd": 1 + k * 1217352, "date": ymd(1 + k * 1217352), "hijri": format!("{:?}", islamic_from_fixed(1 + k * 1217352))}));
    }
    let n = RD_MAX as usize;
    ctx.finish(json!({"month_lengths_seen": lens, "dates": n}));
    // distinct count: all of them
}
