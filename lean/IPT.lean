import IPT.Model.Times
import IPT.Model.Hijri
import IPT.Model.Range
import IPT.Model.Qibla
import IPT.Model.Bounded
