/- Proleptic Gregorian calendar arithmetic over ℤ (the contract of chrono's NaiveDate that the
   code relies on: year/month/day/ordinal, plus or minus days, leap_year, day difference).  Day numbers are
   rata die: 0001-01-01 = 1.  Validated exhaustively against chrono for 0001-01-01..9999-12-31. -/
namespace IPT

structure Date where
  y : Int
  m : Int
  d : Int
  deriving DecidableEq, Repr, Inhabited

def isLeap (y : Int) : Bool := (y % 4 == 0 && y % 100 != 0) || y % 400 == 0

def daysInYear (y : Int) : Int := if isLeap y then 366 else 365

def daysBeforeMonth (y m : Int) : Int :=
  (367 * m - 362) / 12 + (if m ≤ 2 then 0 else if isLeap y then -1 else -2)

def daysBeforeYear (y : Int) : Int :=
  365 * (y - 1) + (y - 1) / 4 - (y - 1) / 100 + (y - 1) / 400

def toRD (dt : Date) : Int := daysBeforeYear dt.y + daysBeforeMonth dt.y dt.m + dt.d

def ordinal (dt : Date) : Int := daysBeforeMonth dt.y dt.m + dt.d

def yearOfRD (n : Int) : Int :=
  let d0 := n - 1
  let n400 := d0 / 146097
  let d1 := d0 % 146097
  let n100 := d1 / 36524
  let d2 := d1 % 36524
  let n4 := d2 / 1461
  let d3 := d2 % 1461
  let n1 := d3 / 365
  let y := 400 * n400 + 100 * n100 + 4 * n4 + n1
  if n100 = 4 ∨ n1 = 4 then y else y + 1

def fromRD (n : Int) : Date :=
  let y := yearOfRD n
  let prior := n - toRD ⟨y, 1, 1⟩
  let corr := if n < toRD ⟨y, 3, 1⟩ then 0 else if isLeap y then 1 else 2
  let m := (12 * (prior + corr) + 373) / 367
  ⟨y, m, n - toRD ⟨y, m, 1⟩ + 1⟩

/-- civil weekday, 0 = Sunday (rata die 1 = Monday 0001-01-01) -/
def weekdayRD (n : Int) : Int := n % 7

end IPT
