/- IEEE-754 binary64 at the bit level (patterns as Nat < 2^64): classification, the comparison
   order used by `RangeInclusive::contains`, the exact value (scaled by 2^1074 to stay in ℤ), and a
   correctly rounded decimal → binary64 conversion (the contract of Rust's `str::parse::<f64>` and of
   serde_json with `float_roundtrip`).  Import-free; validated against Rust and against Lean's own
   Float by the correspondence units `f64cmp` and `parse`. -/
namespace IPT.F64

def expBits (b : Nat) : Nat := (b / 2 ^ 52) % 2048
def manBits (b : Nat) : Nat := b % 2 ^ 52
def signBit (b : Nat) : Bool := decide (2 ^ 63 ≤ b % 2 ^ 64)
/-- magnitude bits (exponent and mantissa) -/
def magBits (b : Nat) : Nat := b % 2 ^ 63

def isNaN (b : Nat) : Bool := expBits b == 2047 && manBits b != 0
def isInf (b : Nat) : Bool := expBits b == 2047 && manBits b == 0
def isFinite (b : Nat) : Bool := expBits b != 2047

/-- sign-magnitude ordering key: monotone in the value on non-NaN patterns, −0 and +0 both 0 -/
def key (b : Nat) : Int := if signBit b then -(magBits b : Int) else (magBits b : Int)

/-- `a <= b` on f64 -/
def le (a b : Nat) : Bool := !isNaN a && !isNaN b && decide (key a ≤ key b)
/-- `a < b` on f64 -/
def lt (a b : Nat) : Bool := !isNaN a && !isNaN b && decide (key a < key b)
/-- `a == b` on f64 -/
def eq (a b : Nat) : Bool := !isNaN a && !isNaN b && decide (key a = key b)

/-- |value| · 2^1074 of a finite pattern, from its magnitude bits -/
def scaledMag (m : Nat) : Nat :=
  let e := m / 2 ^ 52
  let f := m % 2 ^ 52
  if e = 0 then f else (2 ^ 52 + f) * 2 ^ (e - 1)

/-- value · 2^1074 of a finite pattern -/
def scaled (b : Nat) : Int := if signBit b then -(scaledMag (magBits b) : Int) else (scaledMag (magBits b) : Int)

/-- `(lo..=hi).contains(&v)` on bit patterns -/
def contains (lo hi v : Nat) : Bool := le lo v && le v hi

/-- Bounded::try_from at the bit level: the stored pattern is the input pattern -/
def tryFromBits (lo hi v : Nat) : Option Nat := if contains lo hi v then some v else none

-- ------------------------------------------------------------ decimal → binary64, correctly rounded

def bitLen : Nat → Nat
  | 0 => 0
  | n + 1 => Nat.log2 (n + 1) + 1

/-- round-half-even of num/den (den > 0) to a Nat -/
def roundDivEven (num den : Nat) : Nat :=
  let q := num / den
  let r := num % den
  if 2 * r < den then q else if 2 * r > den then q + 1 else if q % 2 = 0 then q else q + 1

/-- the binary64 magnitude bits nearest (ties to even) to the positive rational num/den -/
def magOfRat (num den : Nat) : Nat :=
  if num = 0 then 0 else
  -- e2 := floor(log2(num/den)), via bit lengths (off by at most one, corrected below)
  let e0 : Int := (bitLen num : Int) - (bitLen den : Int)
  -- scale so that the quotient has 53 or 54 significant bits: q = num * 2^(52 - e) / den
  let mk (e : Int) : Nat × Nat :=          -- numerator, denominator of value / 2^(e-52)
    let sh : Int := 52 - e
    if sh ≥ 0 then (num * 2 ^ sh.toNat, den) else (num, den * 2 ^ (-sh).toNat)
  let e1 : Int := if (mk e0).1 < (mk e0).2 * 2 ^ 52 then e0 - 1 else e0   -- now 2^52 ≤ q < 2^53 (or 2^54)
  let e : Int := if (mk e1).1 ≥ (mk e1).2 * 2 ^ 53 then e1 + 1 else e1
  if e < -1022 then
    -- subnormal range: quantum 2^-1074
    let m := roundDivEven (num * 2 ^ 1074) den
    m                                        -- m = 2^52 rounds up into the smallest normal: bits coincide
  else
    let nd := mk e
    let m := roundDivEven nd.1 nd.2          -- in [2^52, 2^53]
    let (m, e) := if m = 2 ^ 53 then (2 ^ 52, e + 1) else (m, e)
    if e > 1023 then 2047 * 2 ^ 52           -- overflow to infinity
    else ((e + 1023).toNat) * 2 ^ 52 + (m - 2 ^ 52)

/-- a parsed decimal: sign, digit string as a number, power of ten -/
structure Dec where
  neg : Bool
  digits : Nat
  exp10 : Int
  deriving Repr, DecidableEq

def Dec.toBits (d : Dec) : Nat :=
  let mag := if d.exp10 ≥ 0 then magOfRat (d.digits * 10 ^ d.exp10.toNat) 1
             else magOfRat d.digits (10 ^ (-d.exp10).toNat)
  if d.neg then 2 ^ 63 + mag else mag

inductive Parsed where
  | num (d : Dec)
  | inf (neg : Bool)
  | nan (neg : Bool)
  | bad
  deriving DecidableEq

def isDigit (c : Char) : Bool := '0' ≤ c && c ≤ '9'
def digitVal (c : Char) : Nat := c.toNat - '0'.toNat

def takeDigits (cs : List Char) : List Char × List Char := (cs.takeWhile isDigit, cs.dropWhile isDigit)
def digitsToNat (cs : List Char) : Nat := cs.foldl (fun a c => 10 * a + digitVal c) 0

def lower (cs : List Char) : String := String.ofList (cs.map Char.toLower)

/-- exponent part `e[+-]?digits+`; returns the exponent (clamped to ±100000) and the rest -/
def parseExp (cs : List Char) : Option (Int × List Char) :=
  match cs with
  | c :: rest =>
    if c == 'e' || c == 'E' then
      let (neg, rest) := match rest with
        | '-' :: r => (true, r)
        | '+' :: r => (false, r)
        | r => (false, r)
      let (ds, rest) := takeDigits rest
      if ds.isEmpty then none
      else
        -- the exponent's VALUE counts: leading zeros are harmless ("1e00000001" is 10); more than 7
        -- significant digits are certainly out of range
        let sig := ds.dropWhile (· == '0')
        let v := digitsToNat (sig.take 7)
        let v := if sig.length > 7 then 10000000 else v
        some (if neg then -(v : Int) else (v : Int), rest)
    else none
  | [] => none

/-- the text after a leading `.`, if there is one -/
def splitDot : List Char → Option (List Char)
  | c :: r => if c == '.' then some r else none
  | [] => none

/-- Rust's `f64::from_str` grammar after the sign: (inf | infinity | nan | digits [. digits*] | . digits+) exp? -/
def rustBody (neg : Bool) (cs : List Char) : Parsed :=
  let lw := lower cs
  if lw == "inf" || lw == "infinity" then .inf neg
  else if lw == "nan" then .nan neg
  else
    let (ip, rest) := takeDigits cs
    let (fp, rest) := match splitDot rest with
      | some r => takeDigits r
      | none => ([], rest)
    if ip.isEmpty && fp.isEmpty then .bad
    else
      let mant := digitsToNat (ip ++ fp)
      let base : Int := -(fp.length : Int)
      match rest with
      | [] => .num ⟨neg, mant, base⟩
      | _ => match parseExp rest with
        | some (e, []) => .num ⟨neg, mant, base + e⟩
        | _ => .bad

/-- Rust's `f64::from_str` grammar: [+-]? then `rustBody` -/
def parseRust (s : String) : Parsed :=
  match s.toList with
  | '-' :: r => rustBody true r
  | '+' :: r => rustBody false r
  | r => rustBody false r

/-- JSON number grammar after the sign: (0 | [1-9] digits*) (. digits+)? ([eE] [+-]? digits+)? -/
def jsonBody (neg : Bool) (cs : List Char) : Parsed :=
  let (ip, rest) := takeDigits cs
  if ip.isEmpty then .bad
  else if ip.length > 1 && ip.head! == '0' then .bad
  else
    let frac : Option (List Char × List Char) := match splitDot rest with
      | some r => if (takeDigits r).1.isEmpty then none else some (takeDigits r)
      | none => some ([], rest)
    match frac with
    | none => .bad
    | some (fp, rest) =>
      let mant := digitsToNat (ip ++ fp)
      let base : Int := -(fp.length : Int)
      match rest with
      | [] => .num ⟨neg, mant, base⟩
      | _ => match parseExp rest with
        | some (e, []) => .num ⟨neg, mant, base + e⟩
        | _ => .bad

/-- JSON number grammar (RFC 8259): -? then `jsonBody` -/
def parseJson (s : String) : Parsed :=
  match s.toList with
  | '-' :: r => jsonBody true r
  | r => jsonBody false r

/-- bits of a parsed literal; huge exponents saturate without computing 10^e -/
def Parsed.bits? : Parsed → Option Nat
  | .num d =>
    if d.digits = 0 then some (if d.neg then 2 ^ 63 else 0)
    else if d.exp10 > 400 then some ((if d.neg then 2 ^ 63 else 0) + 2047 * 2 ^ 52)
    else if d.exp10 + (bitLen d.digits : Int) < -1200 then some (if d.neg then 2 ^ 63 else 0)
    else some d.toBits
  | .inf neg => some ((if neg then 2 ^ 63 else 0) + 2047 * 2 ^ 52)
  | .nan neg => some ((if neg then 2 ^ 63 else 0) + 2047 * 2 ^ 52 + 2 ^ 51)
  | .bad => none

/-- the text route of a validated newtype (`Parsable::parse`, i.e. `FromStr`, also what the CLI's value
    parsers call): `s.parse::<f64>()`, then the range check on the parsed value -/
def textRoute (lo hi : Nat) (s : String) : Option Nat :=
  match (parseRust s).bits? with
  | some b => tryFromBits lo hi b
  | none => none

/-- the JSON route: a serde_json number (no inf/nan literals; a number too large for f64 is an error),
    then - when the type carries `#[serde(try_from = "f64")]` - the same range check -/
def jsonRoute (checked : Bool) (lo hi : Nat) (s : String) : Option Nat :=
  match (parseJson s).bits? with
  | some b => if !isFinite b then none else if checked then tryFromBits lo hi b else some b
  | none => none

end IPT.F64
