import IPT.Model.Cli
/- A decoder for the JSON document the tool writes with -o (the inverse of `renderRange`): the strict
   grammar serde_json's compact writer emits for BTreeMap<NaiveDate, BTreeMap<Prayer, Result<PrayerTime,()>>>,
   read character by character.  It is the model-side counterpart of "the JSON written by the tool
   decodes to ..." (C19): `Thm/C19.decode_render` proves decode ∘ render = id for every well-formed
   result, hence that the document determines the result (`render_injective`).  The correspondence
   ties the bytes of the real binary's file to `renderRange` (unit `cli`), and the driver runs this
   decoder on the model's own rendering for every cli request (`dec=` field). -/
namespace IPT

/-- `s` with the literal `p` removed from its front, if it starts with it -/
def stripPrefix? : List Char → List Char → Option (List Char)
  | [], s => some s
  | _ :: _, [] => none
  | c :: p, d :: s => if c = d then stripPrefix? p s else none

/-- exactly `k` decimal digits -/
def takeNum (k : Nat) (s : List Char) : Option (Nat × List Char) :=
  if k ≤ s.length ∧ (s.take k).all Char.isDigit = true then
    some (Nat.ofDigitChars 10 (s.take k) 0, s.drop k)
  else none

def decodeBool (s : List Char) : Option (Bool × List Char) :=
  match stripPrefix? "true".toList s with
  | some r => some (true, r)
  | none =>
    match stripPrefix? "false".toList s with
    | some r => some (false, r)
    | none => none

/-- `{"Err":null}` or `{"Ok":{"time":"hh:mm:ss","extreme":b}}` -/
def decodePT (s : List Char) : Option (Option PT × List Char) :=
  match stripPrefix? "{\"Err\":null}".toList s with
  | some r => some (none, r)
  | none =>
    match stripPrefix? "{\"Ok\":{\"time\":\"".toList s with
    | none => none
    | some s =>
    match takeNum 2 s with
    | none => none
    | some (h, s) =>
    match stripPrefix? [':'] s with
    | none => none
    | some s =>
    match takeNum 2 s with
    | none => none
    | some (m, s) =>
    match stripPrefix? [':'] s with
    | none => none
    | some s =>
    match takeNum 2 s with
    | none => none
    | some (sec, s) =>
    match stripPrefix? "\",\"extreme\":".toList s with
    | none => none
    | some s =>
    match decodeBool s with
    | none => none
    | some (e, s) =>
    match stripPrefix? "}}".toList s with
    | none => none
    | some s => some (some ⟨⟨h, m, sec⟩, e⟩, s)

/-- one `"Key":<entry>` member, preceded by the literal `key` (which carries the punctuation) -/
def decodeMember (key : String) (s : List Char) : Option (Option PT × List Char) :=
  match stripPrefix? key.toList s with
  | none => none
  | some s => decodePT s

/-- the seven members in `Prayer` order (serde's BTreeMap order) -/
def decodeDay (s : List Char) : Option (DayTimes × List Char) :=
  match decodeMember "{\"Imsaak\":" s with
  | none => none
  | some (im, s) =>
  match decodeMember ",\"Fajr\":" s with
  | none => none
  | some (f, s) =>
  match decodeMember ",\"Shurooq\":" s with
  | none => none
  | some (sh, s) =>
  match decodeMember ",\"Dhuhr\":" s with
  | none => none
  | some (d, s) =>
  match decodeMember ",\"Asr\":" s with
  | none => none
  | some (a, s) =>
  match decodeMember ",\"Maghrib\":" s with
  | none => none
  | some (m, s) =>
  match decodeMember ",\"Isha\":" s with
  | none => none
  | some (i, s) =>
  match stripPrefix? ['}'] s with
  | none => none
  | some s => some (⟨im, f, sh, d, a, m, i⟩, s)

/-- `"YYYY-MM-DD"` as a day number -/
def decodeDate (s : List Char) : Option (Int × List Char) :=
  match stripPrefix? ['"'] s with
  | none => none
  | some s =>
  match takeNum 4 s with
  | none => none
  | some (y, s) =>
  match stripPrefix? ['-'] s with
  | none => none
  | some s =>
  match takeNum 2 s with
  | none => none
  | some (m, s) =>
  match stripPrefix? ['-'] s with
  | none => none
  | some s =>
  match takeNum 2 s with
  | none => none
  | some (d, s) =>
  match stripPrefix? ['"'] s with
  | none => none
  | some s => some (toRD ⟨y, m, d⟩, s)

/-- one `"date":{day}` entry -/
def decodeEntry (s : List Char) : Option ((Int × DayTimes) × List Char) :=
  match decodeDate s with
  | none => none
  | some (rd, s) =>
  match stripPrefix? [':'] s with
  | none => none
  | some s =>
  match decodeDay s with
  | none => none
  | some (d, s) => some ((rd, d), s)

/-- entries separated by commas (fuel: the number of entries cannot exceed the number of characters) -/
def decodeEntries : Nat → List Char → Option (List (Int × DayTimes) × List Char)
  | 0, _ => none
  | fuel + 1, s =>
    match decodeEntry s with
    | none => none
    | some (e, s) =>
      match s with
      | ',' :: s' =>
        match decodeEntries fuel s' with
        | none => none
        | some (rest, s'') => some (e :: rest, s'')
      | _ => some ([e], s)

/-- the whole document: `{}` or `{entry,...,entry}` with nothing after the closing brace -/
def decodeRangeL (s : List Char) : Option (List (Int × DayTimes)) :=
  match stripPrefix? ['{'] s with
  | none => none
  | some s' =>
    if s' = ['}'] then some []
    else
      match decodeEntries s'.length s' with
      | none => none
      | some (l, r) => if r = ['}'] then some l else none

def decodeRange (s : String) : Option (List (Int × DayTimes)) := decodeRangeL s.toList

/-! the canonical form (`renderRangeCanon`: compact, object keys in byte order - what re-serialising the
    decoded JSON value gives); the check compares canonical forms when the bytes of two documents differ -/

/-- `{"Err":null}` or `{"Ok":{"extreme":b,"time":"hh:mm:ss"}}` -/
def decodePTCanon (s : List Char) : Option (Option PT × List Char) :=
  match stripPrefix? "{\"Err\":null}".toList s with
  | some r => some (none, r)
  | none =>
    match stripPrefix? "{\"Ok\":{\"extreme\":".toList s with
    | none => none
    | some s =>
    match decodeBool s with
    | none => none
    | some (e, s) =>
    match stripPrefix? ",\"time\":\"".toList s with
    | none => none
    | some s =>
    match takeNum 2 s with
    | none => none
    | some (h, s) =>
    match stripPrefix? [':'] s with
    | none => none
    | some s =>
    match takeNum 2 s with
    | none => none
    | some (m, s) =>
    match stripPrefix? [':'] s with
    | none => none
    | some s =>
    match takeNum 2 s with
    | none => none
    | some (sec, s) =>
    match stripPrefix? "\"}}".toList s with
    | none => none
    | some s => some (some ⟨⟨h, m, sec⟩, e⟩, s)

def decodeMemberCanon (key : String) (s : List Char) : Option (Option PT × List Char) :=
  match stripPrefix? key.toList s with
  | none => none
  | some s => decodePTCanon s

/-- the seven members in byte order of their names -/
def decodeDayCanon (s : List Char) : Option (DayTimes × List Char) :=
  match decodeMemberCanon "{\"Asr\":" s with
  | none => none
  | some (a, s) =>
  match decodeMemberCanon ",\"Dhuhr\":" s with
  | none => none
  | some (d, s) =>
  match decodeMemberCanon ",\"Fajr\":" s with
  | none => none
  | some (f, s) =>
  match decodeMemberCanon ",\"Imsaak\":" s with
  | none => none
  | some (im, s) =>
  match decodeMemberCanon ",\"Isha\":" s with
  | none => none
  | some (i, s) =>
  match decodeMemberCanon ",\"Maghrib\":" s with
  | none => none
  | some (m, s) =>
  match decodeMemberCanon ",\"Shurooq\":" s with
  | none => none
  | some (sh, s) =>
  match stripPrefix? ['}'] s with
  | none => none
  | some s => some (⟨im, f, sh, d, a, m, i⟩, s)

def decodeEntryCanon (s : List Char) : Option ((Int × DayTimes) × List Char) :=
  match decodeDate s with
  | none => none
  | some (rd, s) =>
  match stripPrefix? [':'] s with
  | none => none
  | some s =>
  match decodeDayCanon s with
  | none => none
  | some (d, s) => some ((rd, d), s)

def decodeEntriesCanon : Nat → List Char → Option (List (Int × DayTimes) × List Char)
  | 0, _ => none
  | fuel + 1, s =>
    match decodeEntryCanon s with
    | none => none
    | some (e, s) =>
      match s with
      | ',' :: s' =>
        match decodeEntriesCanon fuel s' with
        | none => none
        | some (rest, s'') => some (e :: rest, s'')
      | _ => some ([e], s)

def decodeRangeCanonL (s : List Char) : Option (List (Int × DayTimes)) :=
  match stripPrefix? ['{'] s with
  | none => none
  | some s' =>
    if s' = ['}'] then some []
    else
      match decodeEntriesCanon s'.length s' with
      | none => none
      | some (l, r) => if r = ['}'] then some l else none

def decodeRangeCanon (s : String) : Option (List (Int × DayTimes)) := decodeRangeCanonL s.toList

end IPT
