import IPT.Model.Hours
import IPT.Gen.Lists
/- prayer_times/ext_lat.rs: the extreme-latitude policy layer and the interval post-pass.
   RefCell mutation becomes state passing (order of writes kept); every `unwrap` that can fail
   is an `Except Panic` branch. -/
namespace IPT
variable {α : Type} [Add α] [Sub α] [Mul α] [Div α] [Neg α] [OfScientific α] [Sc α]

def PH.conv (v : α) : PH α := ⟨v, false⟩
def PH.ext (v : α) : PH α := ⟨v, true⟩

def Hours.toPH (h : Hours α) : PHours α :=
  { fajr := h.fajr.map PH.conv, shur := h.shur.map PH.conv, dhuhr := h.dhuhr.map PH.conv,
    asr := h.asr.map PH.conv, magh := h.magh.map PH.conv, isha := h.isha.map PH.conv }

def PHours.hasInv (h : PHours α) : Bool :=
  h.fajr.isNone || h.shur.isNone || h.dhuhr.isNone || h.asr.isNone || h.magh.isNone || h.isha.isNone

def Policy.isNone : Policy α → Bool
  | .None => true
  | _ => false

def canAdj (h : PHours α) (pol : Policy α) : Bool :=
  !pol.isNone && (h.hasInv || Gen.isAlways pol)

/-- what the handlers read from outside the six hours -/
structure Env (α : Type) where
  /-- conventional hours at the substitute latitude (same day's geocentric ephemeris) -/
  nearLatHours : α → Hours α
  /-- conventional hours of the date `off` days away (through JulianDay::sub / add) -/
  hoursAt : Int → Hours α
  /-- the upper bound of the nearest-good-day loop -/
  bound : Nat

/-- angle_based -/
def angleBased (p : Params α) (h : PHours α) : PHours α :=
  match h.shur, h.magh with
  | some s, some m =>
    let portion := Gen.HRS_PER_DAY - m.value + s.value
    let ratio : α := 1.0 / Gen.MIN_SEC_PER_HR_MIN
    let fajrDiff := ratio * p.angFajr * portion
    let ishaDiff := ratio * p.angIsha * portion
    { h with fajr := some (PH.ext (s.value - fajrDiff)), isha := some (PH.ext (m.value + ishaDiff)) }
  | _, _ => h

def Policy.isNearLatFIInvalid : Policy α → Bool
  | .NearestLatitudeFajrIshaInvalid _ => true
  | _ => false

def Policy.isNearLatAll : Policy α → Bool
  | .NearestLatitudeAllPrayersAlways _ => true
  | _ => false

/-- adj_near_lat -/
def adjNearLat (p : Params α) (h : PHours α) (adj : Hours α) : Except Panic (PHours α) :=
  let notInv := !p.policy.isNearLatFIInvalid
  let h1 := match adj.fajr with
    | some a => if notInv || h.fajr.isNone then { h with fajr := some (PH.ext a) } else h
    | none => h
  let h2 := match adj.isha with
    | some a => if notInv || h1.isha.isNone then { h1 with isha := some (PH.ext a) } else h1
    | none => h1
  if p.policy.isNearLatAll then
    match h2.dhuhr with
    | none => .error (.unwrapErr "adj_near_lat:dhuhr")
    | some d =>
      .ok { h2 with shur := adj.shur.map PH.ext, dhuhr := some ⟨d.value, true⟩,
                    asr := adj.asr.map PH.ext, magh := adj.magh.map PH.ext }
  else .ok h2

/-- test_fajr_isha on already computed hours -/
def goodHours (h : Hours α) : Option (Hours α) :=
  if h.fajr.isSome && h.isha.isSome then some h else none

/-- the outward search of adj_near_good: i = 0..=bound, day-i first, then day+i -/
def searchGood (hoursAt : Int → Hours α) (bound : Nat) : Option (Hours α) :=
  (List.range (bound + 1)).findSome? fun (i : Nat) =>
    match goodHours (hoursAt (-(i : Int))) with
    | some h => some h
    | none => goodHours (hoursAt (i : Int))

def Policy.isGoodDayAll : Policy α → Bool
  | .NearestGoodDayAllPrayersAlways => true
  | _ => false

/-- adj_near_good -/
def adjNearGood (p : Params α) (h : PHours α) (env : Env α) : PHours α :=
  match searchGood env.hoursAt env.bound with
  | none => h
  | some a =>
    if p.policy.isGoodDayAll then
      { fajr := a.fajr.map PH.ext, shur := a.shur.map PH.ext, dhuhr := a.dhuhr.map PH.ext,
        asr := a.asr.map PH.ext, magh := a.magh.map PH.ext, isha := a.isha.map PH.ext }
    else
      let h1 := if h.fajr.isNone then { h with fajr := a.fajr.map PH.ext } else h
      if h1.isha.isNone then { h1 with isha := a.isha.map PH.ext } else h1

inductive PortionKind where | sevNight | sevDay | half
  deriving DecidableEq

def Policy.portionKind : Policy α → PortionKind
  | .SeventhOfNightFajrIshaAlways | .SeventhOfNightFajrIshaInvalid => .sevNight
  | .SeventhOfDayFajrIshaAlways | .SeventhOfDayFajrIshaInvalid => .sevDay
  | _ => .half

def Policy.isSevHalfAlways : Policy α → Bool
  | .SeventhOfNightFajrIshaAlways | .SeventhOfDayFajrIshaAlways | .HalfOfNightFajrIshaAlways => true
  | _ => false

def Policy.isHalfAlways : Policy α → Bool
  | .HalfOfNightFajrIshaAlways => true
  | _ => false

def Policy.isHalfInvalid : Policy α → Bool
  | .HalfOfNightFajrIshaInvalid => true
  | _ => false

def portionOf (k : PortionKind) (shur magh : α) : α :=
  match k with
  | .sevNight => (Gen.HRS_PER_DAY - (magh - shur)) / 7.0
  | .sevDay => (magh - shur) / 7.0
  | .half => (Gen.HRS_PER_DAY - magh - shur) * 0.5

/-- adj_sev_half -/
def adjSevHalf (p : Params α) (h : PHours α) : PHours α :=
  match h.shur, h.magh with
  | some s, some m =>
    let portion := portionOf p.policy.portionKind s.value m.value
    if p.policy.isSevHalfAlways then
      if p.policy.isHalfAlways then
        { h with fajr := some (PH.ext (portion - p.intFajr / Gen.MIN_SEC_PER_HR_MIN)),
                 isha := some (PH.ext (portion + p.intIsha / Gen.MIN_SEC_PER_HR_MIN)) }
      else
        { h with fajr := some (PH.ext (s.value - portion)), isha := some (PH.ext (m.value + portion)) }
    else
      let h1 :=
        if h.fajr.isNone then
          if p.policy.isHalfInvalid then
            { h with fajr := some (PH.ext (portion - p.intFajr / Gen.MIN_SEC_PER_HR_MIN)) }
          else { h with fajr := some (PH.ext (s.value - portion)) }
        else h
      if h1.isha.isNone then
        if p.policy.isHalfInvalid then
          { h1 with isha := some (PH.ext (portion + p.intIsha / Gen.MIN_SEC_PER_HR_MIN)) }
        else { h1 with isha := some (PH.ext (m.value + portion)) }
      else h1
  | _, _ => h

/-- adj_min_always -/
def adjMinAlways (h : PHours α) : PHours α :=
  let h1 := { h with fajr := h.shur.map fun (x : PH α) => ⟨x.value, true⟩ }
  { h1 with isha := h1.magh.map fun (x : PH α) => ⟨x.value, true⟩ }

/-- adj_min_inv -/
def adjMinInv (p : Params α) (h : PHours α) : PHours α :=
  let h1 := if h.fajr.isNone then
      { h with fajr := h.shur.map fun (x : PH α) => ⟨x.value - p.intFajr / Gen.MIN_SEC_PER_HR_MIN, true⟩ }
    else h
  if h1.isha.isNone then
    { h1 with isha := h1.magh.map fun (x : PH α) => ⟨x.value + p.intIsha / Gen.MIN_SEC_PER_HR_MIN, true⟩ }
  else h1

/-- `x != 0.` -/
def nonZero (x : α) : Bool := !Sc.eqb x 0.0

/-- reading the extreme flag of a possibly invalid hour, in the form the source has:
    `.unwrap().extreme` (panics on Err) or `.map_or(false, |x| x.extreme)` -/
def readFlag (x : Option (PH α)) : Option Bool :=
  match Gen.intFlagRead, x with
  | _, some f => some f.extreme
  | .unwrap, none => none
  | .mapOrFalse, none => some false

/-- the Fajr half of adj_for_int -/
def intFajrStep (p : Params α) (h : PHours α) : Except Panic (PHours α) :=
  if nonZero p.intFajr then
    match readFlag h.fajr with
    | none => .error (.unwrapErr "adj_for_int:fajr")
    | some ext =>
      .ok { h with fajr := h.shur.map fun (x : PH α) => ⟨x.value - p.intFajr / Gen.MIN_SEC_PER_HR_MIN, ext⟩ }
  else .ok h

/-- the Isha half of adj_for_int -/
def intIshaStep (p : Params α) (h : PHours α) : Except Panic (PHours α) :=
  if nonZero p.intIsha then
    match readFlag h.isha with
    | none => .error (.unwrapErr "adj_for_int:isha")
    | some ext =>
      .ok { h with isha := h.magh.map fun (x : PH α) => ⟨x.value + p.intIsha / Gen.MIN_SEC_PER_HR_MIN, ext⟩ }
  else .ok h

/-- adj_for_int -/
def adjForInt (p : Params α) (h : PHours α) : Except Panic (PHours α) :=
  if Gen.intExcluded p.policy then .ok h
  else
    match intFajrStep p h with
    | .error e => .error e
    | .ok h1 => intIshaStep p h1

/-- the guarded dispatch of adj_for_ext_lat -/
def applyPolicy (p : Params α) (h : PHours α) (env : Env α) : Except Panic (PHours α) :=
  if canAdj h p.policy then
    match Gen.dispatch p.policy with
    | .angleBased => .ok (angleBased p h)
    | .nearLat l => adjNearLat p h (env.nearLatHours l)
    | .nearGood => .ok (adjNearGood p h env)
    | .sevHalf => .ok (adjSevHalf p h)
    | .minAlways => .ok (adjMinAlways h)
    | .minInv => .ok (adjMinInv p h)
    | .noop => .ok h
  else .ok h

/-- adj_for_ext_lat -/
def adjForExtLat (p : Params α) (hours : Hours α) (env : Env α) : Except Panic (PHours α) :=
  match applyPolicy p hours.toPH env with
  | .error e => .error e
  | .ok h => adjForInt p h

end IPT
