namespace IPT
inductive Cmp where | le | lt | ge | gt deriving DecidableEq, Repr
inductive LeapRule where | absForm | remEuclid deriving DecidableEq, Repr
def Cmp.eval : Cmp → Int → Int → Bool
  | .le, a, b => decide (a ≤ b) | .lt, a, b => decide (a < b)
  | .ge, a, b => decide (a ≥ b) | .gt, a, b => decide (a > b)
end IPT
