import IPT.Model.F64
/- `format!("{:.1}", x)` on binary64 and `impl Display for Qibla` (geo/qibla.rs:
   `write!(f, "{:.1}° {}", self.degrees.abs(), self.rotation())`), at the bit level.
   Rust's formatter with an explicit precision prints the exact binary value correctly rounded to
   that many decimals, ties to even (core::num::flt2dec exact mode).  Import-free; compared with
   Rust on streams of patterns (ties n+0.25 / n+0.75, carries 9.95 / 99.95, subnormals, huge
   values) by unit `fmt1`, and with the real `Qibla::to_string()` by unit `qtext`. -/
namespace IPT.F64

/-- |x| in tenths, rounded half-even: round(10·|x|) for the finite magnitude bits m -/
def tenthsOfMag (m : Nat) : Nat := roundDivEven (10 * scaledMag m) (2 ^ 1074)

/-- `format!("{:.1}", x.abs())` -/
def fmt1Abs (b : Nat) : String :=
  if isNaN b then "NaN"
  else if isInf b then "inf"
  else
    let t := tenthsOfMag (magBits b)
    toString (t / 10) ++ "." ++ toString (t % 10)

/-- Qibla::rotation on the bits of `degrees`: `degrees < 0.` -/
def rotationIsCw (b : Nat) : Bool := lt b 0

/-- `Qibla::to_string()` from the bits of `degrees` -/
def qiblaText (b : Nat) : String :=
  fmt1Abs b ++ "° " ++ (if rotationIsCw b then "CW" else "CCW")

end IPT.F64
