import IPT.Model.ExtLat
/- hours.rs: hour_to_time / round_secs;  mod.rs: get_hours_adj_ext, get_imsaak, prayer_times_dt -/
namespace IPT
variable {α : Type} [Add α] [Sub α] [Mul α] [Div α] [Neg α] [OfScientific α] [Sc α]

/-- `while hour < 0. { hour += 24. }` with fuel (100 000 turns: hours down to −2.4·10⁶; the real loop has
    no bound, and does not terminate for −∞ or for hours below about −10¹⁷, where adding 24 no longer
    changes an f64 - outside every property's quantifier, see DESIGN 16.3) -/
def wrapNeg (fuel : Nat) (hour : α) : Except Panic α :=
  match fuel with
  | 0 => if Sc.ltb hour 0.0 then .error (.fuel "hour_to_time:neg_wrap") else .ok hour
  | n + 1 => if Sc.ltb hour 0.0 then wrapNeg n (hour + Gen.HRS_PER_DAY) else .ok hour

/-- `hour.rem(24.)` for hour >= 24 (equals fmod for hours below 2⁵⁶ ≈ 7.2·10¹⁶, where 24·k is exact;
    beyond that it is not - outside every property's quantifier, see DESIGN §10, 16.3) -/
def rem24 (hour : α) : α :=
  let k := Sc.floor (hour / Gen.HRS_PER_DAY)
  let r := hour - Gen.HRS_PER_DAY * k
  if Sc.ltb r 0.0 then r + Gen.HRS_PER_DAY
  else if Sc.leb Gen.HRS_PER_DAY r then r - Gen.HRS_PER_DAY
  else r

def fracMin (hour : α) : α := (hour - Sc.floor hour) * Gen.MIN_SEC_PER_HR_MIN

/-- round_secs: returns (hour, min, sec) -/
def roundSecs (hour sec cap : α) : α × α × α :=
  let hour1 := if Sc.leb cap sec then hour + 1.0 / Gen.MIN_SEC_PER_HR_MIN else hour
  (hour1, fracMin hour1, 0.0)

/-- which threshold (if any) applies to this prayer under this mode; `none` = keep seconds,
    `some none` = drop seconds, `some (some c)` = round with cap c -/
inductive RoundAct (α : Type) where
  | keep | drop | round (cap : α)

def roundAct (r : Round) (prayer : Prayer) : RoundAct α :=
  match r with
  | .NormalRounding => .round Gen.DEF_ROUND_SEC
  | .SpecialRounding => if Gen.roundedPrayers prayer then .round Gen.DEF_ROUND_SEC else .drop
  | .AggressiveRounding => if Gen.roundedPrayers prayer then .round Gen.AGGRESSIVE_ROUND_SEC else .drop
  | .None => .keep

def hmsOpt (h m s : Nat) : Except Panic HMS :=
  if h < 24 ∧ m < 60 ∧ s < 60 then .ok ⟨h, m, s⟩ else .error .hmsOpt

def wrapFuel : Nat := 100000

/-- hour_to_time after the negative-hour wrap: fields, rounding, `>= 24` wrap, NaiveTime -/
def convertHour (p : Params α) (prayer : Prayer) (hour : α) : Except Panic HMS :=
  let min := fracMin hour
  let sec := (min - Sc.floor min) * Gen.MIN_SEC_PER_HR_MIN
  let hms : α × α × α :=
    match (roundAct p.round prayer : RoundAct α) with
    | .keep => (hour, min, sec)
    | .drop => (hour, min, 0.0)
    | .round cap => roundSecs hour sec cap
  let hour2 := if Sc.leb Gen.HRS_PER_DAY hms.1 then rem24 hms.1 else hms.1
  hmsOpt (Sc.toU32 hour2) (Sc.toU32 hms.2.1) (Sc.toU32 hms.2.2)

/-- hour_to_time -/
def hourToTime (p : Params α) (prayer : Prayer) (hour : α) : Except Panic HMS :=
  match wrapNeg wrapFuel (hour + p.minutes prayer / Gen.MIN_SEC_PER_HR_MIN) with
  | .error e => .error e
  | .ok hour => convertHour p prayer hour

def toPrayerTime (p : Params α) (prayer : Prayer) (ph : PH α) : Except Panic PT :=
  match hourToTime p prayer ph.value with
  | .error e => .error e
  | .ok t => .ok ⟨t, ph.extreme⟩

/-- the environment the real code gives the policy layer -/
def envOf (p : Params α) (t : TopAstroDay α) (w : Weather α) : Env α :=
  { nearLatHours := fun l => getHours p (t.newCoords { t.coords with lat := l }) w
    hoursAt := fun off =>
      let jd := if off < 0 then t.ad.jd.sub off.natAbs else t.ad.jd.add off.natAbs
      getHours p (topFromJd jd t.coords) w
    bound := match Gen.goodDayBound with
      | .ordinal => (ordinal (fromRD t.ad.jd.rd)).toNat
      | .daysInYear => (daysInYear (fromRD t.ad.jd.rd).y).toNat }

/-- get_hours_adj_ext -/
def getHoursAdjExt (p : Params α) (t : TopAstroDay α) (w : Weather α) : Except Panic (PHours α) :=
  adjForExtLat p (getHours p t w) (envOf p t w)

/-- the parameter adjustment at the start of get_imsaak -/
def imsaakParams1 (p : Params α) : Params α :=
  if nonZero p.intFajr then
    { p with intFajr := p.intFajr + (if Sc.eqb p.intImsaak 0.0 then Gen.DEF_IMSAAK_ANGLE else p.intImsaak) }
  else if nonZero p.intImsaak then
    { p with minFajr := p.minFajr - p.intImsaak }
  else
    { p with angFajr := p.angFajr + p.angImsaak }

/-- the parameter adjustment of get_imsaak when the first Fajr came back extreme -/
def imsaakParams2 (p : Params α) : Params α :=
  { p with minFajr := p.minFajr - (if Sc.eqb p.intImsaak 0.0 then Gen.DEF_IMSAAK_ANGLE else p.intImsaak) }

def optTime (p : Params α) (prayer : Prayer) : Option (PH α) → Except Panic (Option PT)
  | none => .ok none
  | some ph => match toPrayerTime p prayer ph with
    | .error e => .error e
    | .ok t => .ok (some t)

def fajrExtreme (h : PHours α) : Bool :=
  match h.fajr with
  | some f => f.extreme
  | none => false

/-- `PrayerTime { extreme: x.extreme || fallback, .. }` on the fallback path: the time is kept, the
    flag is set -/
def flagExtreme : Except Panic (Option PT) → Except Panic (Option PT)
  | .ok (some t) => .ok (some { t with extreme := true })
  | r => r

/-- get_imsaak, given how to run the policy layer for a parameter set.  The fallback (Fajr's time
    minus the Imsaak interval / 1.5 min) is taken when the Fajr of the adjusted parameters is
    extreme or the Fajr actually reported (caller's parameters) is (`||` short-circuits); an Imsaak
    taken from the fallback is flagged extreme. -/
def imsaakOf (p : Params α) (run : Params α → Except Panic (PHours α)) : Except Panic (Option PT) :=
  match run (imsaakParams1 p) with
  | .error e => .error e
  | .ok h1 =>
    let redoE : Except Panic Bool :=
      if fajrExtreme h1 then .ok true
      else match run p with
        | .error e => .error e
        | .ok h0 => .ok (fajrExtreme h0)
    match redoE with
    | .error e => .error e
    | .ok redo =>
      if redo then
        match run (imsaakParams2 p) with
        | .error e => .error e
        | .ok h2 => flagExtreme (optTime (imsaakParams2 p) .Fajr h2.fajr)
      else optTime (imsaakParams1 p) .Fajr h1.fajr

def getImsaak (p : Params α) (t : TopAstroDay α) (w : Weather α) : Except Panic (Option PT) :=
  imsaakOf p (fun q => getHoursAdjExt q t w)

/-- the seven entries of a result, in `Prayer` order -/
structure DayTimes where
  imsaak : Option PT
  fajr : Option PT
  shur : Option PT
  dhuhr : Option PT
  asr : Option PT
  magh : Option PT
  isha : Option PT
  deriving DecidableEq, Repr, Inhabited

/-- assembling the result map from adjusted hours and Imsaak -/
def assemble (p : Params α) (h : PHours α) (imsaak : Except Panic (Option PT)) : Except Panic DayTimes :=
  match optTime p .Fajr h.fajr, optTime p .Shurooq h.shur, optTime p .Dhuhr h.dhuhr,
        optTime p .Asr h.asr, optTime p .Maghrib h.magh, optTime p .Isha h.isha, imsaak with
  | .ok f, .ok s, .ok d, .ok a, .ok m, .ok i, .ok im => .ok ⟨im, f, s, d, a, m, i⟩
  | .error e, _, _, _, _, _, _ => .error e
  | _, .error e, _, _, _, _, _ => .error e
  | _, _, .error e, _, _, _, _ => .error e
  | _, _, _, .error e, _, _, _ => .error e
  | _, _, _, _, .error e, _, _ => .error e
  | _, _, _, _, _, .error e, _ => .error e
  | _, _, _, _, _, _, .error e => .error e

def defaultWeather : Weather α := ⟨Gen.DEF_PRESSURE, Gen.DEF_TEMPERATURE⟩

structure Location (α : Type) where
  coords : Coords α
  gmt : α

/-- prayer_times_dt (date as a day number) -/
def prayerTimesDt (p : Params α) (loc : Location α) (rd : Int) (w : Option (Weather α)) : Except Panic DayTimes :=
  let w := w.getD defaultWeather
  let t := topFromJd (JD.new rd loc.gmt) loc.coords
  match getHoursAdjExt p t w with
  | .error e => .error e
  | .ok h => assemble p h (getImsaak p t w)

/-- Params::new -/
def paramsNew (m : Method) : Params α :=
  let row : MethodRow α := Gen.methodRow m
  { round := Gen.defaultRound, asr := row.asr, policy := Gen.defaultPolicy,
    angFajr := row.fajrAngle, angIsha := row.ishaAngle, angImsaak := Gen.DEF_IMSAAK_ANGLE,
    intFajr := 0.0, intIsha := row.ishaInterval, intImsaak := 0.0,
    minImsaak := 0.0, minFajr := 0.0, minShurooq := 0.0, minDhuhr := 0.0, minAsr := 0.0,
    minMaghrib := 0.0, minIsha := 0.0 }

end IPT
