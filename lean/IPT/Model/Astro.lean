import IPT.Model.Angle
import IPT.Model.JulianDay
import IPT.Model.Types
import IPT.Gen.Tables
/- geo/astro.rs: Astro::new, AstroDay::new, TopAstroDay::from_ad / new_coords -/
namespace IPT
variable {α : Type} [Add α] [Sub α] [Mul α] [Div α] [Neg α] [OfScientific α] [Sc α]

/-- `pow_series(val, count)`: [val, val², …] by repeated multiplication -/
def powSeries (val : α) : Nat → List α
  | 0 => []
  | n + 1 => go val val n
where
  go (val curr : α) : Nat → List α
    | 0 => [curr]
    | k + 1 => curr :: go val (curr * val) k

def calcTotal (elems : List (α × α × α)) (jm : α) : α :=
  elems.foldl (fun acc e => acc + e.1 * Sc.cos (e.2.1 + e.2.2 * jm)) 0.0

/-- `calc_sum`: Σ_idx total(table_idx, jms[1]) · jms[idx], then / 10⁸ -/
def calcSum (tables : List (List (α × α × α))) (jms : List α) (jm : α) : α :=
  ((tables.zip jms).foldl (fun acc tj => acc + calcTotal tj.1 jm * tj.2) 0.0) / Gen.TEN_POW_EIGHT

def xiSum (xi : List α) (scs : List α) : α :=
  (xi.zip scs).foldl (fun acc p => acc + p.1 * p.2) 0.0

/-- `calc_psi_eps` exactly as written (note the precedence: the constant term is outside the sine) -/
def calcPsiEps (xi : List α) (jc : α) : α × α :=
  ((Gen.SIN_COEFFICIENT.zip (Gen.PE (α := α))).foldl
    (fun (acc : α × α) (row : (Int × Int × Int × Int × Int) × (α × α × α × α)) =>
      let sc := row.1
      let pe := row.2
      let scs : List α := [Sc.ofInt sc.1, Sc.ofInt sc.2.1, Sc.ofInt sc.2.2.1, Sc.ofInt sc.2.2.2.1, Sc.ofInt sc.2.2.2.2]
      let r := toRadians (xiSum xi scs)
      let psi := acc.1 + pe.1 + jc * pe.2.1 * Sc.sin r
      let eps := acc.2 + pe.2.2.1 + jc * pe.2.2.2 * Sc.cos r
      (psi, eps))
    (0.0, 0.0))

def getD (l : List α) (i : Nat) : α := (l[i]?).getD 0.0

/-- Astro::new -/
def astroNew (jd : α) : Astro α :=
  let j := jd - Gen.J2000
  let jc := j / 36525.0
  let jm := jc / 10.0
  let jms : List α := 1.0 :: powSeries jm 5
  let lsum := calcSum [Gen.L0, Gen.L1, Gen.L2, Gen.L3, Gen.L4, Gen.L5] jms jm
  let bsum := calcSum [Gen.B0, Gen.B1] jms jm
  let rsum := calcSum [Gen.R0, Gen.R1, Gen.R2, Gen.R3, Gen.R4] jms jm
  let jc2 := jc * jc
  let jc3 := jc2 * jc
  let d := 297.85036 + 445267.111480 * jc - 0.0019142 * jc2 + jc3 / 189474.0
  let m := 357.52772 + 35999.050340 * jc - 0.0001603 * jc2 - jc3 / 300000.0
  let mp := 134.96298 + 477198.867398 * jc + 0.0086972 * jc2 + jc3 / 56250.0
  let f := 93.27191 + 483202.017538 * jc - 0.0036825 * jc2 + jc3 / 327270.0
  let om := 125.04452 - 1934.136261 * jc + 0.0020708 * jc2 + jc3 / 450000.0
  let pe := calcPsiEps [d, m, mp, f, om] jc
  let deltaPsi := pe.1 / Gen.NUT_DIVISOR
  let deltaEps := pe.2 / Gen.NUT_DIVISOR
  let u := jm / 10.0
  let us := powSeries u 10
  let e0 := 84381.448 - 4680.93 * getD us 0 - 1.55 * getD us 1 + 1999.25 * getD us 2
    - 51.38 * getD us 3 - 249.67 * getD us 4 - 39.05 * getD us 5 + 7.12 * getD us 6
    + 27.87 * getD us 7 + 5.79 * getD us 8 + 2.45 * getD us 9
  let e := toRadians (e0 / 3600.0 + deltaEps)
  let l := capAngle360 (toDegrees lsum) + 180.0
  let l := capAngle360 l + deltaPsi + (-20.4898) / (3600.0 * rsum)
  let l := toRadians l
  let b := -(toDegrees bsum)
  let b := toRadians b
  let ran := Sc.sin l * Sc.cos e - Sc.tan b * Sc.sin e
  let ra := capAngle360 (toDegrees (Sc.atan2 ran (Sc.cos l)))
  let dec := Sc.asin (Sc.sin b * Sc.cos e + Sc.cos b * Sc.sin e * Sc.sin l)
  let v0 := Gen.GMST0 + Gen.GMST1 * j + Gen.GMST2 * jc2 - jc3 / Gen.GMST3
  let sid := capAngle360 v0 + deltaPsi * Sc.cos e
  { ra := ra, dec := dec, sid := sid, rsum := rsum, dra := 0.0 }

/-- AstroDay: geocentric ephemeris of day-1, day, day+1 -/
structure AstroDay (α : Type) where
  prev : Astro α
  cur : Astro α
  next : Astro α
  jd : JD α

def astroDayNew (jd : JD α) : AstroDay α :=
  ⟨astroNew (jd.value - 1.0), astroNew jd.value, astroNew (jd.value + 1.0), jd⟩

/-- one iteration of the loop in TopAstroDay::from_ad -/
def topOne (a : Astro α) (c : Coords α) : Astro α :=
  let latRads := toRadians c.lat
  let u := Sc.atan (Gen.B_A * Sc.tan latRads)
  let pSinPhi := Gen.B_A * Sc.sin u + c.elev / Gen.EARTH_RADIUS * Sc.sin latRads
  let pCosPhi := Sc.cos u + c.elev / Gen.EARTH_RADIUS * Sc.cos latRads
  let earthDist := 3600.0 * a.rsum
  let pi := toRadians (Gen.SOLAR_PARALLAX / earthDist)
  let hours := toRadians (capAngle360 (a.sid + c.lon - a.ra))
  let dra0 := -pCosPhi * Sc.sin pi * Sc.sin hours
  let dra := Sc.atan2 dra0 (Sc.cos a.dec - pCosPhi * Sc.sin pi * Sc.cos hours)
  let dec0 := (Sc.sin a.dec - pSinPhi * Sc.sin pi) * Sc.cos dra
  let dec := toDegrees (Sc.atan2 dec0 (Sc.cos a.dec - pCosPhi * Sc.sin pi * Sc.cos hours))
  { ra := a.ra + toDegrees dra, sid := a.sid, dra := dra, rsum := a.rsum, dec := dec }

/-- TopAstroDay -/
structure TopAstroDay (α : Type) where
  ad : AstroDay α
  coords : Coords α
  prev : Astro α
  cur : Astro α
  next : Astro α

def topFromAd (ad : AstroDay α) (c : Coords α) : TopAstroDay α :=
  ⟨ad, c, topOne ad.prev c, topOne ad.cur c, topOne ad.next c⟩

def topFromJd (jd : JD α) (c : Coords α) : TopAstroDay α := topFromAd (astroDayNew jd) c

def TopAstroDay.newCoords (t : TopAstroDay α) (c : Coords α) : TopAstroDay α := topFromAd t.ad c

end IPT
