namespace IPT
/-- what the translator reads off `prayer_times_dt_rng_block` -/
structure ProtocolShape where
  cloneInLoop : Bool
  dropAfterLoop : Bool
  dropBeforeJoin : Bool
  collectorAppendsAll : Bool
  partitionByWorkers : Bool
  seqDecision : Bool
  deriving DecidableEq, Repr
end IPT
