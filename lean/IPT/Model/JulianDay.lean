import IPT.Model.Civil
import IPT.Gen.Consts
/- geo/julian_day.rs -/
namespace IPT
variable {α : Type} [Add α] [Sub α] [Mul α] [Div α] [Neg α] [OfScientific α] [Sc α]

structure JD (α : Type) where
  rd : Int          -- the civil date, as a day number
  gmt : α
  value : α

/-- JulianDay::new (value only) -/
def jdValue (dt : Date) (gmt : α) : α :=
  let ny : α := Sc.ofInt dt.y
  let nm : α := Sc.ofInt dt.m
  let ny1 := if dt.m ≤ 2 then ny - 1.0 else ny
  let nm1 := if dt.m ≤ 2 then nm + 12.0 else nm
  let ny2 := if dt.y < 1 then ny1 + 1.0 else ny1
  let b : α :=
    if dt.y > 1582 ∨ (dt.y = 1582 ∧ (dt.m > 10 ∨ (dt.m = 10 ∧ dt.d > 15))) then
      let a := Sc.floor (ny2 / 100.0)
      2.0 - a + Sc.floor (a / 4.0)
    else 0.0
  let c := Sc.floor (365.25 * (ny2 + 4716.0))
  let d := Sc.floor (30.6001 * (nm1 + 1.0))
  b + c + d + (Sc.ofInt dt.d - gmt / 24.0) - 1524.5

def JD.new (rd : Int) (gmt : α) : JD α := ⟨rd, gmt, jdValue (fromRD rd) gmt⟩
def JD.sub (j : JD α) (days : Nat) : JD α := ⟨j.rd - days, j.gmt, j.value - Sc.ofInt days⟩
def JD.add (j : JD α) (days : Nat) : JD α := ⟨j.rd + days, j.gmt, j.value + Sc.ofInt days⟩

end IPT
