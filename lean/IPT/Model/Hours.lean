import IPT.Model.Astro
/- prayer_times/hours.rs: the six conventional hours -/
namespace IPT
variable {α : Type} [Add α] [Sub α] [Mul α] [Div α] [Neg α] [OfScientific α] [Sc α]

/-- get_ra_interp_deltas on the three right ascensions (prev, cur, next) -/
def raInterpDeltas (prevRa curRa nextRa : α) : α × α :=
  let nextRa := if Sc.ltb Gen.RA_WRAP_HI curRa && Sc.ltb nextRa Gen.RA_WRAP_LO then Gen.raWrapNext nextRa else nextRa
  let prevRa := if Sc.ltb Gen.RA_WRAP_HI prevRa && Sc.ltb curRa Gen.RA_WRAP_LO then Gen.raWrapPrev prevRa else prevRa
  (nextRa - prevRa, nextRa + prevRa - 2.0 * curRa)

/-- get_hour_angle -/
def hourAngle (sid ra lon : α) (deltas : α × α) (val : α) : α :=
  let sidGw := capAngle360 (sid + Gen.SIDEREAL_RATE * val)
  let raInterp := ra + val * (deltas.1 + deltas.2 * val) / 2.0
  capAngleBetween180 (sidGw + lon - raInterp)

def decInterpDeltas (prevDec curDec nextDec : α) : α × α :=
  (nextDec - prevDec, nextDec - 2.0 * curDec + prevDec)

/-- get_shur_magh_m_0_adj -/
def shurMaghM0Adj (lat dec : α) : Option α :=
  let latRads := toRadians lat
  let decRads := toRadians dec
  let n := Sc.sin (toRadians Gen.CENTER_OF_SUN_ANGLE) - Sc.sin latRads * Sc.sin decRads
  let d := Sc.cos latRads * Sc.cos decRads
  let r := n / d
  if withinAbs1 r then some (capAngle180 (toDegrees (Sc.acos r)) / Gen.TWO_PI_DEG) else none

/-- get_refraction -/
def refraction (w : Weather α) (sunAlt : α) : α :=
  let r := 1.02 / (toDegrees (Sc.tan (toRadians (sunAlt + (10.3 / (sunAlt + 5.11))))) + 0.0019279)
  let m := w.pressure / 1010.0 * (283.0 / (273.0 + w.temperature))
  m * r / 60.0

/-- get_shur_magh -/
def shurMagh (lat dec dra : α) (w : Weather α) (dd : α × α) (mTime hourAng : α) : α :=
  let decInterpRads := toRadians (dec + mTime * (dd.1 + dd.2 * mTime) / 2.0)
  let latRads := toRadians lat
  let haRads := toRadians hourAng - dra
  let sunAlt0 := toDegrees (Sc.asin (Sc.sin latRads * Sc.sin decInterpRads
      + Sc.cos latRads * Sc.cos decInterpRads * Sc.cos haRads))
  let sunAlt := sunAlt0 + refraction w sunAlt0
  let deltaM := (sunAlt - Gen.CENTER_OF_SUN_ANGLE)
      / (Gen.TWO_PI_DEG * Sc.cos decInterpRads * Sc.cos latRads * Sc.sin haRads)
  Gen.HRS_PER_DAY * (mTime + deltaM)

/-- get_shur_dhuhr_magh: (Shurooq, Dhuhr, Maghrib) -/
def shurDhuhrMagh (t : TopAstroDay α) (w : Weather α) : Option α × α × Option α :=
  let rd := raInterpDeltas t.prev.ra t.cur.ra t.next.ra
  let lon := t.coords.lon
  let m0 := (t.cur.ra - lon - t.cur.sid) / Gen.TWO_PI_DEG
  let dhuhrM := capAngle1 m0
  let dhuhrHa := hourAngle t.cur.sid t.cur.ra lon rd dhuhrM
  let dhuhrDm := dhuhrHa / Gen.TWO_PI_DEG
  let dhuhr := Gen.HRS_PER_DAY * (dhuhrM - dhuhrDm)
  let sm : Option α × Option α :=
    match shurMaghM0Adj t.coords.lat t.cur.dec with
    | some adj =>
      let dd := decInterpDeltas t.prev.dec t.cur.dec t.next.dec
      let shurM := capAngle1 (m0 - adj)
      let shurHa := hourAngle t.cur.sid t.cur.ra lon rd shurM
      let shur := shurMagh t.coords.lat t.cur.dec t.cur.dra w dd shurM shurHa
      let maghM := capAngle1 (m0 + adj)
      let maghHa := hourAngle t.cur.sid t.cur.ra lon rd maghM
      let magh := shurMagh t.coords.lat t.cur.dec t.cur.dra w dd maghM maghHa
      (some shur, some magh)
    | none => (none, none)
  (sm.1, dhuhr, sm.2)

/-- the twilight hour-angle cosine for depression angle `a` -/
def twilightCos (lat dec a : α) : α :=
  let latRads := toRadians lat
  let decRads := toRadians dec
  let c := Sc.cos latRads * Sc.cos decRads
  let s := Sc.sin latRads * Sc.sin decRads
  (Sc.sin (toRadians (-a)) - s) / c

/-- get_fajr_isha -/
def fajrIsha (angFajr angIsha lat dec dhuhr : α) : Option α × Option α :=
  let f := twilightCos lat dec angFajr
  let i := twilightCos lat dec angIsha
  (if withinAbs1 f then some (dhuhr - Gen.DEGREES_TO_10_BASE * toDegrees (Sc.acos f)) else none,
   if withinAbs1 i then some (dhuhr + Gen.DEGREES_TO_10_BASE * toDegrees (Sc.acos i)) else none)

def asrRatio : AsrRatio → α
  | .Shafi => Gen.ASR_SHAFI
  | .Hanafi => Gen.ASR_HANAFI

/-- the Asr hour-angle cosine -/
def asrCos (ratio : AsrRatio) (lat dec : α) : α :=
  let latRads := toRadians lat
  let decRads := toRadians dec
  let x := asrRatio ratio + Sc.tan (Sc.abs (latRads - decRads))
  let x := Sc.atan (1.0 / x)
  let x := Sc.sin x - Sc.sin latRads * Sc.sin decRads
  x / (Sc.cos latRads * Sc.cos decRads)

/-- get_asr -/
def getAsr (ratio : AsrRatio) (lat dec dhuhr : α) : Option α :=
  let r := asrCos ratio lat dec
  if withinAbs1 r then some (dhuhr + Gen.DEGREES_TO_10_BASE * toDegrees (Sc.acos r)) else none

/-- get_hours -/
def getHours (p : Params α) (t : TopAstroDay α) (w : Weather α) : Hours α :=
  let sdm := shurDhuhrMagh t w
  let dhuhr := sdm.2.1
  let fi := fajrIsha p.angFajr p.angIsha t.coords.lat t.cur.dec dhuhr
  { fajr := fi.1, shur := sdm.1, dhuhr := some dhuhr,
    asr := getAsr p.asr t.coords.lat t.cur.dec dhuhr, magh := sdm.2.2, isha := fi.2 }

end IPT
