import IPT.Model.Range
import IPT.Model.Times
/- prayer_times/mod.rs: the sequential range API `prayer_times_dt_rng`.  Compared with the real
   function on short ranges by unit `rng` (driver op `rng` prints exactly this list); the theorems
   about it are Thm/C14 `rng_is_per_day` and, through it, Thm/C15 `parallel_eq_sequential`. -/
namespace IPT
variable {α : Type} [Add α] [Sub α] [Mul α] [Div α] [Neg α] [OfScientific α] [Sc α]

/-- prayer_times_dt_rng: one entry per date of `start.iter_days().take(num_days)`, each the
    single-date result (a `for` loop inserting `prayer_times_dt(params, location, date, None)`) -/
def rngModel (p : Params α) (loc : Location α) (s e : Int) : List (Int × Except Panic DayTimes) :=
  (rangeDates s e).map fun rd => (rd, prayerTimesDt p loc rd none)

end IPT
