import IPT.Gen.Consts
/- geo/qibla.rs -/
namespace IPT
variable {α : Type} [Add α] [Sub α] [Mul α] [Div α] [Neg α] [OfScientific α] [Sc α]

/-- Qibla::new(coords).degrees() — elevation is not an input -/
def qiblaDegrees (lat lon : α) : α :=
  let latRads := toRadians lat
  let x := toRadians lon - toRadians Gen.KAABA_LONGITUDE
  let y := Sc.cos latRads * Sc.tan (toRadians Gen.KAABA_LATITUDE) - Sc.sin latRads * Sc.cos x
  toDegrees (Sc.atan2 (Sc.sin x) y)

inductive Rotation where | Cw | Ccw deriving DecidableEq, Repr

def rotation (deg : α) : Rotation := if Sc.ltb deg 0.0 then .Cw else .Ccw

end IPT
