import IPT.Gen.Consts
/- angle.rs: LimitAngle for f64 -/
namespace IPT
variable {α : Type} [Add α] [Sub α] [Mul α] [Div α] [Neg α] [OfScientific α] [Sc α]

def capAngle (x cap : α) : α :=
  let v := x / cap
  let v := v - Sc.floor v
  if Sc.ltb 0.0 v then cap * v
  else if Sc.ltb v 0.0 then cap - cap * v
  else v

def capAngle360 (x : α) : α := capAngle x Gen.TWO_PI_DEG
def capAngle180 (x : α) : α := capAngle x Gen.PI_DEG

def capAngle1 (x : α) : α :=
  let v := x - Sc.floor x
  if Sc.ltb v 0.0 then v + 1.0 else v

def capAngleBetween180 (x : α) : α :=
  let v := x / Gen.TWO_PI_DEG
  let v := (v - Sc.floor v) * Gen.TWO_PI_DEG
  if Sc.ltb v (-Gen.PI_DEG) then v + Gen.TWO_PI_DEG
  else if Sc.ltb Gen.PI_DEG v then v - Gen.TWO_PI_DEG
  else v

end IPT
