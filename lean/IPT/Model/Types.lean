import IPT.Scalar
/-
  Plain data types of the model.  Constructor names are those of the Rust enums so that the
  translator can emit matches over them verbatim.
-/
namespace IPT

inductive Prayer where
  | Imsaak | Fajr | Shurooq | Dhuhr | Asr | Maghrib | Isha
  deriving DecidableEq, Repr, Inhabited

inductive Method where
  | None | Egyptian | Egypt | Shafi | Hanafi | Isna | Mwl | UmmAlQurra | FixedIsha
  deriving DecidableEq, Repr, Inhabited

inductive Round where
  | None | NormalRounding | SpecialRounding | AggressiveRounding
  deriving DecidableEq, Repr, Inhabited

inductive AsrRatio where
  | Shafi | Hanafi
  deriving DecidableEq, Repr, Inhabited

/-- `ExtremeLatitudeMethod`; the three nearest-latitude variants carry the substitute latitude -/
inductive Policy (α : Type) where
  | None
  | AngleBased
  | NearestLatitudeAllPrayersAlways (lat : α)
  | NearestLatitudeFajrIshaAlways (lat : α)
  | NearestLatitudeFajrIshaInvalid (lat : α)
  | NearestGoodDayAllPrayersAlways
  | NearestGoodDayFajrIshaInvalid
  | SeventhOfNightFajrIshaAlways
  | SeventhOfNightFajrIshaInvalid
  | SeventhOfDayFajrIshaAlways
  | SeventhOfDayFajrIshaInvalid
  | HalfOfNightFajrIshaAlways
  | HalfOfNightFajrIshaInvalid
  | MinutesFromMaghribFajrIshaAlways
  | MinutesFromMaghribFajrIshaInvalid
  deriving Repr, Inhabited

/-- which writer `adj_for_ext_lat` dispatches to -/
inductive Handler (α : Type) where
  | angleBased | nearLat (lat : α) | nearGood | sevHalf | minAlways | minInv | noop
  deriving Repr, Inhabited

/-- how adj_for_int reads the extreme flag of a possibly invalid Fajr/Isha -/
inductive FlagRead where
  | unwrap | mapOrFalse
  deriving DecidableEq, Repr, Inhabited

/-- the upper bound expression of the nearest-good-day loop -/
inductive SearchBound where
  | ordinal | daysInYear
  deriving DecidableEq, Repr, Inhabited

/-- one row of the `Params::new` method table: Fajr angle, Isha angle, Isha interval, school -/
structure MethodRow (α : Type) where
  fajrAngle : α
  ishaAngle : α
  ishaInterval : α
  asr : AsrRatio
  deriving Repr, Inhabited

/-- `Params` with the key sets `Params::new` creates (HashMaps with fixed keys are records) -/
structure Params (α : Type) where
  round : Round
  asr : AsrRatio
  policy : Policy α
  angFajr : α
  angIsha : α
  angImsaak : α
  intFajr : α
  intIsha : α
  intImsaak : α
  minImsaak : α
  minFajr : α
  minShurooq : α
  minDhuhr : α
  minAsr : α
  minMaghrib : α
  minIsha : α
  deriving Repr, Inhabited

def Params.minutes {α : Type} (p : Params α) : Prayer → α
  | .Imsaak => p.minImsaak | .Fajr => p.minFajr | .Shurooq => p.minShurooq | .Dhuhr => p.minDhuhr
  | .Asr => p.minAsr | .Maghrib => p.minMaghrib | .Isha => p.minIsha

/-- the six conventional hours (`Result<f64, ()>` each) -/
structure Hours (α : Type) where
  fajr : Option α
  shur : Option α
  dhuhr : Option α
  asr : Option α
  magh : Option α
  isha : Option α
  deriving Repr, Inhabited

structure PH (α : Type) where
  value : α
  extreme : Bool
  deriving Repr, Inhabited

/-- the six hours after the policy layer (`Result<PrayerHour, ()>` each) -/
structure PHours (α : Type) where
  fajr : Option (PH α)
  shur : Option (PH α)
  dhuhr : Option (PH α)
  asr : Option (PH α)
  magh : Option (PH α)
  isha : Option (PH α)
  deriving Repr, Inhabited

/-- a panic of the real code, by site -/
inductive Panic where
  | unwrapErr (site : String)
  | hmsOpt
  | fuel (site : String)
  deriving Repr, Inhabited, DecidableEq

structure Weather (α : Type) where
  pressure : α
  temperature : α
  deriving Repr, Inhabited

structure Coords (α : Type) where
  lat : α
  lon : α
  elev : α
  deriving Repr, Inhabited

/-- `Astro`: ra, dec, sid_time, rsum, dra -/
structure Astro (α : Type) where
  ra : α
  dec : α
  sid : α
  rsum : α
  dra : α
  deriving Repr, Inhabited

structure HMS where
  h : Nat
  m : Nat
  s : Nat
  deriving Repr, DecidableEq, Inhabited

structure PT where
  time : HMS
  extreme : Bool
  deriving Repr, DecidableEq, Inhabited

end IPT
