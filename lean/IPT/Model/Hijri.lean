import IPT.Model.Civil
import IPT.Gen.Consts
import IPT.Gen.HijriGen
/- hijri_date.rs over ℤ.  The code computes in f64 with `floor`; every intermediate is an
   integer of magnitude < 2^31, for which the f64 computation is exact (validated exhaustively
   by the correspondence sweep over 0001-01-01..9999-12-31).
   SCOPE: dates of the common era, years 1..9999 (the property's quantifier).  Not modelled: the
   branch of `HijriDate::from` for proleptic years < 0 (it converts the date one year later and can
   panic on 29 February), and the loops run on fuel 20 000 years, which the real code exceeds only
   before year -19 700. -/
namespace IPT

/-- greg_abs_date -/
def gregAbsDate (dt : Date) : Int :=
  let y1 := dt.y - 1
  ordinal dt + 365 * y1 + y1 / 4 - y1 / 100 + y1 / 400

/-- hijri_abs_date(day, month, year) -/
def hijriAbsDate (day month year : Int) : Int :=
  day + 29 * (month - 1) + month / 2 + 354 * (year - 1) + (3 + 11 * year) / 30 + Gen.HIJRI_EPOCH - 1

/-- is_hijri_leap_year, in the form the source has -/
def isHijriLeap (year : Int) : Bool :=
  match Gen.leapRule with
  | .absForm => decide (Int.tmod ((11 * year).natAbs + 14 : Int) 30 < 11)
  | .remEuclid => decide ((11 * year + 14) % 30 < 11)

/-- days_in_month -/
def hijriDaysInMonth (month year : Int) : Int :=
  if month % 2 != 1 && (month != 12 || !isHijriLeap year) then 29 else 30

def yearBack (g : Int) : Nat → Int → Option Int
  | 0, _ => none
  | n + 1, y => if Gen.yearBackCmp.eval g (hijriAbsDate 1 1 y) then yearBack g n (y - 1) else some y

def yearFwd (g : Int) : Nat → Int → Option Int
  | 0, _ => none
  | n + 1, y => if Gen.yearFwdCmp.eval g (hijriAbsDate 1 1 (y + 1)) then yearFwd g n (y + 1) else some y

/-- hijri_year with fuel (`none` = the loop did not stop within the fuel) -/
def hijriYear (fuel : Nat) (g : Int) : Option Int :=
  if g < Gen.HIJRI_EPOCH then yearBack g fuel 0
  else yearFwd g fuel ((g - Gen.HIJRI_EPOCH - 1) / 355)

def monthLoop (g year : Int) : Nat → Int → Option Int
  | 0, _ => none
  | n + 1, m => if g > hijriAbsDate (hijriDaysInMonth m year) m year then monthLoop g year n (m + 1) else some m

/-- month_val with fuel; the counter is a u8, so more than 255 steps would overflow -/
def monthVal (g year : Int) : Option Int := monthLoop g year 255 1

structure Hijri where
  year : Int       -- as reported (u32, after adj_pre_epoch)
  month : Int      -- raw u8
  day : Int        -- raw u8
  preEpoch : Bool
  weekday : Int    -- 1 = Ahad (Sunday)
  deriving DecidableEq, Repr, Inhabited

def hijriFuel : Nat := 20000

/-- HijriDate::from for a common-era date; `none` = a loop ran away -/
def hijriOf (dt : Date) : Option Hijri :=
  let g := gregAbsDate dt
  match hijriYear hijriFuel g with
  | none => none
  | some year =>
    match monthVal g year with
    | none => none
    | some month =>
      let day := (g - hijriAbsDate 1 month year + 1) % 256
      let pre := decide (year ≤ 0)
      let yr := if year ≤ 0 then -(year - 1) else year
      some ⟨yr, month, day, pre, (Int.tmod g 7).natAbs + 1⟩

/-- `month()` / Display unwrap HijriMonth::try_from -/
def Hijri.monthOk (h : Hijri) : Bool := decide (1 ≤ h.month ∧ h.month ≤ 12)

end IPT
