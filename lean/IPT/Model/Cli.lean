import IPT.Model.Times
import IPT.Model.Range
import IPT.Model.Bounded
/- main.rs / cli.rs: argument → ParamsConfig wiring, the range computation the tool runs, and the
   JSON it writes with -o (serde's rendering of BTreeMap<NaiveDate, BTreeMap<Prayer, Result<PrayerTime,()>>>).
   clap, serde_json and the file system are modelled by contract; the rendering is compared byte
   for byte (length + FNV-1a hash) with the real binary's output file. -/
namespace IPT
variable {α : Type} [Add α] [Sub α] [Mul α] [Div α] [Neg α] [OfScientific α] [Sc α]

/-- what read_params_cli builds from accepted arguments (all four location values have passed
    their type's FromStr, i.e. the text route of C18) -/
structure CliArgs (α : Type) where
  method : Method
  lat : α
  lon : α
  elev : α
  gmt : α
  startRd : Option Int
  endRd : Option Int

structure ParamsConfig (α : Type) where
  params : Params α
  location : Location α
  startRd : Int
  endRd : Int

/-- read_params_cli: Params::new(method); missing start = today; missing end = start -/
def readParamsCli (a : CliArgs α) (today : Int) : ParamsConfig α :=
  let s := a.startRd.getD today
  { params := paramsNew a.method, location := ⟨⟨a.lat, a.lon, a.elev⟩, a.gmt⟩, startRd := s, endRd := a.endRd.getD s }

/-- the four location arguments are accepted iff each passes its type's range check -/
def cliLocation (lat lon elev gmt : α) : Option (Location α) :=
  match tryFrom .Latitude lat, tryFrom .Longitude lon, tryFrom .Elevation elev, tryFrom .Gmt gmt with
  | some a, some b, some c, some d => some ⟨⟨a, b, c⟩, d⟩
  | _, _, _, _ => none

/-- the map the tool computes: prayer_times_dt_rng_block(params, location, range, 365), which is the
    sequential map (Thm C15) -/
def cliCompute (c : ParamsConfig α) : Except Panic (List (Int × DayTimes)) :=
  (rangeDates c.startRd c.endRd).foldr
    (fun rd acc => match prayerTimesDt c.params c.location rd none, acc with
      | .ok d, .ok rest => .ok ((rd, d) :: rest)
      | .error e, _ => .error e
      | _, .error e => .error e)
    (.ok [])

def pad2 (n : Nat) : String := if n < 10 then "0" ++ toString n else toString n
def pad4 (n : Nat) : String :=
  let s := toString n
  String.ofList (List.replicate (4 - s.length) '0') ++ s

/-- chrono's NaiveDate serialisation for years 0..9999 (chrono writes a sign for other years:
    `+10000-01-01`, `-0001-03-01`; not modelled) -/
def isoDate (rd : Int) : String :=
  let d := fromRD rd
  pad4 d.y.toNat ++ "-" ++ pad2 d.m.toNat ++ "-" ++ pad2 d.d.toNat

def renderPT : Option PT → String
  | some t => "{\"Ok\":{\"time\":\"" ++ pad2 t.time.h ++ ":" ++ pad2 t.time.m ++ ":" ++ pad2 t.time.s ++
      "\",\"extreme\":" ++ (if t.extreme then "true" else "false") ++ "}}"
  | none => "{\"Err\":null}"

def renderDay (d : DayTimes) : String :=
  "{\"Imsaak\":" ++ renderPT d.imsaak ++ ",\"Fajr\":" ++ renderPT d.fajr ++ ",\"Shurooq\":" ++ renderPT d.shur ++
  ",\"Dhuhr\":" ++ renderPT d.dhuhr ++ ",\"Asr\":" ++ renderPT d.asr ++ ",\"Maghrib\":" ++ renderPT d.magh ++
  ",\"Isha\":" ++ renderPT d.isha ++ "}"

def renderRange (days : List (Int × DayTimes)) : String :=
  "{" ++ ",".intercalate (days.map fun (rd, d) => "\"" ++ isoDate rd ++ "\":" ++ renderDay d) ++ "}"

/-- the same document in canonical form (compact, object keys in byte order - what re-serialising the
    decoded JSON value gives): equal canonical forms = the two files decode to the same value.  Used
    by the correspondence when the bytes differ (a pretty-printed or re-ordered file still "decodes
    to exactly the library's result") -/
def renderPTCanon : Option PT → String
  | some t => "{\"Ok\":{\"extreme\":" ++ (if t.extreme then "true" else "false") ++ ",\"time\":\"" ++
      pad2 t.time.h ++ ":" ++ pad2 t.time.m ++ ":" ++ pad2 t.time.s ++ "\"}}"
  | none => "{\"Err\":null}"

def renderDayCanon (d : DayTimes) : String :=
  "{\"Asr\":" ++ renderPTCanon d.asr ++ ",\"Dhuhr\":" ++ renderPTCanon d.dhuhr ++ ",\"Fajr\":" ++ renderPTCanon d.fajr ++
  ",\"Imsaak\":" ++ renderPTCanon d.imsaak ++ ",\"Isha\":" ++ renderPTCanon d.isha ++ ",\"Maghrib\":" ++ renderPTCanon d.magh ++
  ",\"Shurooq\":" ++ renderPTCanon d.shur ++ "}"

/-- dates ascending = keys in byte order for the years 0000..9999 the date rendering covers -/
def renderRangeCanon (days : List (Int × DayTimes)) : String :=
  "{" ++ ",".intercalate (days.map fun (rd, d) => "\"" ++ isoDate rd ++ "\":" ++ renderDayCanon d) ++ "}"

/-- 64-bit FNV-1a of the UTF-8 bytes (to compare large outputs through the line protocol) -/
def fnv1a (s : String) : UInt64 :=
  s.toUTF8.foldl (fun h b => (h ^^^ b.toUInt64) * 0x100000001b3) 0xcbf29ce484222325

end IPT
