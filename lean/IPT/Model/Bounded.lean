import IPT.Gen.Consts
/- lib.rs Bounded::try_from and the six ranges -/
namespace IPT
variable {α : Type} [Add α] [Sub α] [Mul α] [Div α] [Neg α] [OfScientific α] [Sc α]

inductive BType where | Gmt | Latitude | Longitude | Elevation | Pressure | Temperature
  deriving DecidableEq, Repr

def BType.lo : BType → α
  | .Gmt => Gen.Gmt_LO | .Latitude => Gen.Latitude_LO | .Longitude => Gen.Longitude_LO
  | .Elevation => Gen.Elevation_LO | .Pressure => Gen.Pressure_LO | .Temperature => Gen.Temperature_LO

def BType.hi : BType → α
  | .Gmt => Gen.Gmt_HI | .Latitude => Gen.Latitude_HI | .Longitude => Gen.Longitude_HI
  | .Elevation => Gen.Elevation_HI | .Pressure => Gen.Pressure_HI | .Temperature => Gen.Temperature_HI

def BType.jsonChecked : BType → Bool
  | .Gmt => Gen.Gmt_JSON_CHECKED | .Latitude => Gen.Latitude_JSON_CHECKED
  | .Longitude => Gen.Longitude_JSON_CHECKED | .Elevation => Gen.Elevation_JSON_CHECKED
  | .Pressure => Gen.Pressure_JSON_CHECKED | .Temperature => Gen.Temperature_JSON_CHECKED

/-- Bounded::try_from: `range().contains(&v)`, the value stored unchanged -/
def tryFrom (t : BType) (v : α) : Option α :=
  if Sc.leb (t.lo : α) v && Sc.leb v (t.hi : α) then some v else none

/-- the JSON route: serde(try_from = "f64") when present, the bare derive (no check) otherwise -/
def fromJsonNumber (t : BType) (v : α) : Option α :=
  if t.jsonChecked then tryFrom t v else some v

/-- bit patterns of the twelve documented bounds (−12, 12, −90, 90, −180, 180, −420, 8848, 100, 1050,
    −90, 57); the driver's `rangecheck` request compares them with the bit patterns of the
    regenerated constants on every run, Thm C18 `boundBits_values` proves their exact values -/
def boundBits : BType → Nat × Nat
  | .Gmt => (0xC028000000000000, 0x4028000000000000)
  | .Latitude => (0xC056800000000000, 0x4056800000000000)
  | .Longitude => (0xC066800000000000, 0x4066800000000000)
  | .Elevation => (0xC07A400000000000, 0x40C1480000000000)
  | .Pressure => (0x4059000000000000, 0x4090680000000000)
  | .Temperature => (0xC056800000000000, 0x404C800000000000)

end IPT
