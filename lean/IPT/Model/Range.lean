import IPT.Gen.RangeGen
/- prayer_times/date.rs (DateRange over day numbers) and the sequential range API.
   SCOPE: day numbers are unbounded integers here; chrono's `NaiveDate` ends at 262142-12-31, and
   `partition` panics (chrono overflow) when start + block passes that date - outside every property's
   quantifier and not modelled. -/
namespace IPT

def usizeMod : Int := 18446744073709551616

/-- num_days: `(duration.num_days() + 1) as usize` (an i64 -> usize cast wraps) -/
def numDays (s e : Int) : Nat :=
  let d := e - s + 1
  if Gen.numDaysClamp then d.toNat else (d % usizeMod).toNat

/-- ceil(days / count) as the code computes it in f64 — exact for days, count < 2^52 -/
def blockSize (days count : Nat) : Int := ((days + count - 1) / count : Nat)

def partLoop (e block : Int) : Nat → Int → List (Int × Int)
  | 0, _ => []
  | n + 1, s =>
    if s ≤ e then
      let e' := if s + (block - 1) > e then e else s + (block - 1)
      (s, e') :: partLoop e block n (s + block)
    else []

/-- partition (the loop runs at most `days` times when block ≥ 1) -/
def partition (s e : Int) (count : Nat) : List (Int × Int) :=
  if count < 2 then [(s, e)]
  else
    let days := numDays s e
    partLoop e (blockSize days count) (days + 1) s

/-- the dates prayer_times_dt_rng visits: start.iter_days().take(num_days) -/
def rangeDates (s e : Int) : List Int := (List.range (numDays s e)).map fun (i : Nat) => s + (i : Int)

end IPT
