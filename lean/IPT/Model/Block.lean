import IPT.Model.Range
import IPT.Gen.Protocol
/- prayer_times_dt_rng_block: the fan-in protocol as a labelled transition system.
   One collector thread drains an mpsc channel into one map; the main thread spawns one worker per
   partition (each with its own clone of the sender), then drops the original sender; a worker
   computes its partition, sends it, and its sender is dropped when the thread ends.
   Channel contract (std::sync::mpsc): unbounded FIFO; `recv` returns a queued message if there is
   one, blocks while the queue is empty and some sender is alive, and returns Err once the queue is
   empty and every sender has been dropped.
   A worker may also panic inside its computation (`prayer_times_dt_rng` panics when a clock
   conversion does): it then sends nothing, the unwind drops its sender clone, the collector ends
   with the results of the others, and `thread::scope` re-raises the panic when it joins - action
   `die`, flag `panicked`. -/
namespace IPT
variable {P : Type}

/-- protocol state; `P` is a worker's partial result (the map for one partition) -/
structure BState (P : Type) where
  toSpawn : List P     -- partitions whose worker the main thread has not spawned yet
  running : List P     -- spawned workers that have not sent yet (each holds a sender clone)
  queue : List P       -- messages in the channel, oldest first
  merged : List P      -- what the collector has appended so far, in arrival order
  txAlive : Bool       -- the main thread still holds the original sender
  done : Bool          -- the collector's receive loop has ended
  panicked : Bool      -- some worker panicked (its result is lost; thread::scope re-raises the panic)

inductive BAct where
  | spawn               -- main: clone the sender, spawn the next worker
  | send (i : Nat)      -- worker i (index into `running`): send its result; its sender clone is dropped
  | dropTx              -- main: drop the original sender (after the spawn loop)
  | die (i : Nat)       -- worker i panics inside its computation: nothing is sent, its sender clone is dropped by the unwind
  | recv                -- collector: receive the oldest message and append it
  | close               -- collector: recv returns Err (queue empty, no sender left): loop ends
  deriving Repr

def bInit (parts : List P) : BState P := ⟨parts, [], [], [], true, false, false⟩

/-- one transition; `none` = the action is not enabled in this state -/
def bStep (s : BState P) : BAct → Option (BState P)
  | .spawn => match s.toSpawn with
    | p :: rest => if s.txAlive then some { s with toSpawn := rest, running := s.running ++ [p] } else none
    | [] => none
  | .send i => match s.running[i]? with
    | some p => if s.done then none else some { s with running := s.running.eraseIdx i, queue := s.queue ++ [p] }
    | none => none
  | .die i => match s.running[i]? with
    | some _ => if s.done then none else some { s with running := s.running.eraseIdx i, panicked := true }
    | none => none
  | .dropTx => if s.toSpawn.isEmpty && s.txAlive then some { s with txAlive := false } else none
  | .recv => match s.queue with
    | p :: q => if s.done then none else some { s with queue := q, merged := s.merged ++ [p] }
    | [] => none
  | .close =>
    if s.queue.isEmpty && s.running.isEmpty && s.toSpawn.isEmpty && !s.txAlive && !s.done
    then some { s with done := true } else none

/-- run a schedule (a list of actions); `none` if some action was not enabled -/
def bRun (s : BState P) : List BAct → Option (BState P)
  | [] => some s
  | a :: as => match bStep s a with
    | some s' => bRun s' as
    | none => none

/-- the sequential/parallel decision of prayer_times_dt_rng_block -/
def usesSequential (days availPll minDays : Nat) : Bool :=
  availPll == 1 || decide (days / availPll < minDays)

end IPT
