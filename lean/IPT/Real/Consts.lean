import IPT.Real.Inst
import IPT.Gen.Consts
import Mathlib.Tactic.NormNum
/- the generated constants, read over ℝ, as exact rationals -/
namespace IPT
open IPT.Gen

theorem c_TWO_PI_DEG : (TWO_PI_DEG : ℝ) = 360 := by unfold TWO_PI_DEG; norm_num
theorem c_PI_DEG : (PI_DEG : ℝ) = 180 := by unfold PI_DEG; norm_num
theorem c_RIGHT_ANG_DEG : (RIGHT_ANG_DEG : ℝ) = 90 := by unfold RIGHT_ANG_DEG; norm_num
theorem c_MIN_SEC : (MIN_SEC_PER_HR_MIN : ℝ) = 60 := by unfold MIN_SEC_PER_HR_MIN; norm_num
theorem c_HRS_PER_DAY : (HRS_PER_DAY : ℝ) = 24 := by unfold HRS_PER_DAY; norm_num
theorem c_DEF_ROUND_SEC : (DEF_ROUND_SEC : ℝ) = 30 := by unfold DEF_ROUND_SEC; norm_num
theorem c_AGGRESSIVE_ROUND_SEC : (AGGRESSIVE_ROUND_SEC : ℝ) = 1 := by unfold AGGRESSIVE_ROUND_SEC; norm_num
theorem c_DEGREES_TO_10_BASE : (DEGREES_TO_10_BASE : ℝ) = 6666666666666667 / 100000000000000000 := by
  unfold DEGREES_TO_10_BASE; norm_num
theorem c_CENTER_OF_SUN_ANGLE : (CENTER_OF_SUN_ANGLE : ℝ) = -(83337 / 100000) := by
  unfold CENTER_OF_SUN_ANGLE; norm_num
theorem c_ASR_SHAFI : (ASR_SHAFI : ℝ) = 1 := by unfold ASR_SHAFI; norm_num
theorem c_ASR_HANAFI : (ASR_HANAFI : ℝ) = 2 := by unfold ASR_HANAFI; norm_num
theorem c_KAABA_LATITUDE : (KAABA_LATITUDE : ℝ) = 21423333 / 1000000 := by unfold KAABA_LATITUDE; norm_num
theorem c_KAABA_LONGITUDE : (KAABA_LONGITUDE : ℝ) = 39823333 / 1000000 := by unfold KAABA_LONGITUDE; norm_num
theorem c_SIDEREAL_RATE : (SIDEREAL_RATE : ℝ) = 360985647 / 1000000 := by unfold SIDEREAL_RATE; norm_num
theorem c_RA_WRAP_HI : (RA_WRAP_HI : ℝ) = 350 := by unfold RA_WRAP_HI; norm_num
theorem c_RA_WRAP_LO : (RA_WRAP_LO : ℝ) = 10 := by unfold RA_WRAP_LO; norm_num
theorem c_DEF_IMSAAK_ANGLE : (DEF_IMSAAK_ANGLE : ℝ) = 3 / 2 := by unfold DEF_IMSAAK_ANGLE; norm_num

theorem lit_zero : (0.0 : ℝ) = 0 := by norm_num
theorem lit_one : (1.0 : ℝ) = 1 := by norm_num
theorem lit_two : (2.0 : ℝ) = 2 := by norm_num

end IPT
