import Mathlib.Analysis.SpecialFunctions.Trigonometric.Arctan
import Mathlib.Analysis.SpecialFunctions.Complex.Arg
import Mathlib.Data.Rat.Cast.OfScientific
import Mathlib.Algebra.Order.Archimedean.Real.Basic
import IPT.Scalar
/-
  The ideal-arithmetic instance of the scalar interface: the same model definitions, read over ℝ,
  are the semantics the analytic theorems are about.  Ordinary arithmetic and decimal literals
  resolve to Mathlib's own instances on ℝ.
-/
namespace IPT
open Classical in
noncomputable instance : Sc ℝ where
  pi := Real.pi
  sin := Real.sin
  cos := Real.cos
  tan := Real.tan
  asin := Real.arcsin
  acos := Real.arccos
  atan := Real.arctan
  atan2 y x := Complex.arg ⟨x, y⟩
  floor x := (⌊x⌋ : ℤ)
  abs x := |x|
  ltb a b := decide (a < b)
  leb a b := decide (a ≤ b)
  eqb a b := decide (a = b)
  toU32 x := min (Int.toNat ⌊x⌋) 4294967295
  ofInt i := (i : ℝ)

@[simp] theorem sc_pi : (Sc.pi : ℝ) = Real.pi := rfl
@[simp] theorem sc_sin (x : ℝ) : Sc.sin x = Real.sin x := rfl
@[simp] theorem sc_cos (x : ℝ) : Sc.cos x = Real.cos x := rfl
@[simp] theorem sc_tan (x : ℝ) : Sc.tan x = Real.tan x := rfl
@[simp] theorem sc_asin (x : ℝ) : Sc.asin x = Real.arcsin x := rfl
@[simp] theorem sc_acos (x : ℝ) : Sc.acos x = Real.arccos x := rfl
@[simp] theorem sc_atan (x : ℝ) : Sc.atan x = Real.arctan x := rfl
@[simp] theorem sc_atan2 (y x : ℝ) : Sc.atan2 y x = Complex.arg ⟨x, y⟩ := rfl
@[simp] theorem sc_floor (x : ℝ) : Sc.floor x = ((⌊x⌋ : ℤ) : ℝ) := rfl
@[simp] theorem sc_abs (x : ℝ) : Sc.abs x = |x| := rfl
@[simp] theorem sc_ltb (a b : ℝ) : Sc.ltb a b = decide (a < b) := rfl
@[simp] theorem sc_leb (a b : ℝ) : Sc.leb a b = decide (a ≤ b) := rfl
@[simp] theorem sc_eqb (a b : ℝ) : Sc.eqb a b = decide (a = b) := rfl
@[simp] theorem sc_toU32 (x : ℝ) : Sc.toU32 x = min (Int.toNat ⌊x⌋) 4294967295 := rfl
@[simp] theorem sc_ofInt (i : ℤ) : (Sc.ofInt i : ℝ) = (i : ℝ) := rfl

theorem toRadians_real (x : ℝ) : toRadians x = x * (Real.pi / 180) := by
  simp only [toRadians, sc_pi]; norm_num

theorem toDegrees_real (x : ℝ) : toDegrees x = x * (180 / Real.pi) := by
  simp only [toDegrees, sc_pi]; norm_num

theorem withinAbs1_real (v : ℝ) : withinAbs1 v = true ↔ -1 ≤ v ∧ v ≤ 1 := by
  simp only [withinAbs1, sc_leb, Bool.and_eq_true, decide_eq_true_eq]; norm_num

end IPT
