import IPT.Model.F64
/-
  The JSON number grammar is contained in Rust's `f64::from_str` grammar, with the same reading:
  every string `parseJson` reads as a number, `parseRust` reads as the same number.
-/
namespace IPT.F64

theorem toLower_digit (c : Char) (h : isDigit c = true) : c.toLower = c := by
  unfold isDigit at h
  simp only [Bool.and_eq_true, decide_eq_true_eq] at h
  unfold Char.toLower
  have h2 : c.val ≤ '9'.val := h.2
  have : ¬ (c.val ≥ 'A'.val ∧ c.val ≤ 'Z'.val) := by
    intro ⟨h3, _⟩
    have : ('9'.val) < 'A'.val := by decide
    exact absurd (Nat.lt_of_lt_of_le (UInt32.lt_iff_toNat_lt.mp this) (UInt32.le_iff_toNat_le.mp h3)) (Nat.not_lt.mpr (UInt32.le_iff_toNat_le.mp h2))
  rw [dif_neg this]

/-- a string that begins with a digit is none of the words `inf`, `infinity`, `nan` in any case -/
theorem lower_digit_not_word (c : Char) (cs : List Char) (h : isDigit c = true) :
    (lower (c :: cs) == "inf") = false ∧ (lower (c :: cs) == "infinity") = false ∧
    (lower (c :: cs) == "nan") = false := by
  have key : ∀ t : String, (∀ d ds, t.toList = d :: ds → isDigit d = false) → (lower (c :: cs) == t) = false := by
    intro t ht
    apply Bool.eq_false_iff.mpr
    intro he
    have he : lower (c :: cs) = t := by simpa using he
    have : (lower (c :: cs)).toList = t.toList := by rw [he]
    unfold lower at this
    rw [String.toList_ofList, List.map_cons, toLower_digit c h] at this
    have := ht c _ this.symm
    rw [h] at this; exact Bool.noConfusion this
  refine ⟨key _ ?_, key _ ?_, key _ ?_⟩
  · intro d ds hd
    have : "inf".toList = ['i','n','f'] := by decide
    rw [this] at hd; cases hd; decide
  · intro d ds hd
    have : "infinity".toList = ['i','n','f','i','n','i','t','y'] := by decide
    rw [this] at hd; cases hd; decide
  · intro d ds hd
    have : "nan".toList = ['n','a','n'] := by decide
    rw [this] at hd; cases hd; decide

theorem takeDigits_head (cs : List Char) (h : (takeDigits cs).1.isEmpty = false) :
    ∃ c r, cs = c :: r ∧ isDigit c = true := by
  cases cs with
  | nil => simp [takeDigits] at h
  | cons c r =>
    refine ⟨c, r, rfl, ?_⟩
    by_cases hc : isDigit c = true
    · exact hc
    · simp [takeDigits, hc] at h

/-- after the sign, whatever the JSON grammar reads as a number Rust's grammar reads as the same number -/
theorem rustBody_of_jsonBody (neg : Bool) (cs : List Char) (d : Dec) (h : jsonBody neg cs = .num d) :
    rustBody neg cs = .num d := by
  unfold jsonBody at h
  simp only at h
  by_cases hip : (takeDigits cs).1.isEmpty = true
  · simp [hip] at h
  · have hip' : (takeDigits cs).1.isEmpty = false := by simpa using hip
    obtain ⟨c, r, hcs, hc⟩ := takeDigits_head cs hip'
    obtain ⟨w1, w2, w3⟩ := lower_digit_not_word c r hc
    unfold rustBody
    simp only [hcs] at *
    simp only [w1, w2, w3, Bool.or_false, Bool.false_eq_true, if_false]
    simp only [hip', Bool.false_eq_true, if_false, Bool.false_and] at h ⊢
    split at h
    · exact absurd h (by simp)
    · cases hsd : splitDot (takeDigits (c :: r)).2 with
      | none => simpa [hsd] using h
      | some r2 =>
        simp only [hsd] at h ⊢
        by_cases hf : (takeDigits r2).1.isEmpty = true
        · simp [hf] at h
        · simp only [hf] at h ⊢
          exact h

/-- **the JSON number grammar is contained in Rust's `f64::from_str` grammar, with the same reading** -/
theorem parseRust_of_parseJson (s : String) (d : Dec) (h : parseJson s = .num d) : parseRust s = .num d := by
  unfold parseJson at h
  unfold parseRust
  split at h
  · rename_i r heq
    rw [heq]
    exact rustBody_of_jsonBody _ _ _ h
  · rename_i r hne
    split
    · rename_i r' heq
      exact absurd heq (hne r')
    · rename_i r' heq
      rw [heq] at h
      have : jsonBody false ('+' :: r') = .bad := by
        unfold jsonBody
        have : (takeDigits ('+' :: r')).1 = [] := by
          unfold takeDigits
          have : isDigit '+' = false := by decide
          simp [this]
        simp [this]
      rw [this] at h
      exact Parsed.noConfusion h
    · exact rustBody_of_jsonBody _ _ _ h

theorem jsonBody_num_or_bad (neg : Bool) (cs : List Char) :
    jsonBody neg cs = .bad ∨ ∃ d, jsonBody neg cs = .num d := by
  unfold jsonBody
  simp only
  split
  · exact .inl rfl
  · split
    · exact .inl rfl
    · split
      · exact .inl rfl
      · split
        · exact .inr ⟨_, rfl⟩
        · split
          · exact .inr ⟨_, rfl⟩
          · exact .inl rfl

/-- the JSON grammar has no words: a string is a JSON number or malformed -/
theorem parseJson_num_or_bad (s : String) : parseJson s = .bad ∨ ∃ d, parseJson s = .num d := by
  unfold parseJson
  split <;> exact jsonBody_num_or_bad _ _

end IPT.F64
