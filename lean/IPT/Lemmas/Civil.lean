import IPT.Model.Civil
/- civil-calendar lemmas: `fromRD` returns a valid date with the given day number (all ℤ) -/
namespace IPT.CivilLemmas
open IPT
theorem yearOfRD_spec (n : Int) : toRD ⟨yearOfRD n, 1, 1⟩ ≤ n ∧ n < toRD ⟨yearOfRD n + 1, 1, 1⟩ := by
  have key : ∃ a b c d r1 r2 r3 : Int,
      (n - 1 = 146097 * a + r1) ∧ (0 ≤ r1 ∧ r1 < 146097) ∧ (r1 = 36524 * b + r2) ∧ (0 ≤ r2 ∧ r2 < 36524) ∧
      (r2 = 1461 * c + r3) ∧ (0 ≤ r3 ∧ r3 < 1461) ∧ (365 * d ≤ r3 ∧ r3 < 365 * d + 365) ∧
      yearOfRD n = (if b = 4 ∨ d = 4 then 400 * a + 100 * b + 4 * c + d else 400 * a + 100 * b + 4 * c + d + 1) :=
    ⟨(n - 1) / 146097, (n - 1) % 146097 / 36524, (n - 1) % 146097 % 36524 / 1461,
      (n - 1) % 146097 % 36524 % 1461 / 365, (n - 1) % 146097, (n - 1) % 146097 % 36524,
      (n - 1) % 146097 % 36524 % 1461, by omega, by omega, by omega, by omega, by omega, by omega, by omega, rfl⟩
  obtain ⟨a, b, c, d, r1, r2, r3, f1, f2, f3, f4, f5, f6, f7, hy⟩ := key
  rw [hy]
  simp only [toRD, daysBeforeYear, daysBeforeMonth]
  have gb : 0 ≤ b ∧ b ≤ 4 := by omega
  have gc : 0 ≤ c ∧ c ≤ 24 := by omega
  have gd : 0 ≤ d ∧ d ≤ 4 := by omega
  split
  · rename_i h
    rcases h with h | h
    · -- last day of a 400-year cycle
      subst h
      have : c = 0 ∧ d = 0 := by omega
      obtain ⟨rfl, rfl⟩ := this
      have q1 : (400 * a + 100 * 4 + 4 * 0 + 0 - 1) / 4 = 100 * a + 99 := by omega
      have q2 : (400 * a + 100 * 4 + 4 * 0 + 0 - 1) / 100 = 4 * a + 3 := by omega
      have q3 : (400 * a + 100 * 4 + 4 * 0 + 0 - 1) / 400 = a := by omega
      have q4 : (400 * a + 100 * 4 + 4 * 0 + 0 + 1 - 1) / 4 = 100 * a + 100 := by omega
      have q5 : (400 * a + 100 * 4 + 4 * 0 + 0 + 1 - 1) / 100 = 4 * a + 4 := by omega
      have q6 : (400 * a + 100 * 4 + 4 * 0 + 0 + 1 - 1) / 400 = a + 1 := by omega
      simp only [q1, q2, q3, q4, q5, q6]; omega
    · -- last day of a 4-year cycle
      subst h
      have hb3 : b ≤ 3 ∨ b = 4 := by omega
      rcases hb3 with hb3 | hb3
      · have q1 : (400 * a + 100 * b + 4 * c + 4 - 1) / 4 = 100 * a + 25 * b + c := by omega
        have q2 : (400 * a + 100 * b + 4 * c + 4 - 1) / 100 = 4 * a + b := by omega
        have q3 : (400 * a + 100 * b + 4 * c + 4 - 1) / 400 = a := by omega
        have q4 : (400 * a + 100 * b + 4 * c + 4 + 1 - 1) / 4 = 100 * a + 25 * b + c + 1 := by omega
        have hc24 : c ≤ 23 ∨ c = 24 := by omega
        rcases hc24 with hc24 | hc24
        · have q5 : (400 * a + 100 * b + 4 * c + 4 + 1 - 1) / 100 = 4 * a + b := by omega
          have q6 : (400 * a + 100 * b + 4 * c + 4 + 1 - 1) / 400 = a := by omega
          simp only [q1, q2, q3, q4, q5, q6]; omega
        · subst hc24
          -- c = 24 and d = 4 would need r2 >= 36524: impossible unless b = 4
          omega
      · subst hb3; omega
  · rename_i h
    have hb3 : b ≤ 3 := by omega
    have hd3 : d ≤ 3 := by omega
    have q1 : (400 * a + 100 * b + 4 * c + d + 1 - 1) / 4 = 100 * a + 25 * b + c := by omega
    have q2 : (400 * a + 100 * b + 4 * c + d + 1 - 1) / 100 = 4 * a + b := by omega
    have q3 : (400 * a + 100 * b + 4 * c + d + 1 - 1) / 400 = a := by omega
    have q4 : (400 * a + 100 * b + 4 * c + d + 1 + 1 - 1) / 4 = 100 * a + 25 * b + c + (if d = 3 then 1 else 0) := by
      split <;> omega
    have q5 : (400 * a + 100 * b + 4 * c + d + 1 + 1 - 1) / 100 = 4 * a + b + (if c = 24 ∧ d = 3 then 1 else 0) := by
      split <;> omega
    have q6 : (400 * a + 100 * b + 4 * c + d + 1 + 1 - 1) / 400 = a + (if b = 3 ∧ c = 24 ∧ d = 3 then 1 else 0) := by
      split <;> omega
    simp only [q1, q2, q3, q4, q5, q6]
    split <;> split <;> split <;> omega

theorem yearLen (y : Int) : toRD ⟨y + 1, 1, 1⟩ - toRD ⟨y, 1, 1⟩ = if isLeap y then 366 else 365 := by
  simp only [toRD, daysBeforeYear, daysBeforeMonth, isLeap, Bool.or_eq_true, Bool.and_eq_true, beq_iff_eq, bne_iff_ne, ne_eq]
  have e : y + 1 - 1 = y := by omega
  rw [e]
  split <;> omega

/-- offset of the first day of month m within a year (lp = 1 in leap years), as in `daysBeforeMonth` -/
def dbm (lp m : Int) : Int := (367 * m - 362) / 12 + (if m ≤ 2 then 0 else lp - 2)

/-- the month formula of `fromRD`: for a day offset p within the year it returns the month whose
    span contains p -/
theorem month_of_offset (p lp : Int) (hlp : lp = 0 ∨ lp = 1) (h0 : 0 ≤ p) (h1 : p < 365 + lp) :
    let corr := if p < 59 + lp then 0 else 2 - lp
    let m := (12 * (p + corr) + 373) / 367
    1 ≤ m ∧ m ≤ 12 ∧ dbm lp m ≤ p ∧ p < dbm lp (m + 1) := by
  intro corr m
  have hm : 1 ≤ m ∧ m ≤ 12 := by
    simp only [m, corr]; split <;> omega
  have hcases : m = 1 ∨ m = 2 ∨ m = 3 ∨ m = 4 ∨ m = 5 ∨ m = 6 ∨ m = 7 ∨ m = 8 ∨ m = 9 ∨ m = 10 ∨ m = 11 ∨ m = 12 := by omega
  refine ⟨hm.1, hm.2, ?_⟩
  rcases hlp with rfl | rfl <;>
    rcases hcases with h | h | h | h | h | h | h | h | h | h | h | h <;>
    (rw [h]; simp only [dbm, Int.reduceLE, Int.reduceAdd, if_true, if_false, Int.reduceMul, Int.reduceSub, Int.reduceDiv]; simp only [m, corr] at h; split at h <;> omega)


theorem daysBeforeMonth_eq (y m : Int) : daysBeforeMonth y m = dbm (if isLeap y then 1 else 0) m := by
  unfold daysBeforeMonth dbm
  cases isLeap y <;> simp

/-- **`fromRD n` is a valid calendar date whose day number is n** (month 1..12, day 1..31, within
    the year `yearOfRD n`) — for every integer n -/
theorem fromRD_valid (n : Int) :
    1 ≤ (fromRD n).m ∧ (fromRD n).m ≤ 12 ∧ 1 ≤ (fromRD n).d ∧ (fromRD n).d ≤ 31 ∧ toRD (fromRD n) = n ∧
    (fromRD n).y = yearOfRD n := by
  have hy := yearOfRD_spec n
  have hl := yearLen (yearOfRD n)
  simp only [fromRD]
  generalize yearOfRD n = y at *
  simp only [toRD, daysBeforeMonth_eq] at *
  have hlen : (if isLeap y = true then (366 : Int) else 365) = 365 + (if isLeap y = true then 1 else 0) := by
    split <;> rfl
  rw [hlen] at hl
  generalize hlp : (if isLeap y = true then (1 : Int) else 0) = lp at *
  have hlp01 : lp = 0 ∨ lp = 1 := by rw [← hlp]; split <;> simp
  have hcorr : (if isLeap y = true then (1 : Int) else 2) = 2 - lp := by rw [← hlp]; split <;> simp
  generalize daysBeforeYear y = Y at *
  generalize hlp1 : (if isLeap (y + 1) = true then (1 : Int) else 0) = lp1 at *
  generalize daysBeforeYear (y + 1) = Y1 at *
  have d1 : dbm lp 1 = 0 := by simp [dbm]
  have d1' : dbm lp1 1 = 0 := by simp [dbm]
  have d3 : dbm lp 3 = 59 + lp := by simp [dbm]; omega
  rw [d1] at hy hl ⊢
  rw [d1'] at hy hl
  rw [d3, hcorr]
  have hp0 : 0 ≤ n - (Y + 0 + 1) := by omega
  have hp1 : n - (Y + 0 + 1) < 365 + lp := by omega
  have key := month_of_offset (n - (Y + 0 + 1)) lp hlp01 hp0 hp1
  simp only at key
  have hc : (n < Y + (59 + lp) + 1) ↔ (n - (Y + 0 + 1) < 59 + lp) := by omega
  simp only [hc]
  obtain ⟨k1, k2, k3, k4⟩ := key
  refine ⟨k1, k2, by omega, ?_, by omega, trivial⟩
  -- day ≤ 31: every month span is at most 31 days
  generalize (12 * (n - (Y + 0 + 1) + if n - (Y + 0 + 1) < 59 + lp then 0 else 2 - lp) + 373) / 367 = m at *
  have hspan : dbm lp (m + 1) - dbm lp m ≤ 31 := by
    have hcases : m = 1 ∨ m = 2 ∨ m = 3 ∨ m = 4 ∨ m = 5 ∨ m = 6 ∨ m = 7 ∨ m = 8 ∨ m = 9 ∨ m = 10 ∨ m = 11 ∨ m = 12 := by omega
    rcases hlp01 with rfl | rfl <;> rcases hcases with h | h | h | h | h | h | h | h | h | h | h | h <;>
      (subst h; simp [dbm])
  omega

/-- start of year is strictly increasing in the year (a year has at least 365 days) -/
theorem yearStart_le_of_lt (y : Int) : ∀ (k : Nat), toRD ⟨y, 1, 1⟩ + 365 * ((k : Int) + 1) ≤ toRD ⟨y + ((k : Int) + 1), 1, 1⟩ := by
  intro k
  induction k with
  | zero =>
    have := yearLen y
    simp only [Int.natCast_zero, Int.zero_add] at *
    split at this <;> omega
  | succ k ih =>
    have h := yearLen (y + ((k : Int) + 1))
    have e : y + (((k + 1 : Nat) : Int) + 1) = y + ((k : Int) + 1) + 1 := by omega
    rw [e]
    have e2 : (((k + 1 : Nat) : Int) + 1) = (k : Int) + 1 + 1 := by omega
    rw [e2]
    split at h <;> omega

theorem yearStart_lt (y y' : Int) (h : y < y') : toRD ⟨y, 1, 1⟩ + 365 ≤ toRD ⟨y', 1, 1⟩ := by
  obtain ⟨k, hk⟩ : ∃ k : Nat, y' = y + ((k : Int) + 1) := ⟨(y' - y - 1).toNat, by omega⟩
  have := yearStart_le_of_lt y k
  rw [hk]; omega

/-- the year of a day number is the unique year whose span contains it -/
theorem yearOfRD_unique (n y : Int) (h1 : toRD ⟨y, 1, 1⟩ ≤ n) (h2 : n < toRD ⟨y + 1, 1, 1⟩) : yearOfRD n = y := by
  have hs := yearOfRD_spec n
  rcases Int.lt_trichotomy (yearOfRD n) y with h | h | h
  · have := yearStart_lt (yearOfRD n) y h
    have h' : yearOfRD n + 1 ≤ y := h
    rcases Int.lt_or_eq_of_le h' with h'' | h''
    · have := yearStart_lt (yearOfRD n + 1) y h''; omega
    · rw [h''] at hs; omega
  · exact h
  · have h' : y + 1 ≤ yearOfRD n := h
    rcases Int.lt_or_eq_of_le h' with h'' | h''
    · have := yearStart_lt (y + 1) (yearOfRD n) h''; omega
    · rw [← h''] at hs; omega

/-- days in month m of a year with leap indicator lp -/
def dim (lp m : Int) : Int := dbm lp (m + 1) - dbm lp m

/-- a calendar date: month 1..12, day 1..length of that month -/
def ValidDate (dt : Date) : Prop :=
  1 ≤ dt.m ∧ dt.m ≤ 12 ∧ 1 ≤ dt.d ∧ dt.d ≤ dim (if isLeap dt.y then 1 else 0) dt.m

theorem dim_values (lp : Int) : dim lp 1 = 31 ∧ dim lp 2 = 28 + lp ∧ dim lp 3 = 31 ∧ dim lp 4 = 30 ∧ dim lp 5 = 31 ∧
    dim lp 6 = 30 ∧ dim lp 7 = 31 ∧ dim lp 8 = 31 ∧ dim lp 9 = 30 ∧ dim lp 10 = 31 ∧ dim lp 11 = 30 ∧ dim lp 12 = 31 := by
  simp [dim, dbm]; omega

/-- a calendar date lies within its year: first day of the year ≤ day number < first day of the next -/
theorem valid_within_year (dt : Date) (h : ValidDate dt) :
    toRD ⟨dt.y, 1, 1⟩ ≤ toRD dt ∧ toRD dt < toRD ⟨dt.y + 1, 1, 1⟩ := by
  obtain ⟨y, m, d⟩ := dt
  obtain ⟨hm1, hm2, hd1, hd2⟩ := h
  simp only at hm1 hm2 hd1 hd2
  have hlen := yearLen y
  have hlp01 : (if isLeap y = true then (1 : Int) else 0) = 0 ∨ (if isLeap y = true then (1 : Int) else 0) = 1 := by
    split <;> simp
  have hcases : m = 1 ∨ m = 2 ∨ m = 3 ∨ m = 4 ∨ m = 5 ∨ m = 6 ∨ m = 7 ∨ m = 8 ∨ m = 9 ∨ m = 10 ∨ m = 11 ∨ m = 12 := by omega
  constructor
  · simp only [toRD, daysBeforeMonth_eq] at *
    generalize (if isLeap y = true then (1 : Int) else 0) = lp at *
    rcases hcases with h | h | h | h | h | h | h | h | h | h | h | h <;>
      (subst h; simp only [dim, dbm] at *; simp at *; omega)
  · have hl2 : toRD ⟨y + 1, 1, 1⟩ = toRD ⟨y, 1, 1⟩ + (365 + (if isLeap y = true then (1 : Int) else 0)) := by
      split at hlen <;> simp_all <;> omega
    rw [hl2]
    simp only [toRD, daysBeforeMonth_eq] at *
    generalize (if isLeap y = true then (1 : Int) else 0) = lp at *
    rcases hcases with h | h | h | h | h | h | h | h | h | h | h | h <;>
      (subst h; simp only [dim, dbm] at *; simp at *; omega)

/-- the first day of a year does not come before the first day of an earlier year -/
theorem yearStart_mono (y y' : Int) (h : y ≤ y') : toRD ⟨y, 1, 1⟩ ≤ toRD ⟨y', 1, 1⟩ := by
  rcases Int.lt_or_eq_of_le h with h | h
  · have := yearStart_lt y y' h; omega
  · rw [h]; exact Int.le_refl _

/-- **the calendar dates of the years 1 to 9999 are exactly the day numbers 1 to 3 652 059** (one
    direction; the other is `fromRD_valid`): chrono's `NaiveDate` range used by the Hijri theorems -/
theorem valid_date_range (dt : Date) (h : ValidDate dt) (h1 : 1 ≤ dt.y) (h2 : dt.y ≤ 9999) :
    1 ≤ toRD dt ∧ toRD dt ≤ 3652059 := by
  obtain ⟨a, b⟩ := valid_within_year dt h
  have lo := yearStart_mono 1 dt.y h1
  have hi := yearStart_mono (dt.y + 1) 10000 (by omega)
  have e1 : toRD ⟨1, 1, 1⟩ = 1 := by decide
  have e2 : toRD ⟨10000, 1, 1⟩ = 3652060 := by decide
  omega

/-- **`fromRD` inverts `toRD` on every calendar date** (with `fromRD_valid`: the dates and the day
    numbers are in bijection - chrono's contract for `NaiveDate` arithmetic) -/
theorem fromRD_toRD (dt : Date) (h : ValidDate dt) : fromRD (toRD dt) = dt := by
  obtain ⟨y, m, d⟩ := dt
  obtain ⟨hm1, hm2, hd1, hd2⟩ := h
  simp only at hm1 hm2 hd1 hd2
  have hlen := yearLen y
  have hlp01 : (if isLeap y = true then (1 : Int) else 0) = 0 ∨ (if isLeap y = true then (1 : Int) else 0) = 1 := by
    split <;> simp
  have hy : yearOfRD (toRD ⟨y, m, d⟩) = y := by
    apply yearOfRD_unique
    · simp only [toRD, daysBeforeMonth_eq] at *
      generalize (if isLeap y = true then (1 : Int) else 0) = lp at *
      have hcases : m = 1 ∨ m = 2 ∨ m = 3 ∨ m = 4 ∨ m = 5 ∨ m = 6 ∨ m = 7 ∨ m = 8 ∨ m = 9 ∨ m = 10 ∨ m = 11 ∨ m = 12 := by omega
      rcases hcases with h | h | h | h | h | h | h | h | h | h | h | h <;>
        (subst h; simp only [dim, dbm] at *; simp at *; omega)
    · have hl2 : toRD ⟨y + 1, 1, 1⟩ = toRD ⟨y, 1, 1⟩ + (365 + (if isLeap y = true then (1 : Int) else 0)) := by
        split at hlen <;> simp_all <;> omega
      rw [hl2]
      simp only [toRD, daysBeforeMonth_eq] at *
      generalize (if isLeap y = true then (1 : Int) else 0) = lp at *
      have hcases : m = 1 ∨ m = 2 ∨ m = 3 ∨ m = 4 ∨ m = 5 ∨ m = 6 ∨ m = 7 ∨ m = 8 ∨ m = 9 ∨ m = 10 ∨ m = 11 ∨ m = 12 := by omega
      rcases hcases with h | h | h | h | h | h | h | h | h | h | h | h <;>
        (subst h; simp only [dim, dbm] at *; simp at *; omega)
  simp only [fromRD, hy]
  simp only [toRD, daysBeforeMonth_eq] at *
  have hcorr : (if isLeap y = true then (1 : Int) else 2) = 2 - (if isLeap y = true then (1 : Int) else 0) := by
    split <;> simp
  rw [hcorr]
  generalize (if isLeap y = true then (1 : Int) else 0) = lp at *
  generalize daysBeforeYear y = Y at *
  have hcases : m = 1 ∨ m = 2 ∨ m = 3 ∨ m = 4 ∨ m = 5 ∨ m = 6 ∨ m = 7 ∨ m = 8 ∨ m = 9 ∨ m = 10 ∨ m = 11 ∨ m = 12 := by omega
  have d1 : dbm lp 1 = 0 := by simp [dbm]
  have d3 : dbm lp 3 = 59 + lp := by simp [dbm]; omega
  rw [d1, d3]
  have hmonth : (12 * (Y + dbm lp m + d - (Y + 0 + 1) +
      (if Y + dbm lp m + d < Y + (59 + lp) + 1 then 0 else 2 - lp)) + 373) / 367 = m := by
    rcases hlp01 with rfl | rfl <;>
    rcases hcases with h | h | h | h | h | h | h | h | h | h | h | h <;>
      (subst h; simp only [dim, dbm] at *; simp at *; split <;> omega)
  rw [hmonth]
  congr 1
  omega

end IPT.CivilLemmas
