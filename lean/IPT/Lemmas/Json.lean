import IPT.Model.CliDecode
import IPT.Lemmas.Civil
/- Helper lemmas for Thm/C19 `decode_render`: each parsing step of Model/CliDecode undoes the
   corresponding piece of Model/Cli's rendering, with an arbitrary rest `r` after it. -/
namespace IPT.JsonLemmas
open IPT

theorem strip_append (p r : List Char) : stripPrefix? p (p ++ r) = some r := by
  induction p with
  | nil => rfl
  | cons c p ih => simp [stripPrefix?, ih]

/-- digits ds (exactly k of them) followed by anything -/
theorem takeNum_append (k : Nat) (ds r : List Char) (hl : ds.length = k) (hd : ds.all Char.isDigit = true) :
    takeNum k (ds ++ r) = some (Nat.ofDigitChars 10 ds 0, r) := by
  unfold takeNum
  have h1 : (ds ++ r).take k = ds := by rw [← hl]; simp
  have h2 : (ds ++ r).drop k = r := by rw [← hl]; simp
  rw [h1, h2, if_pos ⟨by simp [← hl], hd⟩]

theorem digits_all (n : Nat) : (Nat.toDigits 10 n).all Char.isDigit = true := by
  rw [List.all_eq_true]
  intro c hc
  exact Nat.isDigit_of_mem_toDigits (by decide) (by decide) hc

/-- pad2 n is two digits whose value is n (n < 100) -/
theorem pad2_digits (n : Nat) (h : n < 100) :
    ∃ ds, (pad2 n).toList = ds ∧ ds.length = 2 ∧ ds.all Char.isDigit = true ∧ Nat.ofDigitChars 10 ds 0 = n := by
  unfold pad2
  by_cases h10 : n < 10
  · refine ⟨'0' :: Nat.toDigits 10 n, by simp [h10], ?_, ?_, ?_⟩
    · simp [Nat.toDigits_of_lt_base h10]
    · simp only [List.all_cons, digits_all, Bool.and_true]; decide
    · simp [Nat.ofDigitChars_cons]
  · refine ⟨Nat.toDigits 10 n, by simp [h10], ?_, digits_all n, Nat.ofDigitChars_ten_toDigits⟩
    have a : (Nat.toDigits 10 n).length ≤ 2 := (Nat.length_toDigits_le_iff (by decide) (by decide)).mpr (by omega)
    have b : ¬ (Nat.toDigits 10 n).length ≤ 1 := by
      rw [Nat.length_toDigits_le_iff (by decide) (by decide)]; omega
    omega

/-- pad4 n is four digits whose value is n (n < 10000) -/
theorem pad4_digits (n : Nat) (h : n < 10000) :
    ∃ ds, (pad4 n).toList = ds ∧ ds.length = 4 ∧ ds.all Char.isDigit = true ∧ Nat.ofDigitChars 10 ds 0 = n := by
  unfold pad4
  have a : (Nat.toDigits 10 n).length ≤ 4 := (Nat.length_toDigits_le_iff (by decide) (by decide)).mpr (by omega)
  refine ⟨List.replicate (4 - (Nat.toDigits 10 n).length) '0' ++ Nat.toDigits 10 n, ?_, ?_, ?_, ?_⟩
  · have hl : n.repr.length = (Nat.toDigits 10 n).length := by
      rw [← String.length_toList]; simp
    simp [hl]
  · simp; omega
  · simp only [List.all_append, digits_all, Bool.and_true, List.all_replicate]
    simp
  · rw [Nat.ofDigitChars_append]; simp

theorem takeNum_pad2 (n : Nat) (h : n < 100) (r : List Char) :
    takeNum 2 ((pad2 n).toList ++ r) = some (n, r) := by
  obtain ⟨ds, e, l, d, v⟩ := pad2_digits n h
  rw [e, takeNum_append 2 ds r l d, v]

theorem takeNum_pad4 (n : Nat) (h : n < 10000) (r : List Char) :
    takeNum 4 ((pad4 n).toList ++ r) = some (n, r) := by
  obtain ⟨ds, e, l, d, v⟩ := pad4_digits n h
  rw [e, takeNum_append 4 ds r l d, v]

theorem decodeBool_render (b : Bool) (r : List Char) :
    decodeBool ((if b then "true" else "false" : String).toList ++ r) = some (b, r) := by
  cases b
  · have : stripPrefix? "true".toList ("false".toList ++ r) = none := by
      have a : "true".toList = ['t','r','u','e'] := by decide
      have b : "false".toList = ['f','a','l','s','e'] := by decide
      rw [a, b]; simp [stripPrefix?]
    simp only [Bool.false_eq_true, if_false, decodeBool, this, strip_append]
  · simp only [if_true, decodeBool, strip_append]

/-- a clock time the renderer can write in two digits per field -/
def PTwf : Option PT → Prop
  | none => True
  | some t => t.time.h < 100 ∧ t.time.m < 100 ∧ t.time.s < 100

theorem renderPT_unfold (t : PT) : renderPT (some t) = "{\"Ok\":{\"time\":\"" ++ pad2 t.time.h ++ ":" ++ pad2 t.time.m ++ ":" ++
    pad2 t.time.s ++ "\",\"extreme\":" ++ (if t.extreme then "true" else "false") ++ "}}" := rfl

theorem renderPT_toList (t : PT) :
    (renderPT (some t)).toList = "{\"Ok\":{\"time\":\"".toList ++ ((pad2 t.time.h).toList ++ (":".toList ++ ((pad2 t.time.m).toList ++
      (":".toList ++ ((pad2 t.time.s).toList ++ ("\",\"extreme\":".toList ++
        ((if t.extreme then "true" else "false" : String).toList ++ "}}".toList))))))) := by
  rw [renderPT_unfold]
  simp only [String.toList_append, List.append_assoc]

theorem colon : (":" : String).toList = [':'] := by decide

theorem decodePT_render (x : Option PT) (h : PTwf x) (r : List Char) :
    decodePT ((renderPT x).toList ++ r) = some (x, r) := by
  cases x with
  | none =>
    have e : renderPT none = "{\"Err\":null}" := rfl
    rw [e]
    unfold decodePT
    rw [strip_append]
  | some t =>
    obtain ⟨hh, hm, hs⟩ := h
    have ne : stripPrefix? "{\"Err\":null}".toList ((renderPT (some t)).toList ++ r) = none := by
      rw [renderPT_toList]
      have a : "{\"Err\":null}".toList = ['{','"','E','r','r','"',':','n','u','l','l','}'] := by decide
      have b : "{\"Ok\":{\"time\":\"".toList = ['{','"','O','k','"',':','{','"','t','i','m','e','"',':','"'] := by decide
      rw [a, b]; simp [stripPrefix?]
    unfold decodePT
    rw [ne]
    simp only [renderPT_toList, List.append_assoc, strip_append, takeNum_pad2 _ hh]
    rw [colon]
    simp only [strip_append, takeNum_pad2 _ hm, takeNum_pad2 _ hs, decodeBool_render]

theorem decodeMember_render (key : String) (x : Option PT) (h : PTwf x) (r : List Char) :
    decodeMember key (key.toList ++ ((renderPT x).toList ++ r)) = some (x, r) := by
  simp only [decodeMember, strip_append, decodePT_render x h r]

def DayWf (d : DayTimes) : Prop :=
  PTwf d.imsaak ∧ PTwf d.fajr ∧ PTwf d.shur ∧ PTwf d.dhuhr ∧ PTwf d.asr ∧ PTwf d.magh ∧ PTwf d.isha

theorem renderDay_unfold (d : DayTimes) : renderDay d =
  "{\"Imsaak\":" ++ renderPT d.imsaak ++ ",\"Fajr\":" ++ renderPT d.fajr ++ ",\"Shurooq\":" ++ renderPT d.shur ++
  ",\"Dhuhr\":" ++ renderPT d.dhuhr ++ ",\"Asr\":" ++ renderPT d.asr ++ ",\"Maghrib\":" ++ renderPT d.magh ++
  ",\"Isha\":" ++ renderPT d.isha ++ "}" := rfl

theorem rbrace : ("}" : String).toList = ['}'] := by decide

theorem decodeDay_render (d : DayTimes) (h : DayWf d) (r : List Char) :
    decodeDay ((renderDay d).toList ++ r) = some (d, r) := by
  obtain ⟨h1, h2, h3, h4, h5, h6, h7⟩ := h
  rw [renderDay_unfold]
  simp only [String.toList_append, List.append_assoc]
  unfold decodeDay
  simp only [decodeMember_render _ _ h1, decodeMember_render _ _ h2, decodeMember_render _ _ h3,
    decodeMember_render _ _ h4, decodeMember_render _ _ h5, decodeMember_render _ _ h6,
    decodeMember_render _ _ h7]
  rw [rbrace]
  simp only [strip_append]

/-- a day number whose year the date rendering covers (chrono writes a sign outside 0..9999) -/
def DateWf (rd : Int) : Prop := 0 ≤ (fromRD rd).y ∧ (fromRD rd).y ≤ 9999

theorem isoDate_unfold (rd : Int) : isoDate rd =
    pad4 (fromRD rd).y.toNat ++ "-" ++ pad2 (fromRD rd).m.toNat ++ "-" ++ pad2 (fromRD rd).d.toNat := rfl

theorem dash : ("-" : String).toList = ['-'] := by decide

theorem decodeDate_render (rd : Int) (h : DateWf rd) (r : List Char) :
    decodeDate ('"' :: ((isoDate rd).toList ++ ('"' :: r))) = some (rd, r) := by
  obtain ⟨hy0, hy1⟩ := h
  obtain ⟨m1, m12, d1, d31, hrd, _⟩ := CivilLemmas.fromRD_valid rd
  rw [isoDate_unfold]
  simp only [String.toList_append, List.append_assoc, dash]
  unfold decodeDate
  have s1 : ∀ (c : Char) (q : List Char), stripPrefix? [c] (c :: q) = some q := fun c q => by simp [stripPrefix?]
  have s2 : ∀ (c : Char) (p q : List Char), stripPrefix? [c] ([c] ++ (p ++ q)) = some (p ++ q) :=
    fun c p q => strip_append [c] (p ++ q)
  simp only [s1, s2, takeNum_pad4 _ (by omega : (fromRD rd).y.toNat < 10000),
    takeNum_pad2 _ (by omega : (fromRD rd).m.toNat < 100), takeNum_pad2 _ (by omega : (fromRD rd).d.toNat < 100)]
  have ey : ((fromRD rd).y.toNat : Int) = (fromRD rd).y := by omega
  have em : ((fromRD rd).m.toNat : Int) = (fromRD rd).m := by omega
  have ed : ((fromRD rd).d.toNat : Int) = (fromRD rd).d := by omega
  rw [ey, em, ed]
  simp only [Option.some.injEq, Prod.mk.injEq, and_true]
  exact hrd

def EntryWf (e : Int × DayTimes) : Prop := DateWf e.1 ∧ DayWf e.2

/-- the text of one entry -/
def entryL (e : Int × DayTimes) : List Char :=
  '"' :: ((isoDate e.1).toList ++ ('"' :: ':' :: (renderDay e.2).toList))

theorem decodeEntry_render (e : Int × DayTimes) (h : EntryWf e) (r : List Char) :
    decodeEntry (entryL e ++ r) = some (e, r) := by
  have x : entryL e ++ r = '"' :: ((isoDate e.1).toList ++ ('"' :: (':' :: ((renderDay e.2).toList ++ r)))) := by
    simp [entryL]
  rw [x]
  unfold decodeEntry
  rw [decodeDate_render e.1 h.1]
  simp only [stripPrefix?, if_true, decodeDay_render e.2 h.2]

/-- the first character of a rendered day is `{`, so an entry is never followed by `,` unless a
    further entry follows; the rest `r` after the last entry must not start with a comma -/
theorem decodeEntries_render (es : List (Int × DayTimes)) (hne : es ≠ []) (h : ∀ e ∈ es, EntryWf e)
    (r : List Char) (hr : ∀ q, r ≠ ',' :: q) (fuel : Nat) (hf : es.length ≤ fuel) :
    decodeEntries fuel ([','].intercalate (es.map entryL) ++ r) = some (es, r) := by
  induction es generalizing fuel with
  | nil => exact absurd rfl hne
  | cons e rest ih =>
    cases fuel with
    | zero => simp at hf
    | succ fuel =>
      cases rest with
      | nil =>
        simp only [List.map_cons, List.map_nil, List.intercalate_singleton]
        unfold decodeEntries
        rw [decodeEntry_render e (h e (by simp))]
        cases r with
        | nil => rfl
        | cons c q =>
          by_cases hc : c = ','
          · subst hc; exact absurd rfl (hr q)
          · dsimp only
            split
            · rename_i heq; simp only [List.cons.injEq] at heq; exact absurd heq.1 hc
            · rfl
      | cons e2 rest2 =>
        have hi : [','].intercalate ((e :: e2 :: rest2).map entryL) ++ r =
            entryL e ++ (',' :: ([','].intercalate ((e2 :: rest2).map entryL) ++ r)) := by
          simp [List.intercalate_cons_cons]
        rw [hi]
        unfold decodeEntries
        rw [decodeEntry_render e (h e (by simp))]
        simp only
        rw [ih (by simp) (fun x hx => h x (by simp [hx])) fuel (by simp at hf ⊢; omega)]

theorem quote : ("\"" : String).toList = ['"'] := by decide
theorem quoteColon : ("\":" : String).toList = ['"', ':'] := by decide
theorem lbrace : ("{" : String).toList = ['{'] := by decide
theorem comma : ("," : String).toList = [','] := by decide

theorem renderRange_unfold (days : List (Int × DayTimes)) : renderRange days =
    "{" ++ ",".intercalate (days.map fun (rd, d) => "\"" ++ isoDate rd ++ "\":" ++ renderDay d) ++ "}" := rfl

/-- the characters of the document: `{`, the entries separated by commas, `}` -/
theorem renderRange_toList (days : List (Int × DayTimes)) :
    (renderRange days).toList = '{' :: ([','].intercalate (days.map entryL) ++ ['}']) := by
  rw [renderRange_unfold]
  simp only [String.toList_append, String.toList_intercalate, lbrace, rbrace, comma, List.map_map]
  have e : (String.toList ∘ fun (x : Int × DayTimes) => "\"" ++ isoDate x.1 ++ "\":" ++ renderDay x.2) = entryL := by
    funext x
    simp only [Function.comp, String.toList_append, quote, quoteColon, entryL, List.append_assoc,
      List.cons_append, List.nil_append]
  have e' : (String.toList ∘ fun (x : Int × DayTimes) =>
      match x with | (rd, d) => "\"" ++ isoDate rd ++ "\":" ++ renderDay d) = entryL := by
    rw [← e]
  rw [e']
  simp

theorem entries_length (es : List (Int × DayTimes)) :
    es.length ≤ ([','].intercalate (es.map entryL)).length := by
  induction es with
  | nil => simp
  | cons e rest ih =>
    cases rest with
    | nil => simp [entryL]
    | cons e2 rest2 =>
      simp only [List.map_cons, List.intercalate_cons_cons, List.length_append, List.length_cons,
        List.length_nil] at ih ⊢
      have : 1 ≤ (entryL e).length := by simp [entryL]
      omega


theorem hmsOpt_wf (h m s : Nat) (t : HMS) (e : hmsOpt h m s = .ok t) : t.h < 24 ∧ t.m < 60 ∧ t.s < 60 := by
  unfold hmsOpt at e
  split at e
  · rename_i hc; simp only [Except.ok.injEq] at e; subst e; exact hc
  · simp at e


theorem flagExtreme_wf (r : Except Panic (Option PT)) (x : Option PT) (hr : ∀ y, r = .ok y → PTwf y)
    (h : flagExtreme r = .ok x) : PTwf x := by
  unfold flagExtreme at h
  split at h
  · rename_i t
    simp only [Except.ok.injEq] at h; subst h
    exact hr (some t) rfl
  · exact hr x h


/-! ### canonical form -/

theorem renderPTCanon_unfold (t : PT) : renderPTCanon (some t) =
    "{\"Ok\":{\"extreme\":" ++ (if t.extreme then "true" else "false") ++ ",\"time\":\"" ++
      pad2 t.time.h ++ ":" ++ pad2 t.time.m ++ ":" ++ pad2 t.time.s ++ "\"}}" := rfl

theorem renderPTCanon_toList (t : PT) :
    (renderPTCanon (some t)).toList = "{\"Ok\":{\"extreme\":".toList ++
      ((if t.extreme then "true" else "false" : String).toList ++ (",\"time\":\"".toList ++
      ((pad2 t.time.h).toList ++ (":".toList ++ ((pad2 t.time.m).toList ++
      (":".toList ++ ((pad2 t.time.s).toList ++ "\"}}".toList))))))) := by
  rw [renderPTCanon_unfold]
  simp only [String.toList_append, List.append_assoc]

theorem decodePTCanon_render (x : Option PT) (h : PTwf x) (r : List Char) :
    decodePTCanon ((renderPTCanon x).toList ++ r) = some (x, r) := by
  cases x with
  | none =>
    have e : renderPTCanon none = "{\"Err\":null}" := rfl
    rw [e]
    unfold decodePTCanon
    rw [strip_append]
  | some t =>
    obtain ⟨hh, hm, hs⟩ := h
    have ne : stripPrefix? "{\"Err\":null}".toList ((renderPTCanon (some t)).toList ++ r) = none := by
      rw [renderPTCanon_toList]
      have a : "{\"Err\":null}".toList = ['{','"','E','r','r','"',':','n','u','l','l','}'] := by decide
      have b : "{\"Ok\":{\"extreme\":".toList = ['{','"','O','k','"',':','{','"','e','x','t','r','e','m','e','"',':'] := by decide
      rw [a, b]; simp [stripPrefix?]
    unfold decodePTCanon
    rw [ne]
    simp only [renderPTCanon_toList, List.append_assoc, strip_append, decodeBool_render, takeNum_pad2 _ hh]
    rw [colon]
    simp only [strip_append, takeNum_pad2 _ hm, takeNum_pad2 _ hs]

theorem decodeMemberCanon_render (key : String) (x : Option PT) (h : PTwf x) (r : List Char) :
    decodeMemberCanon key (key.toList ++ ((renderPTCanon x).toList ++ r)) = some (x, r) := by
  simp only [decodeMemberCanon, strip_append, decodePTCanon_render x h r]

theorem renderDayCanon_unfold (d : DayTimes) : renderDayCanon d =
  "{\"Asr\":" ++ renderPTCanon d.asr ++ ",\"Dhuhr\":" ++ renderPTCanon d.dhuhr ++ ",\"Fajr\":" ++ renderPTCanon d.fajr ++
  ",\"Imsaak\":" ++ renderPTCanon d.imsaak ++ ",\"Isha\":" ++ renderPTCanon d.isha ++ ",\"Maghrib\":" ++ renderPTCanon d.magh ++
  ",\"Shurooq\":" ++ renderPTCanon d.shur ++ "}" := rfl

theorem decodeDayCanon_render (d : DayTimes) (h : DayWf d) (r : List Char) :
    decodeDayCanon ((renderDayCanon d).toList ++ r) = some (d, r) := by
  obtain ⟨h1, h2, h3, h4, h5, h6, h7⟩ := h
  rw [renderDayCanon_unfold]
  simp only [String.toList_append, List.append_assoc]
  unfold decodeDayCanon
  simp only [decodeMemberCanon_render _ _ h1, decodeMemberCanon_render _ _ h2, decodeMemberCanon_render _ _ h3,
    decodeMemberCanon_render _ _ h4, decodeMemberCanon_render _ _ h5, decodeMemberCanon_render _ _ h6,
    decodeMemberCanon_render _ _ h7]
  rw [rbrace]
  simp only [strip_append]

def entryCanonL (e : Int × DayTimes) : List Char :=
  '"' :: ((isoDate e.1).toList ++ ('"' :: ':' :: (renderDayCanon e.2).toList))

theorem decodeEntryCanon_render (e : Int × DayTimes) (h : EntryWf e) (r : List Char) :
    decodeEntryCanon (entryCanonL e ++ r) = some (e, r) := by
  have x : entryCanonL e ++ r = '"' :: ((isoDate e.1).toList ++ ('"' :: (':' :: ((renderDayCanon e.2).toList ++ r)))) := by
    simp [entryCanonL]
  rw [x]
  unfold decodeEntryCanon
  rw [decodeDate_render e.1 h.1]
  simp only [stripPrefix?, if_true, decodeDayCanon_render e.2 h.2]

theorem decodeEntriesCanon_render (es : List (Int × DayTimes)) (hne : es ≠ []) (h : ∀ e ∈ es, EntryWf e)
    (r : List Char) (hr : ∀ q, r ≠ ',' :: q) (fuel : Nat) (hf : es.length ≤ fuel) :
    decodeEntriesCanon fuel ([','].intercalate (es.map entryCanonL) ++ r) = some (es, r) := by
  induction es generalizing fuel with
  | nil => exact absurd rfl hne
  | cons e rest ih =>
    cases fuel with
    | zero => simp at hf
    | succ fuel =>
      cases rest with
      | nil =>
        simp only [List.map_cons, List.map_nil, List.intercalate_singleton]
        unfold decodeEntriesCanon
        rw [decodeEntryCanon_render e (h e (by simp))]
        cases r with
        | nil => rfl
        | cons c q =>
          by_cases hc : c = ','
          · subst hc; exact absurd rfl (hr q)
          · dsimp only
            split
            · rename_i heq; simp only [List.cons.injEq] at heq; exact absurd heq.1 hc
            · rfl
      | cons e2 rest2 =>
        have hi : [','].intercalate ((e :: e2 :: rest2).map entryCanonL) ++ r =
            entryCanonL e ++ (',' :: ([','].intercalate ((e2 :: rest2).map entryCanonL) ++ r)) := by
          simp [List.intercalate_cons_cons]
        rw [hi]
        unfold decodeEntriesCanon
        rw [decodeEntryCanon_render e (h e (by simp))]
        simp only
        rw [ih (by simp) (fun x hx => h x (by simp [hx])) fuel (by simp at hf ⊢; omega)]

theorem renderRangeCanon_unfold (days : List (Int × DayTimes)) : renderRangeCanon days =
    "{" ++ ",".intercalate (days.map fun (rd, d) => "\"" ++ isoDate rd ++ "\":" ++ renderDayCanon d) ++ "}" := rfl

theorem renderRangeCanon_toList (days : List (Int × DayTimes)) :
    (renderRangeCanon days).toList = '{' :: ([','].intercalate (days.map entryCanonL) ++ ['}']) := by
  rw [renderRangeCanon_unfold]
  simp only [String.toList_append, String.toList_intercalate, lbrace, rbrace, comma, List.map_map]
  have e : (String.toList ∘ fun (x : Int × DayTimes) => "\"" ++ isoDate x.1 ++ "\":" ++ renderDayCanon x.2) = entryCanonL := by
    funext x
    simp only [Function.comp, String.toList_append, quote, quoteColon, entryCanonL, List.append_assoc,
      List.cons_append, List.nil_append]
  have e' : (String.toList ∘ fun (x : Int × DayTimes) =>
      match x with | (rd, d) => "\"" ++ isoDate rd ++ "\":" ++ renderDayCanon d) = entryCanonL := by
    rw [← e]
  rw [e']
  simp

theorem entriesCanon_length (es : List (Int × DayTimes)) :
    es.length ≤ ([','].intercalate (es.map entryCanonL)).length := by
  induction es with
  | nil => simp
  | cons e rest ih =>
    cases rest with
    | nil => simp [entryCanonL]
    | cons e2 rest2 =>
      simp only [List.map_cons, List.intercalate_cons_cons, List.length_append, List.length_cons,
        List.length_nil] at ih ⊢
      have : 1 ≤ (entryCanonL e).length := by simp [entryCanonL]
      omega

end IPT.JsonLemmas
