import IPT.Real.Consts
import IPT.Model.Hours
import Mathlib.Tactic.Linarith
import Mathlib.Tactic.Ring
import Mathlib.Tactic.Positivity
import Mathlib.Tactic.FieldSimp
/- shared trigonometric lemmas over ℝ for the hour functions (C03–C06) -/
namespace IPT.TrigLemmas
open IPT Real

theorem pi_div_180_pos : 0 < Real.pi / 180 := by positivity

/-- degrees → radians → degrees round trip -/
theorem toRadians_toDegrees (x : ℝ) : toRadians (toDegrees x) = x := by
  rw [toRadians_real, toDegrees_real]
  have : Real.pi ≠ 0 := Real.pi_ne_zero
  field_simp

theorem toDegrees_toRadians (x : ℝ) : toDegrees (toRadians x) = x := by
  rw [toRadians_real, toDegrees_real]
  have : Real.pi ≠ 0 := Real.pi_ne_zero
  field_simp

theorem toRadians_neg (x : ℝ) : toRadians (-x) = -toRadians x := by
  simp only [toRadians_real]; ring

theorem toDegrees_pos {x : ℝ} (h : 0 < x) : 0 < toDegrees x := by
  rw [toDegrees_real]; positivity

theorem toDegrees_nonneg {x : ℝ} (h : 0 ≤ x) : 0 ≤ toDegrees x := by
  rw [toDegrees_real]; positivity

theorem toDegrees_lt {x y : ℝ} (h : x < y) : toDegrees x < toDegrees y := by
  rw [toDegrees_real, toDegrees_real]
  exact mul_lt_mul_of_pos_right h (by positivity)

theorem toDegrees_le {x y : ℝ} (h : x ≤ y) : toDegrees x ≤ toDegrees y := by
  rw [toDegrees_real, toDegrees_real]
  exact mul_le_mul_of_nonneg_right h (by positivity)

/-- the defining property of every hour-angle solution in the code: with r = (T - s)/k in [-1,1]
    and H = arccos r, the spherical altitude equation s + k cos H = T holds exactly -/
theorem altitude_eq (s k T : ℝ) (hk : k ≠ 0) (h1 : -1 ≤ (T - s) / k) (h2 : (T - s) / k ≤ 1) :
    s + k * Real.cos (Real.arccos ((T - s) / k)) = T := by
  rw [Real.cos_arccos h1 h2]; field_simp; ring

/-- conversely any hour angle solving the altitude equation has its cosine equal to r -/
theorem reachable_iff (s k T : ℝ) (hk : k ≠ 0) :
    (-1 ≤ (T - s) / k ∧ (T - s) / k ≤ 1) ↔ ∃ H : ℝ, s + k * Real.cos H = T := by
  constructor
  · rintro ⟨h1, h2⟩; exact ⟨_, altitude_eq s k T hk h1 h2⟩
  · rintro ⟨H, hH⟩
    have : (T - s) / k = Real.cos H := by rw [← hH]; field_simp; ring
    rw [this]; exact ⟨Real.neg_one_le_cos H, Real.cos_le_one H⟩

end IPT.TrigLemmas
