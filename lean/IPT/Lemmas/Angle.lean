import IPT.Real.Consts
import IPT.Model.Angle
import Mathlib.Tactic.Linarith
import Mathlib.Tactic.Ring
import Mathlib.Tactic.Positivity
/- angle normalisation over ℝ: range and "differs from x by a whole number of turns" -/
namespace IPT.AngleLemmas
open IPT

theorem fract_bounds (x : ℝ) : 0 ≤ x - ⌊x⌋ ∧ x - ⌊x⌋ < 1 :=
  ⟨by linarith [Int.floor_le x], by linarith [Int.lt_floor_add_one x]⟩

/-- cap_angle_1: into [0,1), differing from x by an integer -/
theorem capAngle1_spec (x : ℝ) : 0 ≤ capAngle1 x ∧ capAngle1 x < 1 ∧ capAngle1 x = x - ⌊x⌋ := by
  obtain ⟨h0, h1⟩ := fract_bounds x
  have : ¬ (x - ⌊x⌋ < 0) := not_lt.mpr h0
  simp only [capAngle1, sc_floor, sc_ltb, lit_zero, this, decide_false, Bool.false_eq_true, if_false]
  exact ⟨h0, h1, trivial⟩

/-- cap_angle(x, cap) for cap > 0: into [0,cap), differing from x by a multiple of cap -/
theorem capAngle_spec (x cap : ℝ) (hc : 0 < cap) :
    0 ≤ capAngle x cap ∧ capAngle x cap < cap ∧ capAngle x cap = x - cap * ⌊x / cap⌋ := by
  obtain ⟨h0, h1⟩ := fract_bounds (x / cap)
  have hneg : ¬ (x / cap - ⌊x / cap⌋ < 0) := not_lt.mpr h0
  simp only [capAngle, sc_floor, sc_ltb, lit_zero]
  by_cases hpos : 0 < x / cap - ⌊x / cap⌋
  · simp only [hpos, decide_true, if_true]
    refine ⟨by positivity, by nlinarith, ?_⟩
    field_simp
  · have hz : x / cap - ⌊x / cap⌋ = 0 := le_antisymm (not_lt.mp hpos) h0
    simp only [hpos, hneg, decide_false, Bool.false_eq_true, if_false]
    refine ⟨by rw [hz], by rw [hz]; exact hc, ?_⟩
    have : x = cap * (x / cap) := by field_simp
    rw [hz]; nlinarith [hz]

theorem capAngle360_spec (x : ℝ) :
    0 ≤ capAngle360 x ∧ capAngle360 x < 360 ∧ capAngle360 x = x - 360 * ⌊x / 360⌋ := by
  have := capAngle_spec x 360 (by norm_num)
  simpa only [capAngle360, c_TWO_PI_DEG] using this

/-- cap_angle_between_180: into (-180, 180], differing from x by a multiple of 360 -/
theorem capAngleBetween180_spec (x : ℝ) :
    -180 < capAngleBetween180 x ∧ capAngleBetween180 x ≤ 180 ∧ ∃ k : ℤ, capAngleBetween180 x = x - 360 * k := by
  obtain ⟨h0, h1⟩ := fract_bounds (x / 360)
  simp only [capAngleBetween180, sc_floor, sc_ltb, c_TWO_PI_DEG, c_PI_DEG]
  set v := (x / 360 - ⌊x / 360⌋) * 360 with hv
  have v0 : 0 ≤ v := by positivity
  have v1 : v < 360 := by nlinarith
  have e : v = x - 360 * ⌊x / 360⌋ := by rw [hv]; ring
  have hn : ¬ v < -180 := by linarith
  simp only [hn, decide_false, Bool.false_eq_true, if_false]
  by_cases hb : 180 < v
  · simp only [hb, decide_true, if_true]
    exact ⟨by linarith, by linarith, ⌊x / 360⌋ + 1, by rw [e]; push_cast; ring⟩
  · simp only [hb, decide_false, Bool.false_eq_true, if_false]
    exact ⟨by linarith, not_lt.mp hb, ⌊x / 360⌋, e⟩

end IPT.AngleLemmas
