import IPT.Model.Hijri
/- helper lemmas for Thm/C17 (integer arithmetic of the tabular calendar) -/
namespace IPT.HijriLemmas
open IPT

/-- day number of 1 Muharram of year y -/
def yearStart (y : Int) : Int := 354 * (y - 1) + (3 + 11 * y) / 30 + 227015

theorem epoch_eq : Gen.HIJRI_EPOCH = 227015 := by decide

theorem hijriAbsDate_eq (d m y : Int) : hijriAbsDate d m y = d + 29 * (m - 1) + m / 2 + yearStart y - 1 := by
  simp only [hijriAbsDate, yearStart, epoch_eq]; omega

theorem yearStart_eq (y : Int) : hijriAbsDate 1 1 y = yearStart y := by
  rw [hijriAbsDate_eq]; omega

/-- closed-form year of the tabular calendar (Reingold–Dershowitz) -/
def tabYear (g : Int) : Int := (30 * (g - 227015) + 10646) / 10631

theorem tabYear_spec (g : Int) : yearStart (tabYear g) ≤ g ∧ g < yearStart (tabYear g + 1) := by
  unfold yearStart tabYear; omega

theorem yearStart_mono {a b : Int} (h : a ≤ b) : yearStart a ≤ yearStart b := by
  unfold yearStart; omega

theorem yearStart_strict {a b : Int} (h : a < b) : yearStart a < yearStart b := by
  unfold yearStart; omega

theorem yearFwd_spec (g T : Int) (hT1 : yearStart T ≤ g) (hT2 : g < yearStart (T + 1)) :
    ∀ (n : Nat) (y : Int), y ≤ T → T - y < n → Gen.yearFwdCmp = .ge → yearFwd g n y = some T := by
  intro n
  induction n with
  | zero => intro y _ h; omega
  | succ n ih =>
    intro y hy hn hc
    unfold yearFwd
    simp only [hc, Cmp.eval, yearStart_eq]
    by_cases h : y < T
    · have : yearStart (y + 1) ≤ g := Int.le_trans (yearStart_mono (by omega)) hT1
      simp only [ge_iff_le, this, decide_true, if_true]
      exact ih (y + 1) (by omega) (by omega) hc
    · have : y = T := by omega
      subst this
      have : ¬ yearStart (y + 1) ≤ g := by omega
      simp [this]

theorem yearBack_spec (g T : Int) (hT1 : yearStart T ≤ g) (hT2 : g < yearStart (T + 1)) :
    ∀ (n : Nat) (y : Int), T ≤ y → y - T < n → Gen.yearBackCmp = .lt → yearBack g n y = some T := by
  intro n
  induction n with
  | zero => intro y _ h; omega
  | succ n ih =>
    intro y hy hn hc
    unfold yearBack
    simp only [hc, Cmp.eval, yearStart_eq]
    by_cases h : T < y
    · have : g < yearStart y := Int.lt_of_lt_of_le hT2 (yearStart_mono (by omega))
      simp only [this, decide_true, if_true]
      exact ih (y - 1) (by omega) (by omega) hc
    · have : y = T := by omega
      subst this
      have : ¬ g < yearStart y := by omega
      simp [this]

end IPT.HijriLemmas

namespace IPT.HijriLemmas
open IPT

/-- length of year y -/
theorem yearLen (y : Int) :
    yearStart (y + 1) - yearStart y = if (11 * y + 14) % 30 < 11 then 355 else 354 := by
  unfold yearStart
  have e : 3 + 11 * (y + 1) = 11 * y + 14 := by omega
  rw [e]
  split <;> omega

theorem isHijriLeap_eq (y : Int) (h : Gen.leapRule = .remEuclid) :
    isHijriLeap y = decide ((11 * y + 14) % 30 < 11) := by
  simp [isHijriLeap, h]

/-- offset (from 1 Muharram) of the last day of month k -/
theorem lastDay_eq (k y : Int) (h : Gen.leapRule = .remEuclid) (hk1 : 1 ≤ k) (hk2 : k ≤ 12) :
    hijriAbsDate (hijriDaysInMonth k y) k y =
      yearStart y + 29 * k + (k + 1) / 2 - 1 + (if k = 12 ∧ (11 * y + 14) % 30 < 11 then 1 else 0) := by
  rw [hijriAbsDate_eq]
  unfold hijriDaysInMonth
  rw [isHijriLeap_eq y h]
  by_cases hl : (11 * y + 14) % 30 < 11 <;> by_cases h12 : k = 12 <;> by_cases hodd : k % 2 = 1 <;>
    simp [hl, h12, hodd] <;> omega

/-- closed-form month of the tabular calendar -/
def tabMonthOf (prior : Int) : Int := (11 * prior + 330) / 325

theorem monthLoop_spec (g y M : Int)
    (hbelow : ∀ k, 1 ≤ k → k < M → g > hijriAbsDate (hijriDaysInMonth k y) k y)
    (hM : g ≤ hijriAbsDate (hijriDaysInMonth M y) M y) :
    ∀ (n : Nat) (m : Int), 1 ≤ m → m ≤ M → M - m < n → monthLoop g y n m = some M := by
  intro n
  induction n with
  | zero => intro m _ _ h; omega
  | succ n ih =>
    intro m h1 h2 hn
    unfold monthLoop
    by_cases h : m < M
    · have := hbelow m h1 h
      simp only [this, if_true]
      exact ih (m + 1) (by omega) (by omega) (by omega)
    · have : m = M := by omega
      subst this
      have : ¬ g > hijriAbsDate (hijriDaysInMonth m y) m y := by omega
      simp [this]

/-- the month search returns the closed-form month -/
theorem monthVal_spec (g y : Int) (h : Gen.leapRule = .remEuclid)
    (h1 : yearStart y ≤ g) (h2 : g < yearStart (y + 1)) :
    monthVal g y = some (tabMonthOf (g - yearStart y)) ∧
      1 ≤ tabMonthOf (g - yearStart y) ∧ tabMonthOf (g - yearStart y) ≤ 12 := by
  have hlen := yearLen y
  have hM1 : 1 ≤ tabMonthOf (g - yearStart y) := by unfold tabMonthOf; omega
  have hM12 : tabMonthOf (g - yearStart y) ≤ 12 := by
    unfold tabMonthOf; split at hlen <;> omega
  refine ⟨?_, hM1, hM12⟩
  unfold monthVal
  apply monthLoop_spec g y _ _ _ 255 1 (by omega) hM1 (by omega)
  · intro k hk1 hk2
    rw [lastDay_eq k y h hk1 (by omega)]
    have : ¬ (k = 12 ∧ (11 * y + 14) % 30 < 11) := by omega
    simp only [this, if_false]
    unfold tabMonthOf at hk2
    omega
  · rw [lastDay_eq _ y h hM1 hM12]
    unfold tabMonthOf at *
    split at hlen <;> split <;> omega

end IPT.HijriLemmas
