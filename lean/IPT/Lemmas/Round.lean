import IPT.Real.Consts
import IPT.Model.Times
import Mathlib.Tactic.Linarith
import Mathlib.Tactic.Ring
import Mathlib.Tactic.Positivity
/- hour_to_time over ℝ: helper lemmas for Thm/C11 -/
namespace IPT.RoundLemmas
open IPT

theorem wrapNeg_spec (n : ℕ) : ∀ x : ℝ, -(24 : ℝ) * n ≤ x →
    ∃ k : ℕ, k ≤ n ∧ wrapNeg n x = .ok (x + 24 * k) ∧ 0 ≤ x + 24 * k ∧
      (0 ≤ x → k = 0) ∧ (x < 0 → x + 24 * k < 24) := by
  induction n with
  | zero =>
    intro x h
    simp only [Nat.cast_zero, mul_zero] at h
    refine ⟨0, le_refl _, ?_, by simpa using h, fun _ => rfl, fun hx => by linarith⟩
    have : ¬ x < 0 := not_lt.mpr h
    simp [wrapNeg, lit_zero, this]
  | succ n ih =>
    intro x h
    unfold wrapNeg
    by_cases hx : x < 0
    · have h' : -(24 : ℝ) * n ≤ x + 24 := by push_cast at h; linarith
      obtain ⟨k, hk, e, h0, h1, h2⟩ := ih (x + 24) h'
      refine ⟨k + 1, by omega, ?_, ?_, ?_, ?_⟩
      · simp only [sc_ltb, lit_zero, hx, decide_true, if_true, c_HRS_PER_DAY, e]
        congr 1; push_cast; ring
      · push_cast; linarith
      · intro h0'; linarith
      · intro _
        by_cases h24 : 0 ≤ x + 24
        · have := h1 h24; subst this; push_cast; linarith
        · have := h2 (not_le.mp h24); push_cast; linarith
    · refine ⟨0, by omega, ?_, by simpa using not_lt.mp hx, fun _ => rfl, fun h => absurd h hx⟩
      simp [sc_ltb, lit_zero, hx]

/-- mixed-radix floor identity: ⌊3600 x⌋ = 60 ⌊60 x⌋ + ⌊60 · frac(60 x)⌋ and ⌊60x⌋ = 60⌊x⌋ + ⌊60 frac x⌋ -/
theorem floor_mul_split (c : ℤ) (hc : 0 < c) (x : ℝ) :
    ⌊(x - ⌊x⌋) * c⌋ = ⌊(c : ℝ) * x⌋ - c * ⌊x⌋ := by
  have : (x - ⌊x⌋) * c = (c : ℝ) * x - ((c * ⌊x⌋ : ℤ) : ℝ) := by push_cast; ring
  rw [this, Int.floor_sub_intCast]

theorem floor_frac_nonneg (x : ℝ) : 0 ≤ x - ⌊x⌋ := by linarith [Int.floor_le x]
theorem floor_frac_lt_one (x : ℝ) : x - ⌊x⌋ < 1 := by linarith [Int.lt_floor_add_one x]

/-- minutes field: ⌊frac(x)·60⌋ ∈ [0, 59] -/
theorem min_field (x : ℝ) : 0 ≤ ⌊(x - ⌊x⌋) * 60⌋ ∧ ⌊(x - ⌊x⌋) * 60⌋ ≤ 59 := by
  have h0 := floor_frac_nonneg x
  have h1 := floor_frac_lt_one x
  constructor
  · exact Int.floor_nonneg.mpr (by positivity)
  · have : ⌊(x - ⌊x⌋) * 60⌋ < 60 := by
      rw [Int.floor_lt]; push_cast; linarith
    omega

end IPT.RoundLemmas

namespace IPT.RoundLemmas
open IPT

theorem fracMin_real (y : ℝ) : fracMin y = (y - ⌊y⌋) * 60 := by
  simp only [fracMin, sc_floor, c_MIN_SEC]

/-- ⌊y⌋ is the hour count of the total minutes -/
theorem floor_eq_totMin_div (y : ℝ) : ⌊y⌋ = ⌊60 * y⌋ / 60 := by
  have h1 := Int.floor_le y
  have h2 := Int.lt_floor_add_one y
  have a : (60 * ⌊y⌋ : ℤ) ≤ ⌊60 * y⌋ := by
    rw [Int.le_floor]; push_cast; linarith
  have b : ⌊60 * y⌋ < 60 * ⌊y⌋ + 60 := by
    rw [Int.floor_lt]; push_cast; linarith
  omega

theorem floor_fracMin (y : ℝ) : ⌊(y - ⌊y⌋) * 60⌋ = ⌊60 * y⌋ % 60 := by
  have := floor_mul_split 60 (by norm_num) y
  push_cast at this
  rw [this]
  have := floor_eq_totMin_div y
  omega

theorem toU32_of_small (y : ℝ) (n : ℤ) (h : ⌊y⌋ = n) (h0 : 0 ≤ n) (h1 : n < 4294967295) :
    Sc.toU32 y = n.toNat := by
  simp only [sc_toU32, h]
  omega

/-- the hour field: `hour >= 24 → hour.rem(24)`, then `as u32` -/
theorem hour_field (y : ℝ) (h0 : 0 ≤ y) (h1 : y < 4000000000) :
    Sc.toU32 (if Sc.leb (Gen.HRS_PER_DAY : ℝ) y then rem24 y else y) = ((⌊60 * y⌋ / 60) % 24).toNat := by
  rw [← floor_eq_totMin_div]
  have hf0 : 0 ≤ ⌊y⌋ := Int.floor_nonneg.mpr h0
  have hf1 : ⌊y⌋ < 4000000000 := by rw [Int.floor_lt]; push_cast; linarith
  simp only [sc_leb, c_HRS_PER_DAY]
  by_cases h24 : (24 : ℝ) ≤ y
  · simp only [h24, decide_true, if_true]
    -- rem24 y = y - 24 ⌊y/24⌋ ∈ [0, 24)
    have hk0 := Int.floor_le (y / 24)
    have hk1 := Int.lt_floor_add_one (y / 24)
    have e0 : y = 24 * (y / 24) := by ring
    have r0 : 0 ≤ y - 24 * (⌊y / 24⌋ : ℝ) := by linarith
    have r1 : y - 24 * (⌊y / 24⌋ : ℝ) < 24 := by linarith
    have hrem : rem24 y = y - 24 * (⌊y / 24⌋ : ℝ) := by
      simp only [rem24, sc_floor, sc_ltb, sc_leb, c_HRS_PER_DAY, lit_zero]
      have ha : ¬ (y - 24 * (⌊y / 24⌋ : ℝ) < 0) := not_lt.mpr r0
      have hb : ¬ (24 ≤ y - 24 * (⌊y / 24⌋ : ℝ)) := not_le.mpr r1
      simp only [ha, hb, decide_false, Bool.false_eq_true, if_false]
    rw [hrem]
    have hfl : ⌊y - 24 * (⌊y / 24⌋ : ℝ)⌋ = ⌊y⌋ - 24 * ⌊y / 24⌋ := by
      have : y - 24 * (⌊y / 24⌋ : ℝ) = y - ((24 * ⌊y / 24⌋ : ℤ) : ℝ) := by push_cast; ring
      rw [this, Int.floor_sub_intCast]
    have hq : ⌊y / 24⌋ = ⌊y⌋ / 24 := by
      have a : (24 * ⌊y / 24⌋ : ℤ) ≤ ⌊y⌋ := by rw [Int.le_floor]; push_cast; linarith
      have b : ⌊y⌋ < 24 * ⌊y / 24⌋ + 24 := by rw [Int.floor_lt]; push_cast; linarith
      omega
    apply toU32_of_small _ _ (by rw [hfl, hq]; omega) (by omega) (by omega)
  · simp only [h24, decide_false]
    have : ⌊y⌋ < 24 := by rw [Int.floor_lt]; push_cast; linarith [not_le.mp h24]
    apply toU32_of_small _ _ (by omega : ⌊y⌋ = ⌊y⌋ % 24) (by omega) (by omega)

/-- the minute field -/
theorem minute_field (y : ℝ) : Sc.toU32 (fracMin y) = (⌊60 * y⌋ % 60).toNat := by
  rw [fracMin_real]
  apply toU32_of_small _ _ (floor_fracMin y) (by omega) (by omega)

/-- the second field of an unrounded time -/
theorem second_field (y : ℝ) :
    Sc.toU32 ((fracMin y - Sc.floor (fracMin y)) * Gen.MIN_SEC_PER_HR_MIN) = (⌊3600 * y⌋ - 60 * ⌊60 * y⌋).toNat ∧
    0 ≤ ⌊3600 * y⌋ - 60 * ⌊60 * y⌋ ∧ ⌊3600 * y⌋ - 60 * ⌊60 * y⌋ ≤ 59 ∧
    ⌊(fracMin y - Sc.floor (fracMin y)) * Gen.MIN_SEC_PER_HR_MIN⌋ = ⌊3600 * y⌋ - 60 * ⌊60 * y⌋ := by
  rw [fracMin_real]
  simp only [sc_floor, c_MIN_SEC]
  set m := (y - ⌊y⌋) * 60 with hm
  have hs := floor_mul_split 60 (by norm_num) m
  push_cast at hs
  have e60 : ⌊(60 : ℝ) * m⌋ = ⌊3600 * y⌋ - 3600 * ⌊y⌋ := by
    have : (60 : ℝ) * m = 3600 * y - ((3600 * ⌊y⌋ : ℤ) : ℝ) := by rw [hm]; push_cast; ring
    rw [this, Int.floor_sub_intCast]
  have em : ⌊m⌋ = ⌊60 * y⌋ - 60 * ⌊y⌋ := by
    have := floor_mul_split 60 (by norm_num) y
    push_cast at this; exact this
  have hval : ⌊(m - ⌊m⌋) * 60⌋ = ⌊3600 * y⌋ - 60 * ⌊60 * y⌋ := by rw [hs, e60, em]; ring
  have hb := min_field m
  refine ⟨?_, by rw [← hval]; exact hb.1, by rw [← hval]; exact hb.2, hval⟩
  apply toU32_of_small _ _ hval (by rw [← hval]; exact hb.1) (by rw [← hval]; have := hb.2; omega)

end IPT.RoundLemmas
