import IPT.Model.Times
/- helper lemmas about the policy-layer writers, for every scalar type -/
namespace IPT.ExtLatLemmas
open IPT
variable {α : Type} [Add α] [Sub α] [Mul α] [Div α] [Neg α] [OfScientific α] [Sc α]

/-- the four entries a Fajr/Isha writer must not touch -/
def SameOthers (a b : PHours α) : Prop :=
  a.shur = b.shur ∧ a.dhuhr = b.dhuhr ∧ a.asr = b.asr ∧ a.magh = b.magh

theorem SameOthers.rfl' (a : PHours α) : SameOthers a a := ⟨rfl, rfl, rfl, rfl⟩

theorem SameOthers.trans {a b c : PHours α} (h1 : SameOthers a b) (h2 : SameOthers b c) : SameOthers a c :=
  ⟨h1.1.trans h2.1, h1.2.1.trans h2.2.1, h1.2.2.1.trans h2.2.2.1, h1.2.2.2.trans h2.2.2.2⟩

theorem angleBased_others (p : Params α) (h : PHours α) : SameOthers (angleBased p h) h := by
  unfold angleBased; split <;> exact ⟨rfl, rfl, rfl, rfl⟩

theorem adjSevHalf_others (p : Params α) (h : PHours α) : SameOthers (adjSevHalf p h) h := by
  unfold adjSevHalf
  split
  · simp only []
    repeat' split
    all_goals exact ⟨rfl, rfl, rfl, rfl⟩
  · exact ⟨rfl, rfl, rfl, rfl⟩

theorem adjMinAlways_others (h : PHours α) : SameOthers (adjMinAlways h) h := ⟨rfl, rfl, rfl, rfl⟩

theorem adjMinInv_others (p : Params α) (h : PHours α) : SameOthers (adjMinInv p h) h := by
  unfold adjMinInv
  simp only []
  repeat' split
  all_goals exact ⟨rfl, rfl, rfl, rfl⟩

theorem adjNearGood_others (p : Params α) (h : PHours α) (env : Env α) (hp : p.policy.isGoodDayAll = false) :
    SameOthers (adjNearGood p h env) h := by
  unfold adjNearGood
  split
  · exact ⟨rfl, rfl, rfl, rfl⟩
  · simp only [hp]
    repeat' split
    all_goals first | exact ⟨rfl, rfl, rfl, rfl⟩ | simp_all

theorem adjNearLat_others (p : Params α) (h r : PHours α) (adj : Hours α) (hp : p.policy.isNearLatAll = false)
    (hr : adjNearLat p h adj = .ok r) : SameOthers r h := by
  unfold adjNearLat at hr
  simp only [hp] at hr
  cases hf : adj.fajr <;> cases hi : adj.isha <;> simp only [hf, hi] at hr <;>
    (repeat' split at hr) <;> simp_all [SameOthers] <;> (subst hr; simp)

theorem intFajrStep_others (p : Params α) (h r : PHours α) (hr : intFajrStep p h = .ok r) : SameOthers r h := by
  unfold intFajrStep at hr
  split at hr
  · split at hr
    · simp at hr
    · simp only [Except.ok.injEq] at hr; subst hr; exact ⟨rfl, rfl, rfl, rfl⟩
  · simp only [Except.ok.injEq] at hr; subst hr; exact ⟨rfl, rfl, rfl, rfl⟩

theorem intIshaStep_others (p : Params α) (h r : PHours α) (hr : intIshaStep p h = .ok r) : SameOthers r h := by
  unfold intIshaStep at hr
  split at hr
  · split at hr
    · simp at hr
    · simp only [Except.ok.injEq] at hr; subst hr; exact ⟨rfl, rfl, rfl, rfl⟩
  · simp only [Except.ok.injEq] at hr; subst hr; exact ⟨rfl, rfl, rfl, rfl⟩

theorem adjForInt_others (p : Params α) (h r : PHours α) (hr : adjForInt p h = .ok r) : SameOthers r h := by
  unfold adjForInt at hr
  split at hr
  · simp only [Except.ok.injEq] at hr; subst hr; exact SameOthers.rfl' _
  · split at hr
    · simp at hr
    · rename_i h1 hh1
      exact (intIshaStep_others p h1 r hr).trans (intFajrStep_others p h h1 hh1)

end IPT.ExtLatLemmas

namespace IPT.ExtLatLemmas
open IPT
variable {α : Type} [Add α] [Sub α] [Mul α] [Div α] [Neg α] [OfScientific α] [Sc α]

/-- the flag the interval pass gives its result: that of the value it overwrites, false if none -/
def flagOf (x : Option (PH α)) : Bool := match x with
  | some f => f.extreme
  | none => false

theorem readFlag_eq (x : Option (PH α)) (hg : Gen.intFlagRead = .mapOrFalse) : readFlag x = some (flagOf x) := by
  unfold readFlag flagOf; rw [hg]; cases x <;> rfl

/-- what the interval pass leaves in the Fajr slot -/
def intFajrOut (p : Params α) (h : PHours α) : Option (PH α) :=
  if Gen.intExcluded p.policy = true ∨ nonZero p.intFajr = false then h.fajr
  else h.shur.map fun (x : PH α) => ⟨x.value - p.intFajr / Gen.MIN_SEC_PER_HR_MIN, flagOf h.fajr⟩

/-- what the interval pass leaves in the Isha slot -/
def intIshaOut (p : Params α) (h : PHours α) : Option (PH α) :=
  if Gen.intExcluded p.policy = true ∨ nonZero p.intIsha = false then h.isha
  else h.magh.map fun (x : PH α) => ⟨x.value + p.intIsha / Gen.MIN_SEC_PER_HR_MIN, flagOf h.isha⟩

theorem adjForInt_out (p : Params α) (h r : PHours α) (hg : Gen.intFlagRead = .mapOrFalse)
    (hr : adjForInt p h = .ok r) : r.fajr = intFajrOut p h ∧ r.isha = intIshaOut p h := by
  unfold adjForInt at hr
  unfold intFajrOut intIshaOut
  by_cases he : Gen.intExcluded p.policy = true
  · simp only [he, if_true, Except.ok.injEq] at hr; subst hr; simp [he]
  · rw [if_neg he] at hr
    unfold intFajrStep intIshaStep at hr
    have hrf : ∀ x : Option (PH α), readFlag x = some (flagOf x) := fun x => readFlag_eq x hg
    by_cases hf : nonZero p.intFajr = true <;> by_cases hi : nonZero p.intIsha = true <;>
      simp [hf, hi, hrf] at hr <;> subst hr <;> simp [he, hf, hi]

end IPT.ExtLatLemmas

namespace IPT.ExtLatLemmas
open IPT
variable {α : Type} [Add α] [Sub α] [Mul α] [Div α] [Neg α] [OfScientific α] [Sc α]

/-- every unflagged entry of `a` is the same entry of `b` -/
def Unfl (a b : Option (PH α)) : Prop := ∀ v, a = some ⟨v, false⟩ → b = some ⟨v, false⟩

def UnflAll (a b : PHours α) : Prop :=
  Unfl a.fajr b.fajr ∧ Unfl a.shur b.shur ∧ Unfl a.dhuhr b.dhuhr ∧ Unfl a.asr b.asr ∧
  Unfl a.magh b.magh ∧ Unfl a.isha b.isha

theorem Unfl.refl (a : Option (PH α)) : Unfl a a := fun _ h => h

theorem UnflAll.refl (a : PHours α) : UnflAll a a :=
  ⟨Unfl.refl _, Unfl.refl _, Unfl.refl _, Unfl.refl _, Unfl.refl _, Unfl.refl _⟩

theorem unfl_ext (v : α) (b : Option (PH α)) : Unfl (some (PH.ext v)) b := by
  intro w h; simp [PH.ext] at h

theorem unfl_map_ext (x : Option α) (b : Option (PH α)) : Unfl (x.map PH.ext) b := by
  intro w h; cases x <;> simp [PH.ext] at h

theorem unfl_map_flag (x : Option (PH α)) (f : PH α → α) (b : Option (PH α)) :
    Unfl (x.map fun y => ⟨f y, true⟩) b := by
  intro w h; cases x <;> simp at h

theorem angleBased_unfl (p : Params α) (h : PHours α) : UnflAll (angleBased p h) h := by
  unfold angleBased
  split
  · exact ⟨unfl_ext _ _, Unfl.refl _, Unfl.refl _, Unfl.refl _, Unfl.refl _, unfl_ext _ _⟩
  · exact UnflAll.refl _

theorem adjMinAlways_unfl (h : PHours α) : UnflAll (adjMinAlways h) h :=
  ⟨unfl_map_flag _ _ _, Unfl.refl _, Unfl.refl _, Unfl.refl _, Unfl.refl _, unfl_map_flag _ _ _⟩

theorem adjMinInv_unfl (p : Params α) (h : PHours α) : UnflAll (adjMinInv p h) h := by
  unfold adjMinInv
  simp only []
  repeat' split
  all_goals
    refine ⟨?_, Unfl.refl _, Unfl.refl _, Unfl.refl _, Unfl.refl _, ?_⟩ <;>
    first | exact Unfl.refl _ | exact unfl_map_flag _ _ _

theorem adjSevHalf_unfl (p : Params α) (h : PHours α) : UnflAll (adjSevHalf p h) h := by
  unfold adjSevHalf
  split
  · simp only []
    repeat' split
    all_goals
      refine ⟨?_, Unfl.refl _, Unfl.refl _, Unfl.refl _, Unfl.refl _, ?_⟩ <;>
      first | exact Unfl.refl _ | exact unfl_ext _ _
  · exact UnflAll.refl _

theorem adjNearGood_unfl (p : Params α) (h : PHours α) (env : Env α) : UnflAll (adjNearGood p h env) h := by
  unfold adjNearGood
  split
  · exact UnflAll.refl _
  · split
    · exact ⟨unfl_map_ext _ _, unfl_map_ext _ _, unfl_map_ext _ _, unfl_map_ext _ _, unfl_map_ext _ _, unfl_map_ext _ _⟩
    · simp only []
      repeat' split
      all_goals
        refine ⟨?_, Unfl.refl _, Unfl.refl _, Unfl.refl _, Unfl.refl _, ?_⟩ <;>
        first | exact Unfl.refl _ | exact unfl_map_ext _ _

theorem adjNearLat_unfl (p : Params α) (h r : PHours α) (adj : Hours α) (hr : adjNearLat p h adj = .ok r) :
    UnflAll r h := by
  unfold adjNearLat at hr
  cases hf : adj.fajr <;> cases hi : adj.isha <;> simp only [hf, hi] at hr <;>
    (repeat' split at hr) <;> (try simp at hr) <;> (try subst hr) <;>
    (refine ⟨?_, ?_, ?_, ?_, ?_, ?_⟩ <;>
      first
        | exact Unfl.refl _
        | exact unfl_ext _ _
        | exact unfl_map_ext _ _
        | (intro w hw; simp at hw))

/-- whatever the policy, an entry it leaves unflagged is the conventional entry it started from -/
theorem applyPolicy_unfl (p : Params α) (h r : PHours α) (env : Env α) (hr : applyPolicy p h env = .ok r) :
    UnflAll r h := by
  unfold applyPolicy at hr
  split at hr
  · split at hr
    · simp only [Except.ok.injEq] at hr; subst hr; exact angleBased_unfl _ _
    · exact adjNearLat_unfl p _ _ _ hr
    · simp only [Except.ok.injEq] at hr; subst hr; exact adjNearGood_unfl _ _ _
    · simp only [Except.ok.injEq] at hr; subst hr; exact adjSevHalf_unfl _ _
    · simp only [Except.ok.injEq] at hr; subst hr; exact adjMinAlways_unfl _
    · simp only [Except.ok.injEq] at hr; subst hr; exact adjMinInv_unfl _ _
    · simp only [Except.ok.injEq] at hr; subst hr; exact UnflAll.refl _
  · simp only [Except.ok.injEq] at hr; subst hr; exact UnflAll.refl _

end IPT.ExtLatLemmas

namespace IPT.ExtLatLemmas
open IPT
variable {α : Type} [Add α] [Sub α] [Mul α] [Div α] [Neg α] [OfScientific α] [Sc α]

/-- the six "only if invalid" policies (the variants named `…Invalid`) -/
def isInvalidOnly : Policy α → Bool
  | .NearestLatitudeFajrIshaInvalid _ | .NearestGoodDayFajrIshaInvalid | .SeventhOfNightFajrIshaInvalid
  | .SeventhOfDayFajrIshaInvalid | .HalfOfNightFajrIshaInvalid | .MinutesFromMaghribFajrIshaInvalid => true
  | _ => false

/-- an only-if-invalid policy leaves a valid Fajr and a valid Isha exactly as they are -/
theorem applyPolicy_invalidOnly (p : Params α) (h r : PHours α) (env : Env α)
    (hinv : isInvalidOnly p.policy = true) (hr : applyPolicy p h env = .ok r) :
    (h.fajr.isSome → r.fajr = h.fajr) ∧ (h.isha.isSome → r.isha = h.isha) := by
  unfold applyPolicy at hr
  split at hr
  · cases hpol : p.policy <;> simp [isInvalidOnly, hpol] at hinv <;> simp only [hpol, Gen.dispatch] at hr
    · -- NearestLatitudeFajrIshaInvalid
      unfold adjNearLat at hr
      simp only [hpol, Policy.isNearLatFIInvalid, Policy.isNearLatAll] at hr
      rename_i l
      cases hf : (env.nearLatHours l).fajr <;> cases hi : (env.nearLatHours l).isha <;>
        cases hhf : h.fajr <;> cases hhi : h.isha <;> simp_all <;> subst hr <;> simp_all
    · -- NearestGoodDayFajrIshaInvalid
      simp only [Except.ok.injEq] at hr; subst hr
      unfold adjNearGood
      simp only [hpol, Policy.isGoodDayAll]
      split
      · exact ⟨fun _ => rfl, fun _ => rfl⟩
      · cases hhf : h.fajr <;> cases hhi : h.isha <;> simp_all
    all_goals
      simp only [Except.ok.injEq] at hr; subst hr
      first
        | (unfold adjSevHalf
           simp only [hpol, Policy.isSevHalfAlways]
           split
           · cases hhf : h.fajr <;> cases hhi : h.isha <;> simp_all <;> (repeat' split) <;> simp_all
           · exact ⟨fun _ => rfl, fun _ => rfl⟩)
        | (unfold adjMinInv
           cases hhf : h.fajr <;> cases hhi : h.isha <;> simp_all)
  · simp only [Except.ok.injEq] at hr; subst hr; exact ⟨fun _ => rfl, fun _ => rfl⟩

end IPT.ExtLatLemmas

namespace IPT.ExtLatLemmas
open IPT
variable {α : Type} [Add α] [Sub α] [Mul α] [Div α] [Neg α] [OfScientific α] [Sc α]

theorem goodHours_some (x a : Hours α) (h : goodHours x = some a) :
    a = x ∧ x.fajr.isSome = true ∧ x.isha.isSome = true := by
  unfold goodHours at h
  split at h
  · rename_i hc
    simp only [Option.some.injEq] at h
    simp only [Bool.and_eq_true] at hc
    exact ⟨h.symm, hc.1, hc.2⟩
  · simp at h

/-- whatever the search returns is a day on which both twilights exist, and it is the
    conventional hours of a date at most `bound` days away -/
theorem searchGood_some (hoursAt : Int → Hours α) (bound : Nat) (a : Hours α)
    (h : searchGood hoursAt bound = some a) :
    a.fajr.isSome = true ∧ a.isha.isSome = true ∧
      ∃ i : Nat, i ≤ bound ∧ (a = hoursAt (-(i : Int)) ∨ a = hoursAt (i : Int)) := by
  unfold searchGood at h
  obtain ⟨i, hi, hf⟩ := List.exists_of_findSome?_eq_some h
  simp only [List.mem_range] at hi
  split at hf
  · rename_i x hx
    simp only [Option.some.injEq] at hf; subst hf
    obtain ⟨e, f1, f2⟩ := goodHours_some _ _ hx
    exact ⟨e ▸ f1, e ▸ f2, i, by omega, Or.inl e⟩
  · obtain ⟨e, f1, f2⟩ := goodHours_some _ _ hf
    exact ⟨e ▸ f1, e ▸ f2, i, by omega, Or.inr e⟩

/-- shape of the policy output relevant to the interval pass: either the four other entries are
    untouched, or Fajr (resp. Isha) was replaced and carries the extreme flag -/
theorem applyPolicy_shape (p : Params α) (hours : Hours α) (h1 : PHours α) (env : Env α)
    (hh1 : applyPolicy p hours.toPH env = .ok h1)
    (hNLf : ∀ l, p.policy = .NearestLatitudeAllPrayersAlways l → (env.nearLatHours l).fajr.isSome = true)
    (hNLi : ∀ l, p.policy = .NearestLatitudeAllPrayersAlways l → (env.nearLatHours l).isha.isSome = true) :
    SameOthers h1 hours.toPH ∨ (flagOf h1.fajr = true ∧ flagOf h1.isha = true) := by
  by_cases hA : p.policy.isNearLatAll = false
  · by_cases hB : p.policy.isGoodDayAll = false
    · left
      unfold applyPolicy at hh1
      split at hh1
      · split at hh1
        · simp only [Except.ok.injEq] at hh1; subst hh1; exact angleBased_others _ _
        · exact adjNearLat_others p _ _ _ hA hh1
        · simp only [Except.ok.injEq] at hh1; subst hh1; exact adjNearGood_others _ _ _ hB
        · simp only [Except.ok.injEq] at hh1; subst hh1; exact adjSevHalf_others _ _
        · simp only [Except.ok.injEq] at hh1; subst hh1; exact adjMinAlways_others _
        · simp only [Except.ok.injEq] at hh1; subst hh1; exact adjMinInv_others _ _
        · simp only [Except.ok.injEq] at hh1; subst hh1; exact SameOthers.rfl' _
      · simp only [Except.ok.injEq] at hh1; subst hh1; exact SameOthers.rfl' _
    · -- NearestGoodDayAllPrayersAlways
      have hpol : p.policy = .NearestGoodDayAllPrayersAlways := by
        cases hp : p.policy <;> simp [Policy.isGoodDayAll, hp] at hB; rfl
      unfold applyPolicy at hh1
      simp only [hpol, Gen.dispatch] at hh1
      split at hh1
      · simp only [Except.ok.injEq] at hh1; subst hh1
        unfold adjNearGood
        simp only [hpol, Policy.isGoodDayAll]
        split
        · left; exact SameOthers.rfl' _
        · rename_i a ha
          obtain ⟨f1, f2, _⟩ := searchGood_some _ _ _ ha
          right
          obtain ⟨x, hx⟩ := Option.isSome_iff_exists.mp f1
          obtain ⟨y, hy⟩ := Option.isSome_iff_exists.mp f2
          simp [hx, hy, flagOf, PH.ext]
      · simp only [Except.ok.injEq] at hh1; subst hh1; left; exact SameOthers.rfl' _
  · -- NearestLatitudeAllPrayersAlways
    obtain ⟨l, hpol⟩ : ∃ l, p.policy = .NearestLatitudeAllPrayersAlways l := by
      cases hp : p.policy <;> simp [Policy.isNearLatAll, hp] at hA
      exact ⟨_, rfl⟩
    have f1 := hNLf l hpol
    have f2 := hNLi l hpol
    obtain ⟨x, hx⟩ := Option.isSome_iff_exists.mp f1
    obtain ⟨y, hy⟩ := Option.isSome_iff_exists.mp f2
    unfold applyPolicy at hh1
    simp only [hpol, Gen.dispatch] at hh1
    split at hh1
    · right
      unfold adjNearLat at hh1
      simp only [hpol, Policy.isNearLatFIInvalid, Policy.isNearLatAll, hx, hy] at hh1
      cases hd : hours.dhuhr <;> simp [Hours.toPH, hd] at hh1 <;> subst hh1 <;> simp [flagOf, PH.ext]
    · simp only [Except.ok.injEq] at hh1; subst hh1; left; exact SameOthers.rfl' _

/-- one-sided forms of `applyPolicy_shape`: the substitute latitude only has to have the twilight
    whose flag the interval pass is about to read -/
theorem applyPolicy_shape_fajr (p : Params α) (hours : Hours α) (h1 : PHours α) (env : Env α)
    (hh1 : applyPolicy p hours.toPH env = .ok h1)
    (hNLf : ∀ l, p.policy = .NearestLatitudeAllPrayersAlways l → (env.nearLatHours l).fajr.isSome = true) :
    SameOthers h1 hours.toPH ∨ flagOf h1.fajr = true := by
  by_cases hA : p.policy.isNearLatAll = false
  · have := applyPolicy_shape p hours h1 env hh1
      (fun l hl => by simp [Policy.isNearLatAll, hl] at hA) (fun l hl => by simp [Policy.isNearLatAll, hl] at hA)
    rcases this with h | ⟨h, _⟩
    · exact Or.inl h
    · exact Or.inr h
  · obtain ⟨l, hpol⟩ : ∃ l, p.policy = .NearestLatitudeAllPrayersAlways l := by
      cases hp : p.policy <;> simp [Policy.isNearLatAll, hp] at hA
      exact ⟨_, rfl⟩
    obtain ⟨x, hx⟩ := Option.isSome_iff_exists.mp (hNLf l hpol)
    unfold applyPolicy at hh1
    simp only [hpol, Gen.dispatch] at hh1
    split at hh1
    · right
      unfold adjNearLat at hh1
      simp only [hpol, Policy.isNearLatFIInvalid, Policy.isNearLatAll, hx] at hh1
      cases hi : (env.nearLatHours l).isha <;> cases hd : hours.dhuhr <;>
        simp [Hours.toPH, hd, hi] at hh1 <;> subst hh1 <;> simp [flagOf, PH.ext]
    · simp only [Except.ok.injEq] at hh1; subst hh1; left; exact SameOthers.rfl' _

theorem applyPolicy_shape_isha (p : Params α) (hours : Hours α) (h1 : PHours α) (env : Env α)
    (hh1 : applyPolicy p hours.toPH env = .ok h1)
    (hNLi : ∀ l, p.policy = .NearestLatitudeAllPrayersAlways l → (env.nearLatHours l).isha.isSome = true) :
    SameOthers h1 hours.toPH ∨ flagOf h1.isha = true := by
  by_cases hA : p.policy.isNearLatAll = false
  · have := applyPolicy_shape p hours h1 env hh1
      (fun l hl => by simp [Policy.isNearLatAll, hl] at hA) (fun l hl => by simp [Policy.isNearLatAll, hl] at hA)
    rcases this with h | ⟨_, h⟩
    · exact Or.inl h
    · exact Or.inr h
  · obtain ⟨l, hpol⟩ : ∃ l, p.policy = .NearestLatitudeAllPrayersAlways l := by
      cases hp : p.policy <;> simp [Policy.isNearLatAll, hp] at hA
      exact ⟨_, rfl⟩
    obtain ⟨y, hy⟩ := Option.isSome_iff_exists.mp (hNLi l hpol)
    unfold applyPolicy at hh1
    simp only [hpol, Gen.dispatch] at hh1
    split at hh1
    · right
      unfold adjNearLat at hh1
      simp only [hpol, Policy.isNearLatFIInvalid, Policy.isNearLatAll, hy] at hh1
      cases hf : (env.nearLatHours l).fajr <;> cases hd : hours.dhuhr <;>
        simp [Hours.toPH, hd, hf] at hh1 <;> subst hh1 <;> simp [flagOf, PH.ext]
    · simp only [Except.ok.injEq] at hh1; subst hh1; left; exact SameOthers.rfl' _

end IPT.ExtLatLemmas

namespace IPT.ExtLatLemmas
open IPT
variable {α : Type} [Add α] [Sub α] [Mul α] [Div α] [Neg α] [OfScientific α] [Sc α]

theorem intFajrOut_active (p : Params α) (h : PHours α) (hE : ¬ Gen.intExcluded p.policy = true)
    (hz : ¬ nonZero p.intFajr = false) :
    intFajrOut p h = h.shur.map fun (x : PH α) => ⟨x.value - p.intFajr / Gen.MIN_SEC_PER_HR_MIN, flagOf h.fajr⟩ := by
  unfold intFajrOut; rw [if_neg]; intro hc; rcases hc with hc | hc <;> contradiction

theorem intIshaOut_active (p : Params α) (h : PHours α) (hE : ¬ Gen.intExcluded p.policy = true)
    (hz : ¬ nonZero p.intIsha = false) :
    intIshaOut p h = h.magh.map fun (x : PH α) => ⟨x.value + p.intIsha / Gen.MIN_SEC_PER_HR_MIN, flagOf h.isha⟩ := by
  unfold intIshaOut; rw [if_neg]; intro hc; rcases hc with hc | hc <;> contradiction

theorem intFajrOut_inactive (p : Params α) (h : PHours α)
    (hc : Gen.intExcluded p.policy = true ∨ nonZero p.intFajr = false) : intFajrOut p h = h.fajr := by
  unfold intFajrOut; rw [if_pos hc]

theorem intIshaOut_inactive (p : Params α) (h : PHours α)
    (hc : Gen.intExcluded p.policy = true ∨ nonZero p.intIsha = false) : intIshaOut p h = h.isha := by
  unfold intIshaOut; rw [if_pos hc]

theorem none_not_excluded (p : Params α) : ¬ Gen.intExcluded ({ p with policy := Policy.None } : Params α).policy = true := by
  simp [Gen.intExcluded]

theorem flagOf_conv (x : Option α) : flagOf (x.map PH.conv) = false := by cases x <;> rfl

end IPT.ExtLatLemmas
