import IPT.Model.F64
import IPT.Model.Bounded
import IPT.Lemmas.Grammar
import IPT.Real.Inst
import Mathlib.Order.Monotone.Basic
import Mathlib.Tactic.Ring
import Mathlib.Tactic.Linarith
/-
  C18 — validated quantities hold only in-range values, however they are constructed.
  Bit-level theorems about IEEE-754 binary64 patterns (IPT/Model/F64.lean; its comparison order is
  compared with Rust's `<=`/`<`/`==` and with Lean's Float on bit-pattern streams, unit `f64cmp`):
  the range check accepts exactly the finite patterns whose exact value lies in [lo, hi], bounds
  included; NaN and ±∞ are rejected; the accepted value is stored unchanged.  The six ranges and
  the serde(try_from) attribute of each type are re-read from the source.  Text and JSON routes
  are the exact decimal value rounded to nearest-even (model validated on >10⁶ strings against
  Rust's parser and serde_json; correct rounding is NOT proved) followed by the same range check.
  Two renderings of the range check appear below: the generic `tryFrom` (scalar comparisons, bounds
  from the regenerated `Gen.*_LO/HI`) and the bit-level `tryFromBits` (bounds `boundBits`, typed in).
  They are tied at run time, not by a theorem: the driver's `rangecheck` request compares the bit
  patterns of the regenerated constants with `boundBits` on every run (unit `bounded`), and unit
  `f64cmp` compares the bit-level order with Lean's and Rust's float comparison.
-/
namespace IPT.C18
open IPT IPT.F64

variable {α : Type} [Add α] [Sub α] [Mul α] [Div α] [Neg α] [OfScientific α] [Sc α]

/-- the six documented closed ranges -/
theorem documented_ranges :
    (Gen.Gmt_LO : α) = (-12.0) ∧ (Gen.Gmt_HI : α) = 12.0 ∧
    (Gen.Latitude_LO : α) = (-90.0) ∧ (Gen.Latitude_HI : α) = 90.0 ∧
    (Gen.Longitude_LO : α) = (-180.0) ∧ (Gen.Longitude_HI : α) = 180.0 ∧
    (Gen.Elevation_LO : α) = (-420.0) ∧ (Gen.Elevation_HI : α) = 8848.0 ∧
    (Gen.Pressure_LO : α) = 100.0 ∧ (Gen.Pressure_HI : α) = 1050.0 ∧
    (Gen.Temperature_LO : α) = (-90.0) ∧ (Gen.Temperature_HI : α) = 57.0 :=
  ⟨rfl, rfl, rfl, rfl, rfl, rfl, rfl, rfl, rfl, rfl, rfl, rfl⟩

/-- **the range check over the reals**: the generic `tryFrom` (the one the hours model and the CLI
    wiring use) accepts exactly the values in the closed range of the regenerated bounds and stores
    them unchanged - the real-number reading of `accepted_iff_in_range` below, which states the same
    at the level of binary64 bit patterns -/
theorem tryFrom_real_iff (t : BType) (v : ℝ) :
    (tryFrom t v = some v ↔ (t.lo : ℝ) ≤ v ∧ v ≤ (t.hi : ℝ)) ∧ (tryFrom t v = none ↔ ¬ ((t.lo : ℝ) ≤ v ∧ v ≤ (t.hi : ℝ))) := by
  unfold tryFrom
  simp only [sc_leb, Bool.and_eq_true, decide_eq_true_eq]
  constructor <;> by_cases h : (t.lo : ℝ) ≤ v ∧ v ≤ (t.hi : ℝ) <;> simp [h]

/-- every one of the six types routes JSON through `try_from`.  False of the code as first found
    (Pressure and Temperature lacked `serde(try_from = "f64")`). -/
theorem json_checked_all : ∀ t : BType, t.jsonChecked = true := by
  intro t; cases t <;> rfl

/-- so the JSON number route and the number route take the same decision and store the same value -/
theorem json_route_eq_number_route (t : BType) (v : α) : fromJsonNumber t v = tryFrom t v := by
  simp [fromJsonNumber, json_checked_all t]

/-- an accepted value reads back identical (the constructor stores its argument) -/
theorem tryFrom_id (t : BType) (v x : α) (h : tryFrom t v = some x) : x = v := by
  unfold tryFrom at h; split at h <;> simp_all

-- ---------------------------------------------------------------- bit level

theorem scaledMag_step (m : Nat) : scaledMag m < scaledMag (m + 1) := by
  unfold scaledMag
  by_cases hf : m % 2 ^ 52 + 1 < 2 ^ 52
  · -- same exponent, mantissa + 1
    have e1 : (m + 1) / 2 ^ 52 = m / 2 ^ 52 := by omega
    have e2 : (m + 1) % 2 ^ 52 = m % 2 ^ 52 + 1 := by omega
    simp only [e1, e2]
    split
    · omega
    · apply Nat.mul_lt_mul_of_pos_right (by omega) (by positivity)
  · -- mantissa wraps, exponent + 1
    have hf' : m % 2 ^ 52 = 2 ^ 52 - 1 := by omega
    have e1 : (m + 1) / 2 ^ 52 = m / 2 ^ 52 + 1 := by omega
    have e2 : (m + 1) % 2 ^ 52 = 0 := by omega
    simp only [e1, e2, hf', Nat.add_eq_zero_iff, one_ne_zero, and_false, if_false, Nat.add_sub_cancel, add_zero]
    split
    · rename_i he; simp [he]
    · rename_i he
      obtain ⟨k, hk⟩ : ∃ k, m / 2 ^ 52 = k + 1 := ⟨m / 2 ^ 52 - 1, by omega⟩
      rw [hk, pow_succ]
      simp only [Nat.add_sub_cancel]
      have hp : 0 < 2 ^ k := by positivity
      calc (2 ^ 52 + (2 ^ 52 - 1)) * 2 ^ k < (2 ^ 52 * 2) * 2 ^ k :=
            Nat.mul_lt_mul_of_pos_right (by norm_num) hp
        _ = 2 ^ 52 * (2 ^ k * 2) := by ring

/-- the exact magnitude is strictly increasing in the magnitude bits -/
theorem scaledMag_strictMono : StrictMono scaledMag := strictMono_nat_of_lt_succ scaledMag_step

theorem scaledMag_zero : scaledMag 0 = 0 := by decide

/-- on non-NaN patterns the ordering key orders exact values: key a ≤ key b ↔ value a ≤ value b -/
theorem key_le_iff_scaled_le (a b : Nat) : key a ≤ key b ↔ scaled a ≤ scaled b := by
  unfold key scaled
  have mono := scaledMag_strictMono
  have z : ∀ m, scaledMag m = 0 → m = 0 := by
    intro m hm
    by_contra hne
    have := mono (Nat.pos_of_ne_zero hne)
    rw [scaledMag_zero] at this; omega
  cases ha : signBit a <;> cases hb : signBit b <;> simp only [Bool.false_eq_true, if_true, if_false]
  · -- both non-negative
    rw [Int.ofNat_le, Int.ofNat_le]; exact (mono.le_iff_le).symm
  · -- b ≤ 0 ≤ a: both sides force a = b = 0 in magnitude
    constructor <;> intro h
    · have h1' : magBits a = 0 := by omega
      have h2' : magBits b = 0 := by omega
      simp [h1', h2', scaledMag_zero]
    · have h1' : magBits a = 0 := z _ (by omega)
      have h2' : magBits b = 0 := z _ (by omega)
      simp [h1', h2']
  · -- a ≤ 0 ≤ b
    constructor <;> intro _ <;> omega
  · -- both negative
    rw [neg_le_neg_iff, neg_le_neg_iff, Int.ofNat_le, Int.ofNat_le]
    exact (mono.le_iff_le).symm

/-- **NaN is rejected**, whatever the bounds -/
theorem nan_rejected (lo hi v : Nat) (h : isNaN v = true) : tryFromBits lo hi v = none := by
  simp [tryFromBits, contains, le, h]

theorem key_abs_lt_of_finite (b : Nat) (h : isFinite b = true) : -(2047 * 2 ^ 52 : Int) < key b ∧ key b < 2047 * 2 ^ 52 := by
  have hm : magBits b < 2047 * 2 ^ 52 := by
    unfold isFinite expBits at h
    unfold magBits
    have hne : b / 2 ^ 52 % 2048 ≠ 2047 := by simpa using h
    have h1 : b % 2 ^ 63 / 2 ^ 52 = b / 2 ^ 52 % 2048 := by omega
    have h2 := Nat.mod_lt (b / 2 ^ 52) (show 0 < 2048 by norm_num)
    have h3 := Nat.div_add_mod (b % 2 ^ 63) (2 ^ 52)
    have h4 := Nat.mod_lt (b % 2 ^ 63) (show 0 < 2 ^ 52 by positivity)
    rw [h1] at h3
    omega
  unfold key
  split <;> omega

theorem key_of_inf (b : Nat) (h : isInf b = true) : key b = 2047 * 2 ^ 52 ∨ key b = -(2047 * 2 ^ 52 : Int) := by
  have hm : magBits b = 2047 * 2 ^ 52 := by
    unfold isInf expBits manBits at h
    unfold magBits
    simp only [Bool.and_eq_true, beq_iff_eq] at h
    omega
  unfold key
  split <;> simp [hm]

/-- **±∞ is rejected** when the bounds are finite -/
theorem inf_rejected (lo hi v : Nat) (hlo : isFinite lo = true) (hhi : isFinite hi = true) (h : isInf v = true) :
    tryFromBits lo hi v = none := by
  have k := key_of_inf v h
  have a := key_abs_lt_of_finite lo hlo
  have b := key_abs_lt_of_finite hi hhi
  unfold tryFromBits contains le
  rcases k with k | k
  · have : ¬ key v ≤ key hi := by omega
    simp [this]
  · have : ¬ key lo ≤ key v := by omega
    simp [this]

/-- **the range check accepts exactly the finite patterns whose exact value is in [lo, hi]** —
    both bounds included — and stores the pattern unchanged -/
theorem tryFrom_iff (lo hi v : Nat) (hlo : isFinite lo = true) (hhi : isFinite hi = true) :
    tryFromBits lo hi v = some v ↔ (isFinite v = true ∧ scaled lo ≤ scaled v ∧ scaled v ≤ scaled hi) := by
  have fin_not_nan : ∀ b, isFinite b = true → isNaN b = false := by
    intro b hb; unfold isFinite at hb; unfold isNaN; simp at hb ⊢; intro h; exact absurd h hb
  constructor
  · intro h
    have hc : contains lo hi v = true := by
      unfold tryFromBits at h; split at h <;> simp_all
    unfold contains le at hc
    simp only [Bool.and_eq_true, Bool.not_eq_true', decide_eq_true_eq] at hc
    obtain ⟨⟨⟨_, hv⟩, h1⟩, ⟨⟨_, _⟩, h2⟩⟩ := hc
    have hfin : isFinite v = true := by
      by_contra hnf
      have hinf : isInf v = true := by
        unfold isFinite at hnf; unfold isNaN at hv; unfold isInf
        simp at hnf hv ⊢; exact ⟨hnf, hv hnf⟩
      have := inf_rejected lo hi v hlo hhi hinf
      rw [this] at h; simp at h
    exact ⟨hfin, (key_le_iff_scaled_le _ _).mp h1, (key_le_iff_scaled_le _ _).mp h2⟩
  · rintro ⟨hf, h1, h2⟩
    have k1 := (key_le_iff_scaled_le lo v).mpr h1
    have k2 := (key_le_iff_scaled_le v hi).mpr h2
    simp [tryFromBits, contains, le, fin_not_nan _ hf, fin_not_nan _ hlo, fin_not_nan _ hhi, k1, k2]

theorem boundBits_values :
    scaled (boundBits .Gmt).1 = -12 * 2 ^ 1074 ∧ scaled (boundBits .Gmt).2 = 12 * 2 ^ 1074 ∧
    scaled (boundBits .Latitude).1 = -90 * 2 ^ 1074 ∧ scaled (boundBits .Latitude).2 = 90 * 2 ^ 1074 ∧
    scaled (boundBits .Longitude).1 = -180 * 2 ^ 1074 ∧ scaled (boundBits .Longitude).2 = 180 * 2 ^ 1074 ∧
    scaled (boundBits .Elevation).1 = -420 * 2 ^ 1074 ∧ scaled (boundBits .Elevation).2 = 8848 * 2 ^ 1074 ∧
    scaled (boundBits .Pressure).1 = 100 * 2 ^ 1074 ∧ scaled (boundBits .Pressure).2 = 1050 * 2 ^ 1074 ∧
    scaled (boundBits .Temperature).1 = -90 * 2 ^ 1074 ∧ scaled (boundBits .Temperature).2 = 57 * 2 ^ 1074 := by
  decide +kernel

theorem boundBits_finite (t : BType) : isFinite (boundBits t).1 = true ∧ isFinite (boundBits t).2 = true := by
  cases t <;> decide +kernel

/-- **a latitude (etc.) exists only inside its documented closed range**: accepted ⇔ finite and
    lo·2^1074 ≤ value·2^1074 ≤ hi·2^1074 -/
theorem accepted_iff_in_range (t : BType) (v : Nat) :
    tryFromBits (boundBits t).1 (boundBits t).2 v = some v ↔
      (isFinite v = true ∧ scaled (boundBits t).1 ≤ scaled v ∧ scaled v ≤ scaled (boundBits t).2) :=
  tryFrom_iff _ _ v (boundBits_finite t).1 (boundBits_finite t).2

/-! ### the three routes -/

/-- **the text route never yields a value outside the range**: whatever the string, what `FromStr`
    returns is the parsed pattern itself, finite, with lo ≤ value ≤ hi -/
theorem textRoute_in_range (t : BType) (s : String) (x : Nat)
    (h : textRoute (boundBits t).1 (boundBits t).2 s = some x) :
    isFinite x = true ∧ scaled (boundBits t).1 ≤ scaled x ∧ scaled x ≤ scaled (boundBits t).2 ∧
    (parseRust s).bits? = some x := by
  unfold textRoute at h
  split at h
  · rename_i b hb
    have hx : x = b := by
      unfold tryFromBits at h; split at h <;> simp_all
    subst hx
    exact ⟨((accepted_iff_in_range t x).mp h).1, ((accepted_iff_in_range t x).mp h).2.1,
      ((accepted_iff_in_range t x).mp h).2.2, hb⟩
  · simp at h

/-- **the text route is the number route applied to the parsed value** (it accepts exactly the
    strings whose correctly rounded value the number route accepts) -/
theorem textRoute_eq_number_route (lo hi : Nat) (s : String) (b : Nat) (hb : (parseRust s).bits? = some b) :
    textRoute lo hi s = tryFromBits lo hi b := by
  simp [textRoute, hb]

/-- **the JSON route agrees with the text route** on every string both grammars read to the same
    pattern, for a type that carries `serde(try_from = "f64")` (all six do: `json_checked_all`):
    a value too large for f64 is an error on the JSON route and an infinity - rejected - on the
    text route.  The hypothesis carries the grammar agreement: it holds for every JSON number
    (the JSON number grammar is contained in Rust's: `json_grammar_in_text_grammar`, so `json_text_agree_on_json_numbers` below needs no such hypothesis) and
    fails exactly on the strings only Rust's grammar reads - `+1`, `01`, `1.`, `.5`, `inf`, `nan` - which
    the text route accepts or rejects by value and the JSON route rejects as malformed: on those the
    routes differ by design of the two grammars, and "the three routes agree" is read as agreement
    on what each route can express (DESIGN 14.3.18). -/
theorem jsonRoute_eq_textRoute (lo hi : Nat) (hlo : isFinite lo = true) (hhi : isFinite hi = true)
    (s : String) (h : (parseJson s).bits? = (parseRust s).bits?) :
    jsonRoute true lo hi s = textRoute lo hi s := by
  unfold jsonRoute textRoute
  rw [h]
  cases hb : (parseRust s).bits? with
  | none => rfl
  | some b =>
    simp only
    by_cases hf : isFinite b = true
    · simp [hf]
    · simp only [hf, Bool.not_false, if_true]
      have hinf_or_nan : isInf b = true ∨ isNaN b = true := by
        unfold isFinite at hf; unfold isInf isNaN
        simp only [bne_iff_ne, ne_eq, Bool.not_eq_true, Bool.and_eq_true, beq_iff_eq] at *
        by_cases hm : manBits b = 0
        · left; simp_all
        · right; simp_all
      rcases hinf_or_nan with hi' | hn
      · exact (inf_rejected lo hi b hlo hhi hi').symm
      · exact (nan_rejected lo hi b hn).symm

/-- **the JSON number grammar is contained in the text grammar, with the same reading**: every
    string the JSON route reads as a number, `str::parse::<f64>` reads as the same number -/
theorem json_grammar_in_text_grammar (s : String) (d : Dec) (h : parseJson s = .num d) :
    parseRust s = .num d := parseRust_of_parseJson s d h

/-- **on every JSON number the JSON route and the text route agree** (acceptance and stored pattern),
    with no hypothesis on the string beyond its being a JSON number: the malformed-for-JSON strings
    (`+1`, `01`, `1.`, `.5`, `inf`, `nan`) are exactly where the two grammars differ by design -/
theorem json_text_agree_on_json_numbers (lo hi : Nat) (hlo : isFinite lo = true) (hhi : isFinite hi = true)
    (s : String) (hj : parseJson s ≠ .bad) : jsonRoute true lo hi s = textRoute lo hi s := by
  rcases parseJson_num_or_bad s with hb | ⟨d, hd⟩
  · exact absurd hb hj
  · exact jsonRoute_eq_textRoute lo hi hlo hhi s (by rw [hd, parseRust_of_parseJson s d hd])

/-- whatever the JSON route accepts, the text route accepts with the same pattern - for EVERY string -/
theorem json_accepts_imp_text_accepts (lo hi : Nat) (hlo : isFinite lo = true) (hhi : isFinite hi = true)
    (s : String) (b : Nat) (h : jsonRoute true lo hi s = some b) : textRoute lo hi s = some b := by
  rcases parseJson_num_or_bad s with hb | ⟨d, hd⟩
  · simp [jsonRoute, hb, Parsed.bits?] at h
  · rw [← json_text_agree_on_json_numbers lo hi hlo hhi s (by rw [hd]; exact fun h => Parsed.noConfusion h)]
    exact h

-- non-vacuity: "1.5e1" is a JSON number and both routes store 15.0 as a latitude; "+1" is not JSON
example : parseJson "1.5e1" ≠ .bad := by decide
example : jsonRoute true (boundBits .Latitude).1 (boundBits .Latitude).2 "1.5e1" = some 0x402E000000000000 := by decide +kernel
example : textRoute (boundBits .Latitude).1 (boundBits .Latitude).2 "1.5e1" = some 0x402E000000000000 := by decide +kernel
example : parseJson "+1" = .bad := by decide

/-- without the attribute the JSON route would accept any finite number (the defect repaired by
    166a3b7): the unchecked route returns the parsed pattern whatever the range -/
theorem jsonRoute_unchecked (lo hi : Nat) (s : String) (b : Nat) (hb : (parseJson s).bits? = some b)
    (hf : isFinite b = true) : jsonRoute false lo hi s = some b := by
  simp [jsonRoute, hb, hf]

-- non-vacuity / bounds included: 90.0 is a latitude, the next double above it is not, -0.0 is
example : tryFromBits (boundBits .Latitude).1 (boundBits .Latitude).2 0x4056800000000000 = some 0x4056800000000000 := by decide +kernel
example : tryFromBits (boundBits .Latitude).1 (boundBits .Latitude).2 0x4056800000000001 = none := by decide +kernel
example : tryFromBits (boundBits .Latitude).1 (boundBits .Latitude).2 0x8000000000000000 = some 0x8000000000000000 := by decide +kernel
example : tryFromBits (boundBits .Pressure).1 (boundBits .Pressure).2 0x7FF8000000000000 = none := by decide +kernel

end IPT.C18
