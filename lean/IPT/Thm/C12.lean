import IPT.Thm.C11
import IPT.Lemmas.ExtLat
/-
  C12 — each parameter affects only the times it is documented to affect.
  Non-interference statements hold for EVERY scalar type (they are about which fields a function
  reads); the exact shift by k minutes is over ℝ (Thm C11's clock of the unrounded time).
-/
namespace IPT.C12
open IPT IPT.ExtLatLemmas
variable {α : Type} [Add α] [Sub α] [Mul α] [Div α] [Neg α] [OfScientific α] [Sc α]

/-- replace the seven minute offsets -/
def withMinutes (p : Params α) (m : Prayer → α) : Params α :=
  { p with minImsaak := m .Imsaak, minFajr := m .Fajr, minShurooq := m .Shurooq, minDhuhr := m .Dhuhr,
           minAsr := m .Asr, minMaghrib := m .Maghrib, minIsha := m .Isha }

/-- the six hours, the policy layer and the interval pass never read a minute offset -/
theorem hours_ignore_offsets (p : Params α) (m : Prayer → α) (t : TopAstroDay α) (w : Weather α) :
    getHoursAdjExt (withMinutes p m) t w = getHoursAdjExt p t w := rfl

/-- **a minute offset for a prayer reaches exactly that prayer's conversion**: converting the
    hour of prayer `pr` reads only `minutes[pr]` (and the rounding mode) -/
theorem offset_only_that_prayer (p q : Params α) (pr : Prayer) (x : α)
    (hr : p.round = q.round) (hm : p.minutes pr = q.minutes pr) :
    hourToTime p pr x = hourToTime q pr x := by
  unfold hourToTime convertHour
  rw [hm, hr]

/-- so changing the offset of another prayer leaves this prayer's time unchanged -/
theorem other_offset_irrelevant (p : Params α) (m : Prayer → α) (pr : Prayer) (ph : PH α)
    (hm : m pr = p.minutes pr) :
    toPrayerTime (withMinutes p m) pr ph = toPrayerTime p pr ph := by
  unfold toPrayerTime
  rw [offset_only_that_prayer (withMinutes p m) p pr ph.value rfl (by cases pr <;> simpa [withMinutes, Params.minutes] using hm)]

/-- **Imsaak follows Fajr's offset**: the Imsaak conversion is a Fajr conversion under parameters
    whose Fajr offset is the caller's (minus the Imsaak interval, if one is set) and whose other
    offsets, angles and policy are the caller's -/
theorem imsaak_follows_fajr_offset (p : Params α) :
    ((imsaakParams1 p).minFajr = p.minFajr ∨ (imsaakParams1 p).minFajr = p.minFajr - p.intImsaak) ∧
    (imsaakParams1 p).round = p.round ∧ (imsaakParams1 p).policy = p.policy := by
  unfold imsaakParams1
  split <;> [skip; split] <;> simp

/-- **an Imsaak interval (no Fajr interval)**: Imsaak is computed as a Fajr with the SAME hours
    (`hours_ignore_offsets`) and Fajr's minute offset reduced by the interval - a statement about the
    parameter set `get_imsaak` runs with; that a minute offset moves the clock time by that many
    minutes is `offset_moves_clock` (whole minutes) -/
theorem imsaak_interval (p : Params α) (hF : nonZero p.intFajr = false) (hI : nonZero p.intImsaak = true) :
    imsaakParams1 p = { p with minFajr := p.minFajr - p.intImsaak } := by
  simp [imsaakParams1, hF, hI]

/-- **an Imsaak interval together with a Fajr interval**: Imsaak is computed as a Fajr defined by
    the interval `FajrInterval + ImsaakInterval` before Shurooq (`isha_fajr_interval`: an interval
    Fajr is Shurooq minus its interval), i.e. the Imsaak interval before the interval Fajr - both
    in minutes, one sum, nothing else changed (the unit slip of seed C12h breaks the correspondence
    that ties this text to the code) -/
theorem imsaak_interval_with_fajr_interval (p : Params α) (hF : nonZero p.intFajr = true)
    (hI : Sc.eqb p.intImsaak 0.0 = false) :
    imsaakParams1 p = { p with intFajr := p.intFajr + p.intImsaak } := by
  simp [imsaakParams1, hF, hI]

/-- **when Fajr is extreme** the parameter set Imsaak is recomputed with is the caller's with Fajr's
    offset reduced by the Imsaak interval, or by 1.5 minutes if none is set (parameter-level
    statement; `imsaak_extreme_branch` says that this set is the one used, `imsaak_extreme_is_flagged`
    that the result carries the flag) -/
theorem imsaak_when_fajr_extreme (p : Params α) (hI : Sc.eqb p.intImsaak 0.0 = true) :
    imsaakParams2 p = { p with minFajr := p.minFajr - Gen.DEF_IMSAAK_ANGLE } ∧
    (Gen.DEF_IMSAAK_ANGLE : α) = 1.5 := by
  simp [imsaakParams2, hI]; rfl

/-- **when the reported Fajr is extreme, Imsaak is that Fajr with its offset reduced** (and carries
    its flag): the fallback branch is taken whenever the Fajr of the caller's own parameters is
    extreme — also when the Fajr of the angle-adjusted parameters is not (the defect repaired by
    the last `fix:` commit: nearest-latitude policies with an unreachable Imsaak angle) -/
theorem imsaak_extreme_branch (p : Params α) (run : Params α → Except Panic (PHours α)) (h1 h0 h2 : PHours α)
    (hr1 : run (imsaakParams1 p) = .ok h1) (hr0 : run p = .ok h0) (he : fajrExtreme h0 = true)
    (hr2 : run (imsaakParams2 p) = .ok h2) :
    imsaakOf p run = flagExtreme (optTime (imsaakParams2 p) .Fajr h2.fajr) := by
  cases h : fajrExtreme h1 <;> simp [imsaakOf, hr1, hr0, he, hr2, h]

/-- what the fallback returns is flagged extreme, with the time untouched -/
theorem flagExtreme_spec (r : Except Panic (Option PT)) (t : PT) (h : flagExtreme r = .ok (some t)) :
    t.extreme = true ∧ ∃ t0, r = .ok (some t0) ∧ t.time = t0.time := by
  unfold flagExtreme at h
  split at h
  · rename_i t0
    simp only [Except.ok.injEq, Option.some.injEq] at h
    subst h
    exact ⟨rfl, t0, rfl, rfl⟩
  · rename_i hne
    exact absurd h (by intro h'; exact hne t h')

/-- **"when Fajr is extreme Imsaak is 1.5 minutes before it and extreme too"**: whatever the Fajr
    computed with the reduced offset looks like, the Imsaak the fallback reports carries the flag -/
theorem imsaak_extreme_is_flagged (p : Params α) (run : Params α → Except Panic (PHours α)) (h1 h0 h2 : PHours α)
    (hr1 : run (imsaakParams1 p) = .ok h1) (hr0 : run p = .ok h0) (he : fajrExtreme h0 = true)
    (hr2 : run (imsaakParams2 p) = .ok h2) (t : PT) (ht : imsaakOf p run = .ok (some t)) :
    t.extreme = true := by
  rw [imsaak_extreme_branch p run h1 h0 h2 hr1 hr0 he hr2] at ht
  exact (flagExtreme_spec _ t ht).1

/-- **an Isha interval makes Isha = Maghrib + interval and a Fajr interval Fajr = Shurooq − interval**
    (whatever the policy did before, unless the policy is one of the three the interval pass skips) -/
theorem isha_fajr_interval (p : Params α) (hours : Hours α) (env : Env α) (h1 r : PHours α)
    (hE : ¬ Gen.intExcluded p.policy = true)
    (hap : applyPolicy p hours.toPH env = .ok h1) (hr : adjForExtLat p hours env = .ok r) :
    (nonZero p.intIsha = true →
      r.isha = h1.magh.map fun (x : PH α) => ⟨x.value + p.intIsha / Gen.MIN_SEC_PER_HR_MIN, flagOf h1.isha⟩) ∧
    (nonZero p.intFajr = true →
      r.fajr = h1.shur.map fun (x : PH α) => ⟨x.value - p.intFajr / Gen.MIN_SEC_PER_HR_MIN, flagOf h1.fajr⟩) := by
  have hg : Gen.intFlagRead = .mapOrFalse := by decide
  unfold adjForExtLat at hr
  rw [hap] at hr
  obtain ⟨hf, hi⟩ := adjForInt_out p h1 r hg hr
  constructor
  · intro hz; rw [hi, intIshaOut_active p h1 hE (by simp [hz])]
  · intro hz; rw [hf, intFajrOut_active p h1 hE (by simp [hz])]

/-- **changing the Asr school changes only Asr** - among the six computed hours of `getHours`;
    `asr_school_only_asr_reported` carries it to the reported hours under policy None -/
theorem asr_school_only_asr (p : Params α) (a : AsrRatio) (t : TopAstroDay α) (w : Weather α) :
    let h := getHours p t w
    let h' := getHours { p with asr := a } t w
    h'.fajr = h.fajr ∧ h'.shur = h.shur ∧ h'.dhuhr = h.dhuhr ∧ h'.magh = h.magh ∧ h'.isha = h.isha :=
  ⟨rfl, rfl, rfl, rfl, rfl⟩

/-- **the Fajr angle changes only Fajr (and Imsaak, which is a Fajr)** - among the six computed hours
    of `getHours`; `fajr_angle_only_fajr_reported` carries it to the reported hours under policy
    None.  Under a replacing policy the claim does not lift: which entries a policy rewrites
    depends on which hours exist (DESIGN 14.3.13 is the reading the falsifier uses there). -/
theorem fajr_angle_only_fajr (p : Params α) (x : α) (t : TopAstroDay α) (w : Weather α) :
    let h := getHours p t w
    let h' := getHours { p with angFajr := x } t w
    h'.shur = h.shur ∧ h'.dhuhr = h.dhuhr ∧ h'.asr = h.asr ∧ h'.magh = h.magh ∧ h'.isha = h.isha :=
  ⟨rfl, rfl, rfl, rfl, rfl⟩

/-- **the Isha angle changes only Isha** - among the six computed hours of `getHours`;
    `isha_angle_only_isha_reported` carries it to the reported hours under policy None -/
theorem isha_angle_only_isha (p : Params α) (x : α) (t : TopAstroDay α) (w : Weather α) :
    let h := getHours p t w
    let h' := getHours { p with angIsha := x } t w
    h'.fajr = h.fajr ∧ h'.shur = h.shur ∧ h'.dhuhr = h.dhuhr ∧ h'.asr = h.asr ∧ h'.magh = h.magh :=
  ⟨rfl, rfl, rfl, rfl, rfl⟩


/-- under policy None the reported hours are the computed ones after the interval pass -/
theorem none_policy_eq (p : Params α) (t : TopAstroDay α) (w : Weather α) (hp : p.policy = .None) :
    getHoursAdjExt p t w = adjForInt p (getHours p t w).toPH := by
  simp [getHoursAdjExt, adjForExtLat, applyPolicy, canAdj, hp, Policy.isNone]

/-- **reported hours, policy None: the Fajr angle changes only Fajr** (intervals allowed: an
    interval-defined Isha is Maghrib + interval and does not read the Fajr angle either) -/
theorem fajr_angle_only_fajr_reported (p : Params α) (x : α) (t : TopAstroDay α) (w : Weather α) (r r' : PHours α)
    (hp : p.policy = .None) (hr : getHoursAdjExt p t w = .ok r)
    (hr' : getHoursAdjExt { p with angFajr := x } t w = .ok r') :
    r'.shur = r.shur ∧ r'.dhuhr = r.dhuhr ∧ r'.asr = r.asr ∧ r'.magh = r.magh ∧ r'.isha = r.isha := by
  have hg : Gen.intFlagRead = .mapOrFalse := by decide
  rw [none_policy_eq p t w hp] at hr
  rw [none_policy_eq _ t w (by simpa using hp)] at hr'
  have o := adjForInt_others _ _ _ hr
  have o' := adjForInt_others _ _ _ hr'
  have i := (adjForInt_out _ _ _ hg hr).2
  have i' := (adjForInt_out _ _ _ hg hr').2
  refine ⟨by rw [o'.1, o.1]; rfl, by rw [o'.2.1, o.2.1]; rfl, by rw [o'.2.2.1, o.2.2.1]; rfl,
    by rw [o'.2.2.2, o.2.2.2]; rfl, by rw [i', i]; rfl⟩

/-- **reported hours, policy None: the Isha angle changes only Isha** -/
theorem isha_angle_only_isha_reported (p : Params α) (x : α) (t : TopAstroDay α) (w : Weather α) (r r' : PHours α)
    (hp : p.policy = .None) (hr : getHoursAdjExt p t w = .ok r)
    (hr' : getHoursAdjExt { p with angIsha := x } t w = .ok r') :
    r'.fajr = r.fajr ∧ r'.shur = r.shur ∧ r'.dhuhr = r.dhuhr ∧ r'.asr = r.asr ∧ r'.magh = r.magh := by
  have hg : Gen.intFlagRead = .mapOrFalse := by decide
  rw [none_policy_eq p t w hp] at hr
  rw [none_policy_eq _ t w (by simpa using hp)] at hr'
  have o := adjForInt_others _ _ _ hr
  have o' := adjForInt_others _ _ _ hr'
  have f := (adjForInt_out _ _ _ hg hr).1
  have f' := (adjForInt_out _ _ _ hg hr').1
  refine ⟨by rw [f', f]; rfl, by rw [o'.1, o.1]; rfl, by rw [o'.2.1, o.2.1]; rfl, by rw [o'.2.2.1, o.2.2.1]; rfl,
    by rw [o'.2.2.2, o.2.2.2]; rfl⟩

/-- **reported hours, policy None: the Asr school changes only Asr** -/
theorem asr_school_only_asr_reported (p : Params α) (a : AsrRatio) (t : TopAstroDay α) (w : Weather α) (r r' : PHours α)
    (hp : p.policy = .None) (hr : getHoursAdjExt p t w = .ok r)
    (hr' : getHoursAdjExt { p with asr := a } t w = .ok r') :
    r'.fajr = r.fajr ∧ r'.shur = r.shur ∧ r'.dhuhr = r.dhuhr ∧ r'.magh = r.magh ∧ r'.isha = r.isha := by
  have hg : Gen.intFlagRead = .mapOrFalse := by decide
  rw [none_policy_eq p t w hp] at hr
  rw [none_policy_eq _ t w (by simpa using hp)] at hr'
  have o := adjForInt_others _ _ _ hr
  have o' := adjForInt_others _ _ _ hr'
  have fi := adjForInt_out _ _ _ hg hr
  have fi' := adjForInt_out _ _ _ hg hr'
  refine ⟨by rw [fi'.1, fi.1]; rfl, by rw [o'.1, o.1]; rfl, by rw [o'.2.1, o.2.1]; rfl,
    by rw [o'.2.2.2, o.2.2.2]; rfl, by rw [fi'.2, fi.2]; rfl⟩

/-- **weather changes only Shurooq and Maghrib** among the six computed hours -/
theorem weather_only_riseset (p : Params α) (t : TopAstroDay α) (w w' : Weather α) :
    let h := getHours p t w
    let h' := getHours p t w'
    h'.fajr = h.fajr ∧ h'.dhuhr = h.dhuhr ∧ h'.asr = h.asr ∧ h'.isha = h.isha :=
  ⟨rfl, rfl, rfl, rfl⟩

/-- and whether Shurooq/Maghrib exist does not depend on weather -/
theorem weather_keeps_validity (p : Params α) (t : TopAstroDay α) (w w' : Weather α) :
    (getHours p t w').shur.isSome = (getHours p t w).shur.isSome ∧
    (getHours p t w').magh.isSome = (getHours p t w).magh.isSome := by
  simp only [getHours, shurDhuhrMagh]
  cases shurMaghM0Adj t.coords.lat t.cur.dec <;> simp

/-- **absent weather equals the default weather** (1010 mbar, 14 °C) -/
theorem weather_none_is_default (p : Params α) (loc : Location α) (rd : Int) :
    prayerTimesDt p loc rd none = prayerTimesDt p loc rd (some defaultWeather) ∧
    (defaultWeather : Weather α) = ⟨1010.0, 14.0⟩ := ⟨rfl, rfl⟩

/-- over ℝ: an offset of k whole minutes moves the unrounded clock by exactly k minutes and
    leaves the seconds alone (so, by Thm C11 `hourToTime_spec`, the reported time shifts by k
    minutes modulo 24 h in every rounding mode) -/
theorem offset_shifts_minutes (x : ℝ) (k : ℤ) :
    C11.totMin (x + (k : ℝ) / 60) = C11.totMin x + k ∧ C11.secOf (x + (k : ℝ) / 60) = C11.secOf x := by
  have e1 : 60 * (x + (k : ℝ) / 60) = 60 * x + ((k : ℤ) : ℝ) := by ring
  have e2 : 3600 * (x + (k : ℝ) / 60) = 3600 * x + ((60 * k : ℤ) : ℝ) := by push_cast; ring
  simp only [C11.totMin, C11.secOf, e1, e2, Int.floor_add_intCast]
  exact ⟨trivial, by omega⟩

/-- the clock reading wraps every 1440 minutes -/
theorem clock_periodic (M S : ℤ) (j : ℤ) : C11.clock (M + 1440 * j) S = C11.clock M S := by
  simp only [C11.clock]
  have h1 : (M + 1440 * j) / 60 % 24 = M / 60 % 24 := by omega
  have h2 : (M + 1440 * j) % 60 = M % 60 := by omega
  rw [h1, h2]

theorem specTime_periodic (r : Round) (pr : Prayer) (M S j : ℤ) :
    C11.specTime r pr (M + 1440 * j) S = C11.specTime r pr M S := by
  have e : ∀ c : ℤ, (if c ≤ S then M + 1440 * j + 1 else M + 1440 * j) = (if c ≤ S then M + 1 else M) + 1440 * j := by
    intro c; split <;> ring
  cases r <;> simp only [C11.specTime, e, clock_periodic] <;> (try split) <;> simp [clock_periodic]

/-- **a minute offset of k whole minutes shifts exactly that prayer's reported time by exactly k
    minutes (modulo 24 h), in every rounding mode**: over ℝ, with the offset of prayer `pr` raised by
    k, the conversion of the same hour is the stated function of the unrounded minute count moved
    by k, seconds unchanged -/
theorem offset_moves_clock (p : Params ℝ) (pr : Prayer) (hour : ℝ) (k : ℤ) (q : Params ℝ)
    (hq : q.minutes pr = p.minutes pr + k) (hr : q.round = p.round)
    (hlo : -2400000 ≤ hour + p.minutes pr / 60) (hhi : hour + p.minutes pr / 60 < 3999999999)
    (hlo' : -2400000 ≤ hour + q.minutes pr / 60) (hhi' : hour + q.minutes pr / 60 < 3999999999) :
    ∃ M S : ℤ, hourToTime p pr hour = .ok (C11.specTime p.round pr M S) ∧
      hourToTime q pr hour = .ok (C11.specTime p.round pr (M + k) S) := by
  obtain ⟨n1, _, _, _, h1⟩ := C11.hourToTime_spec p pr hour hlo hhi
  obtain ⟨n2, _, _, _, h2⟩ := C11.hourToTime_spec q pr hour hlo' hhi'
  refine ⟨_, _, h1, ?_⟩
  rw [h2, hr]
  -- x_q = x_p + k/60 + 24 (n2 - n1)
  have e : hour + q.minutes pr / 60 + 24 * (n2 : ℝ) =
      (hour + p.minutes pr / 60 + 24 * (n1 : ℝ)) + ((k + 1440 * ((n2 : ℤ) - n1) : ℤ) : ℝ) / 60 := by
    rw [hq]; push_cast; ring
  rw [e]
  obtain ⟨a, b⟩ := offset_shifts_minutes (hour + p.minutes pr / 60 + 24 * (n1 : ℝ)) (k + 1440 * ((n2 : ℤ) - n1))
  rw [a, b]
  have : C11.totMin (hour + p.minutes pr / 60 + 24 * ↑n1) + (k + 1440 * ((n2 : ℤ) - ↑n1)) =
      (C11.totMin (hour + p.minutes pr / 60 + 24 * ↑n1) + k) + 1440 * ((n2 : ℤ) - n1) := by ring
  rw [this, specTime_periodic]

-- non-vacuity: a concrete offset map that changes only Asr's offset satisfies `other_offset_irrelevant` for Fajr
example (p : Params Float) : (fun pr => if pr = Prayer.Asr then 7.0 else p.minutes pr) Prayer.Fajr = p.minutes .Fajr := by
  simp

end IPT.C12
