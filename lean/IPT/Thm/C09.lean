import IPT.Lemmas.ExtLat
import IPT.Thm.C13
/-
  C09 — nearest-good-day fallback finds the closest date with valid twilight.
  The search and the writers are proved for EVERY scalar type and for an arbitrary
  `hoursAt : ℤ → Hours α` (conventional hours of the date `off` days away), so the statements
  hold in particular for the real computation the model plugs in (`envOf`).  The loop bound is
  re-read from ext_lat.rs (`Gen.goodDayBound`).  Existence of a good day within the year for
  |lat| ≤ 64 is an astronomical fact, decided by the falsifier, not a theorem.
-/
namespace IPT.C09
open IPT IPT.ExtLatLemmas
variable {α : Type} [Add α] [Sub α] [Mul α] [Div α] [Neg α] [OfScientific α] [Sc α]

/-- both twilights exist on that day -/
def Good (h : Hours α) : Prop := h.fajr.isSome = true ∧ h.isha.isSome = true

theorem goodHours_iff (h : Hours α) : goodHours h = some h ↔ Good h := by
  unfold goodHours Good
  constructor
  · intro hh; split at hh
    · rename_i hc; simpa [Bool.and_eq_true] using hc
    · simp at hh
  · intro ⟨a, b⟩; simp [a, b]

theorem goodHours_none_iff (h : Hours α) : goodHours h = none ↔ ¬ Good h := by
  unfold goodHours Good
  constructor
  · intro hh; split at hh
    · simp at hh
    · rename_i hc; simpa [Bool.and_eq_true] using hc
  · intro hn; simp only [Bool.and_eq_true]; rw [if_neg hn]

/-- the loop bound is the length of the year of the requested date (366 in leap years).
    False of the code as first found (the bound was the day of the year). -/
theorem search_bound_is_year_length : Gen.goodDayBound = .daysInYear := by decide

/-- **first hit is the closest date, earlier date on ties**: the search returns the hours of
    date-i or date+i for the smallest i ≤ bound at which either is good, preferring date-i -/
theorem search_first_hit_is_closest (hoursAt : Int → Hours α) (bound : Nat) (a : Hours α)
    (h : searchGood hoursAt bound = some a) :
    ∃ i : Nat, i ≤ bound ∧
      (∀ j : Nat, j < i → ¬ Good (hoursAt (-(j : Int))) ∧ ¬ Good (hoursAt (j : Int))) ∧
      ((Good (hoursAt (-(i : Int))) ∧ a = hoursAt (-(i : Int))) ∨
       (¬ Good (hoursAt (-(i : Int))) ∧ Good (hoursAt (i : Int)) ∧ a = hoursAt (i : Int))) := by
  unfold searchGood at h
  rw [List.findSome?_eq_some_iff] at h
  obtain ⟨l1, i, l2, hl, hi, hbefore⟩ := h
  have hlen : l1.length = i := by
    have := congrArg (fun l => l[l1.length]?) hl
    simp only [List.getElem?_append_right (Nat.le_refl _), Nat.sub_self, List.getElem?_cons_zero] at this
    obtain ⟨_, hget⟩ := List.getElem?_eq_some_iff.mp this
    simpa using hget
  have hi_le : i ≤ bound := by
    have : i ∈ List.range (bound + 1) := by rw [hl]; simp
    simp at this; omega
  refine ⟨i, hi_le, ?_, ?_⟩
  · intro j hj
    have hjmem : j ∈ l1 := by
      have h1 : l1 = List.range i := by
        have := congrArg (List.take i) hl
        rw [List.take_range, List.take_left' hlen] at this
        rw [← this]; congr 1; omega
      rw [h1]; simp; exact hj
    have := hbefore j hjmem
    split at this
    · simp at this
    · rename_i hn
      exact ⟨(goodHours_none_iff _).mp hn, (goodHours_none_iff _).mp this⟩
  · split at hi
    · rename_i x hx
      simp only [Option.some.injEq] at hi; subst hi
      obtain ⟨e, f1, f2⟩ := goodHours_some _ _ hx
      left; exact ⟨⟨f1, f2⟩, e⟩
    · rename_i hn
      obtain ⟨e, f1, f2⟩ := goodHours_some _ _ hi
      right; exact ⟨(goodHours_none_iff _).mp hn, ⟨f1, f2⟩, e⟩

/-- the search fails only if no date within `bound` days on either side is good -/
theorem search_none_iff (hoursAt : Int → Hours α) (bound : Nat) :
    searchGood hoursAt bound = none ↔
      ∀ i : Nat, i ≤ bound → ¬ Good (hoursAt (-(i : Int))) ∧ ¬ Good (hoursAt (i : Int)) := by
  unfold searchGood
  rw [List.findSome?_eq_none_iff]
  constructor
  · intro h i hi
    have := h i (by simp; omega)
    split at this
    · simp at this
    · rename_i hn
      exact ⟨(goodHours_none_iff _).mp hn, (goodHours_none_iff _).mp this⟩
  · intro h i hi
    simp at hi
    obtain ⟨h1, h2⟩ := h i (by omega)
    rw [(goodHours_none_iff _).mpr h1]
    exact (goodHours_none_iff _).mpr h2

/-- "all prayers" variant: all six times of the found date, flagged extreme -/
theorem allPrayers_reports_six (p : Params α) (h : PHours α) (env : Env α) (a : Hours α)
    (hp : p.policy = .NearestGoodDayAllPrayersAlways) (hs : searchGood env.hoursAt env.bound = some a) :
    adjNearGood p h env =
      { fajr := a.fajr.map PH.ext, shur := a.shur.map PH.ext, dhuhr := a.dhuhr.map PH.ext,
        asr := a.asr.map PH.ext, magh := a.magh.map PH.ext, isha := a.isha.map PH.ext } := by
  simp [adjNearGood, hs, hp, Policy.isGoodDayAll]

/-- default variant: exactly the missing twilights are taken from the found date, flagged extreme;
    the existing ones and the other four entries are untouched -/
theorem invalid_variant_only_invalid (p : Params α) (h : PHours α) (env : Env α) (a : Hours α)
    (hp : p.policy = .NearestGoodDayFajrIshaInvalid) (hs : searchGood env.hoursAt env.bound = some a) :
    (adjNearGood p h env).fajr = (if h.fajr.isNone then a.fajr.map PH.ext else h.fajr) ∧
    (adjNearGood p h env).isha = (if h.isha.isNone then a.isha.map PH.ext else h.isha) ∧
    SameOthers (adjNearGood p h env) h := by
  refine ⟨?_, ?_, adjNearGood_others p h env (by simp [hp, Policy.isGoodDayAll])⟩
  · simp only [adjNearGood, hs, hp, Policy.isGoodDayAll]
    cases hf : h.fajr <;> cases hi : h.isha <;> simp [hf, hi]
  · simp only [adjNearGood, hs, hp, Policy.isGoodDayAll]
    cases hf : h.fajr <;> cases hi : h.isha <;> simp [hf, hi]

/-- so under the default (only-if-invalid) policy a found day fills EACH MISSING twilight with the
    found day's value, flagged extreme; a twilight that exists conventionally is kept as it is
    (`invalid_variant_only_invalid`, and Thm C08).  This is the reading of "both are still
    reported" the checks commit to (DESIGN 14.3.17): when both are missing both are replaced, when
    one is missing that one is. -/
theorem found_day_fills_missing (p : Params α) (h : PHours α) (env : Env α) (a : Hours α)
    (hp : p.policy = .NearestGoodDayFajrIshaInvalid) (hs : searchGood env.hoursAt env.bound = some a) :
    (h.fajr = none → ∃ v, (adjNearGood p h env).fajr = some ⟨v, true⟩ ∧ a.fajr = some v) ∧
    (h.isha = none → ∃ v, (adjNearGood p h env).isha = some ⟨v, true⟩ ∧ a.isha = some v) ∧
    (∀ x, h.fajr = some x → (adjNearGood p h env).fajr = some x) ∧
    (∀ x, h.isha = some x → (adjNearGood p h env).isha = some x) := by
  obtain ⟨f1, f2, _⟩ := searchGood_some _ _ _ hs
  obtain ⟨v, hv⟩ := Option.isSome_iff_exists.mp f1
  obtain ⟨u, hu⟩ := Option.isSome_iff_exists.mp f2
  have hk := invalid_variant_only_invalid p h env a hp hs
  refine ⟨?_, ?_, ?_, ?_⟩
  · intro hf; refine ⟨v, ?_, hv⟩; rw [hk.1, hf]; simp [hv, PH.ext]
  · intro hi; refine ⟨u, ?_, hu⟩; rw [hk.2.1, hi]; simp [hu, PH.ext]
  · intro x hx; rw [hk.1, hx]; simp
  · intro x hx; rw [hk.2.1, hx]; simp

/-- the dates the search visits are the civil dates date-i / date+i (JulianDay::sub/add step the
    NaiveDate by whole days; that its f64 value is the Julian Day of that date is Thm/C13 `jd_sub_add`) -/
theorem stepping_is_civil (j : JD α) (i : Nat) : (j.sub i).rd = j.rd - i ∧ (j.add i).rd = j.rd + i :=
  ⟨rfl, rfl⟩

/-- …and over ℝ the Julian Day value it carries is the Julian Day of that civil date (Thm C13) - for
    every date from 1583 on; `hoursAt_is_that_date` below draws the conclusion for the environment -/
theorem stepping_lands_on_that_date (rd : Int) (gmt : ℝ) (i : ℕ) (h : C13.rd1583 ≤ rd - i) :
    ((JD.new rd gmt).sub i).value = (JD.new (rd - i) gmt).value ∧
    ((JD.new rd gmt).add i).value = (JD.new (rd + i) gmt).value :=
  ⟨(C13.jd_sub_is_jd_of_date rd gmt i h).1, (C13.jd_sub_is_jd_of_date rd gmt i h).2.2.1⟩

/-- **the day the search looks at IS the conventional computation of the date that many days away**:
    in the environment the real code builds (`envOf`), `hoursAt (∓i)` equals `getHours` on the
    ephemeris of the civil date rd ∓ i at the same place - over ℝ, every date from 1583 on -/
theorem hoursAt_is_that_date (p : Params ℝ) (c : Coords ℝ) (w : Weather ℝ) (rd : Int) (gmt : ℝ) (i : ℕ)
    (h : C13.rd1583 ≤ rd - i) :
    (envOf p (topFromJd (JD.new rd gmt) c) w).hoursAt (-(i : Int)) = getHours p (topFromJd (JD.new (rd - i) gmt) c) w ∧
    (envOf p (topFromJd (JD.new rd gmt) c) w).hoursAt (i : Int) = getHours p (topFromJd (JD.new (rd + i) gmt) c) w := by
  obtain ⟨a, _, b, _⟩ := C13.jd_sub_is_jd_of_date rd gmt i h
  have e1 : (JD.new rd gmt).sub i = JD.new (rd - i) gmt := by
    simp only [JD.new, JD.sub] at a ⊢; rw [a]
  have e2 : (JD.new rd gmt).add i = JD.new (rd + i) gmt := by
    simp only [JD.new, JD.add] at b ⊢; rw [b]
  constructor
  · simp only [envOf, topFromJd, topFromAd, astroDayNew]
    rcases Nat.eq_zero_or_pos i with hi | hi
    · subst hi; simp at e1 e2 ⊢; simp [e2]
    · have : (-(i:Int)) < 0 := by omega
      simp only [this, if_true, Int.natAbs_neg, Int.natAbs_natCast, e1]
  · simp only [envOf, topFromJd, topFromAd, astroDayNew]
    have : ¬ ((i:Int)) < 0 := by omega
    simp only [this, if_false, Int.natAbs_natCast, e2]

-- non-vacuity: a search space with a tie at distance 2 (both date-2 and date+2 good) returns
-- the earlier date (the one whose Shurooq slot is empty in this toy space)
example :
    (searchGood (α := Float) (fun off => if off = -2 then ⟨some 1.0, none, none, none, none, some 2.0⟩
      else if off = 2 then ⟨some 3.0, some 9.0, none, none, none, some 4.0⟩ else ⟨none, none, none, none, none, none⟩) 5).map
        (fun h => h.shur.isSome) = some false := by
  simp [searchGood, goodHours, List.range, List.range.loop, List.findSome?]

end IPT.C09
