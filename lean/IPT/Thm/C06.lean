import IPT.Lemmas.Trig
import IPT.Lemmas.ExtLat
import Mathlib.Analysis.SpecialFunctions.Trigonometric.Bounds
/-
  C06 — a time is reported Invalid exactly when the solar event does not occur.
  Over ℝ, on the model's declination of the date: each of the three guards (`within_abs_1`
  before `acos` for twilight, rise/set and Asr) holds iff some hour angle puts the Sun at the
  defining altitude, iff the defining altitude lies between the day's lowest and highest altitude
  -cos(φ+δ) ≤ sin(target) ≤ cos(φ-δ).  Plus, for every scalar type: policy None with no intervals
  reports exactly the validity pattern of the six computed hours.
-/
namespace IPT.C06
open IPT IPT.TrigLemmas IPT.ExtLatLemmas Real

/-- guard ⇔ reachability ⇔ target between the extreme altitudes of the day -/
theorem guard_iff (φ δ T : ℝ) (hk : 0 < Real.cos φ * Real.cos δ) :
    withinAbs1 ((T - Real.sin φ * Real.sin δ) / (Real.cos φ * Real.cos δ)) = true ↔
      ∃ H : ℝ, Real.sin φ * Real.sin δ + Real.cos φ * Real.cos δ * Real.cos H = T := by
  rw [withinAbs1_real]; exact reachable_iff _ _ _ hk.ne'

theorem guard_iff_between (φ δ T : ℝ) (hk : 0 < Real.cos φ * Real.cos δ) :
    withinAbs1 ((T - Real.sin φ * Real.sin δ) / (Real.cos φ * Real.cos δ)) = true ↔
      -Real.cos (φ + δ) ≤ T ∧ T ≤ Real.cos (φ - δ) := by
  rw [withinAbs1_real, le_div_iff₀ hk, div_le_iff₀ hk, Real.cos_add, Real.cos_sub]
  constructor <;> rintro ⟨a, b⟩ <;> constructor <;> linarith

/-- **Fajr/Isha are valid iff the Sun reaches the depression angle that day** -/
theorem twilight_valid_iff (angF angI lat dec dhuhr : ℝ)
    (hk : 0 < Real.cos (toRadians lat) * Real.cos (toRadians dec)) :
    ((fajrIsha angF angI lat dec dhuhr).1.isSome = true ↔
      ∃ H : ℝ, Real.sin (toRadians lat) * Real.sin (toRadians dec) +
        Real.cos (toRadians lat) * Real.cos (toRadians dec) * Real.cos H = Real.sin (toRadians (-angF))) ∧
    ((fajrIsha angF angI lat dec dhuhr).2.isSome = true ↔
      ∃ H : ℝ, Real.sin (toRadians lat) * Real.sin (toRadians dec) +
        Real.cos (toRadians lat) * Real.cos (toRadians dec) * Real.cos H = Real.sin (toRadians (-angI))) := by
  have e : ∀ a : ℝ, twilightCos lat dec a = (Real.sin (toRadians (-a)) - Real.sin (toRadians lat) * Real.sin (toRadians dec)) /
      (Real.cos (toRadians lat) * Real.cos (toRadians dec)) := fun a => by simp only [twilightCos, sc_sin, sc_cos]
  constructor
  · rw [← guard_iff _ _ _ hk, ← e]
    unfold fajrIsha; simp only
    split <;> simp_all
  · rw [← guard_iff _ _ _ hk, ← e]
    unfold fajrIsha; simp only
    split <;> simp_all

/-- …iff the depression angle lies between the day's extreme altitudes -/
theorem fajr_valid_iff_between (angF angI lat dec dhuhr : ℝ)
    (hk : 0 < Real.cos (toRadians lat) * Real.cos (toRadians dec)) :
    (fajrIsha angF angI lat dec dhuhr).1.isSome = true ↔
      -Real.cos (toRadians lat + toRadians dec) ≤ Real.sin (toRadians (-angF)) ∧
        Real.sin (toRadians (-angF)) ≤ Real.cos (toRadians lat - toRadians dec) := by
  rw [← guard_iff_between _ _ _ hk]
  have e : twilightCos lat dec angF = (Real.sin (toRadians (-angF)) - Real.sin (toRadians lat) * Real.sin (toRadians dec)) /
      (Real.cos (toRadians lat) * Real.cos (toRadians dec)) := by simp only [twilightCos, sc_sin, sc_cos]
  rw [← e]
  unfold fajrIsha; simp only
  split <;> simp_all

/-- **Shurooq/Maghrib are valid iff the Sun's centre reaches h₀ = −0.83337° that day**
    (no time in polar day or polar night, a time otherwise) -/
theorem riseset_valid_iff (lat dec : ℝ)
    (hk : 0 < Real.cos (toRadians lat) * Real.cos (toRadians dec)) :
    (shurMaghM0Adj lat dec).isSome = true ↔
      ∃ H : ℝ, Real.sin (toRadians lat) * Real.sin (toRadians dec) +
        Real.cos (toRadians lat) * Real.cos (toRadians dec) * Real.cos H =
          Real.sin (toRadians (Gen.CENTER_OF_SUN_ANGLE : ℝ)) := by
  rw [← guard_iff _ _ _ hk]
  unfold shurMaghM0Adj
  simp only [sc_sin, sc_cos]
  split <;> simp_all

/-- **Asr is valid iff the Sun reaches the shadow-rule altitude that day** -/
theorem asr_valid_iff (ratio : AsrRatio) (lat dec dhuhr : ℝ)
    (hk : 0 < Real.cos (toRadians lat) * Real.cos (toRadians dec)) :
    (getAsr ratio lat dec dhuhr).isSome = true ↔
      ∃ H : ℝ, Real.sin (toRadians lat) * Real.sin (toRadians dec) +
        Real.cos (toRadians lat) * Real.cos (toRadians dec) * Real.cos H =
          Real.sin (Real.arctan (1 / (asrRatio ratio + Real.tan |toRadians lat - toRadians dec|))) := by
  rw [← guard_iff _ _ _ hk]
  have e : asrCos ratio lat dec = (Real.sin (Real.arctan (1 / (asrRatio ratio + Real.tan |toRadians lat - toRadians dec|))) -
      Real.sin (toRadians lat) * Real.sin (toRadians dec)) / (Real.cos (toRadians lat) * Real.cos (toRadians dec)) := by
    simp only [asrCos, sc_sin, sc_cos, sc_tan, sc_atan, sc_abs, lit_one]
  rw [← e]
  unfold getAsr; simp only
  split <;> simp_all

/-- the boundary case recorded by the design: r = −1 (Sun grazing the altitude at midnight) counts
    as valid with hour angle 180° — inside the property's 0.05° exemption band -/
theorem edge_is_valid : withinAbs1 (-1 : ℝ) = true ∧ withinAbs1 (1 : ℝ) = true := by
  constructor <;> rw [withinAbs1_real] <;> norm_num

variable {α : Type} [Add α] [Sub α] [Mul α] [Div α] [Neg α] [OfScientific α] [Sc α]

/-- **with no extreme-latitude policy (and no intervals) an Err is propagated unchanged and
    nothing is fabricated**: the result is the six computed hours, unflagged — every scalar type -/
theorem none_policy_keeps_validity (p : Params α) (hours : Hours α) (env : Env α)
    (hp : p.policy = .None) (hF : nonZero p.intFajr = false) (hI : nonZero p.intIsha = false) :
    adjForExtLat p hours env = .ok hours.toPH := by
  simp [adjForExtLat, applyPolicy, canAdj, hp, Policy.isNone, adjForInt, Gen.intExcluded, intFajrStep,
    intIshaStep, hF, hI]

/-- **the theorems above are about the entries `getHours` reports**: its Fajr, Isha and Asr are the
    stand-alone functions applied to the configured Fajr/Isha angles and school, the place's
    latitude, the requested date's declination and that day's Dhuhr, and its Shurooq and Maghrib
    exist exactly when the rise/set hour angle does - a swapped argument at the call site would
    break this theorem -/
theorem getHours_wiring (p : Params α) (t : TopAstroDay α) (w : Weather α) :
    (getHours p t w).fajr = (fajrIsha p.angFajr p.angIsha t.coords.lat t.cur.dec (shurDhuhrMagh t w).2.1).1 ∧
    (getHours p t w).isha = (fajrIsha p.angFajr p.angIsha t.coords.lat t.cur.dec (shurDhuhrMagh t w).2.1).2 ∧
    (getHours p t w).asr = getAsr p.asr t.coords.lat t.cur.dec (shurDhuhrMagh t w).2.1 ∧
    (getHours p t w).dhuhr = some (shurDhuhrMagh t w).2.1 ∧
    (getHours p t w).shur.isSome = (shurMaghM0Adj t.coords.lat t.cur.dec).isSome ∧
    (getHours p t w).magh.isSome = (shurMaghM0Adj t.coords.lat t.cur.dec).isSome := by
  refine ⟨rfl, rfl, rfl, rfl, ?_, ?_⟩ <;> simp only [getHours, shurDhuhrMagh] <;>
    cases shurMaghM0Adj t.coords.lat t.cur.dec <;> rfl

-- non-vacuity: a genuine polar-night day (latitude 80°, declination −20°): cos φ cos δ > 0 and the
-- rise/set hour angle does not exist (the Sun never reaches h₀), so Shurooq and Maghrib are Invalid
example : 0 < Real.cos (toRadians (80:ℝ)) * Real.cos (toRadians (-20:ℝ)) ∧ shurMaghM0Adj (80:ℝ) (-20) = none := by
  have hp := Real.pi_pos
  have hk : 0 < Real.cos (toRadians (80:ℝ)) * Real.cos (toRadians (-20:ℝ)) := by
    apply mul_pos <;> apply Real.cos_pos_of_mem_Ioo <;> rw [toRadians_real] <;> constructor <;> nlinarith
  refine ⟨hk, ?_⟩
  have hb := (guard_iff_between (toRadians (80:ℝ)) (toRadians (-20:ℝ))
    (Real.sin (toRadians (Gen.CENTER_OF_SUN_ANGLE : ℝ))) hk)
  have hnot : ¬ (Real.sin (toRadians (Gen.CENTER_OF_SUN_ANGLE : ℝ)) ≤ Real.cos (toRadians (80:ℝ) - toRadians (-20:ℝ))) := by
    rw [not_le, c_CENTER_OF_SUN_ANGLE]
    have e1 : toRadians (80:ℝ) - toRadians (-20:ℝ) = Real.pi / 2 + 10 * (Real.pi / 180) := by
      rw [toRadians_real, toRadians_real]; ring
    have e2 : toRadians (-(83337 / 100000) : ℝ) = -(83337 / 100000 * (Real.pi / 180)) := by rw [toRadians_real]; ring
    rw [e1, e2, Real.cos_add, Real.cos_pi_div_two, Real.sin_pi_div_two, Real.sin_neg]
    simp only [zero_mul, one_mul, zero_sub, neg_lt_neg_iff]
    apply Real.sin_lt_sin_of_lt_of_le_pi_div_two <;> nlinarith
  unfold shurMaghM0Adj
  simp only [sc_sin, sc_cos]
  rw [if_neg]
  intro hw
  exact hnot (hb.mp hw).2

end IPT.C06
