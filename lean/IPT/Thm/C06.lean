import IPT.Lemmas.Trig
import IPT.Lemmas.ExtLat
import Mathlib.Analysis.SpecialFunctions.Trigonometric.Bounds
/-
  C06 — a time is reported Invalid exactly when the solar event does not occur.
  Over ℝ, on the model's declination of the date: each of the three guards (`within_abs_1`
  before `acos` for twilight, rise/set and Asr) holds iff some hour angle puts the Sun at the
  defining altitude, iff the defining altitude lies between the day's lowest and highest altitude
  -cos(φ+δ) ≤ sin(target) ≤ cos(φ-δ).  Plus, for every scalar type: policy None with no intervals
  reports exactly the validity pattern of the six computed hours.
-/
namespace IPT.C06
open IPT IPT.TrigLemmas IPT.ExtLatLemmas Real

/-- guard ⇔ reachability ⇔ target between the extreme altitudes of the day -/
theorem guard_iff (φ δ T : ℝ) (hk : 0 < Real.cos φ * Real.cos δ) :
    withinAbs1 ((T - Real.sin φ * Real.sin δ) / (Real.cos φ * Real.cos δ)) = true ↔
      ∃ H : ℝ, Real.sin φ * Real.sin δ + Real.cos φ * Real.cos δ * Real.cos H = T := by
  rw [withinAbs1_real]; exact reachable_iff _ _ _ hk.ne'

theorem guard_iff_between (φ δ T : ℝ) (hk : 0 < Real.cos φ * Real.cos δ) :
    withinAbs1 ((T - Real.sin φ * Real.sin δ) / (Real.cos φ * Real.cos δ)) = true ↔
      -Real.cos (φ + δ) ≤ T ∧ T ≤ Real.cos (φ - δ) := by
  rw [withinAbs1_real, le_div_iff₀ hk, div_le_iff₀ hk, Real.cos_add, Real.cos_sub]
  constructor <;> rintro ⟨a, b⟩ <;> constructor <;> linarith

/-- **Fajr/Isha are valid iff the Sun reaches the depression angle that day** -/
theorem twilight_valid_iff (angF angI lat dec dhuhr : ℝ)
    (hk : 0 < Real.cos (toRadians lat) * Real.cos (toRadians dec)) :
    ((fajrIsha angF angI lat dec dhuhr).1.isSome = true ↔
      ∃ H : ℝ, Real.sin (toRadians lat) * Real.sin (toRadians dec) +
        Real.cos (toRadians lat) * Real.cos (toRadians dec) * Real.cos H = Real.sin (toRadians (-angF))) ∧
    ((fajrIsha angF angI lat dec dhuhr).2.isSome = true ↔
      ∃ H : ℝ, Real.sin (toRadians lat) * Real.sin (toRadians dec) +
        Real.cos (toRadians lat) * Real.cos (toRadians dec) * Real.cos H = Real.sin (toRadians (-angI))) := by
  have e : ∀ a : ℝ, twilightCos lat dec a = (Real.sin (toRadians (-a)) - Real.sin (toRadians lat) * Real.sin (toRadians dec)) /
      (Real.cos (toRadians lat) * Real.cos (toRadians dec)) := fun a => by simp only [twilightCos, sc_sin, sc_cos]
  constructor
  · rw [← guard_iff _ _ _ hk, ← e]
    unfold fajrIsha; simp only
    split <;> simp_all
  · rw [← guard_iff _ _ _ hk, ← e]
    unfold fajrIsha; simp only
    split <;> simp_all

/-- …iff the depression angle lies between the day's extreme altitudes -/
theorem fajr_valid_iff_between (angF angI lat dec dhuhr : ℝ)
    (hk : 0 < Real.cos (toRadians lat) * Real.cos (toRadians dec)) :
    (fajrIsha angF angI lat dec dhuhr).1.isSome = true ↔
      -Real.cos (toRadians lat + toRadians dec) ≤ Real.sin (toRadians (-angF)) ∧
        Real.sin (toRadians (-angF)) ≤ Real.cos (toRadians lat - toRadians dec) := by
  rw [← guard_iff_between _ _ _ hk]
  have e : twilightCos lat dec angF = (Real.sin (toRadians (-angF)) - Real.sin (toRadians lat) * Real.sin (toRadians dec)) /
      (Real.cos (toRadians lat) * Real.cos (toRadians dec)) := by simp only [twilightCos, sc_sin, sc_cos]
  rw [← e]
  unfold fajrIsha; simp only
  split <;> simp_all

/-- **Shurooq/Maghrib are valid iff the Sun's centre reaches h₀ = −0.83337° that day**
    (no time in polar day or polar night, a time otherwise) -/
theorem riseset_valid_iff (lat dec : ℝ)
    (hk : 0 < Real.cos (toRadians lat) * Real.cos (toRadians dec)) :
    (shurMaghM0Adj lat dec).isSome = true ↔
      ∃ H : ℝ, Real.sin (toRadians lat) * Real.sin (toRadians dec) +
        Real.cos (toRadians lat) * Real.cos (toRadians dec) * Real.cos H =
          Real.sin (toRadians (Gen.CENTER_OF_SUN_ANGLE : ℝ)) := by
  rw [← guard_iff _ _ _ hk]
  unfold shurMaghM0Adj
  simp only [sc_sin, sc_cos]
  split <;> simp_all

/-- **Asr is valid iff the Sun reaches the shadow-rule altitude that day** -/
theorem asr_valid_iff (ratio : AsrRatio) (lat dec dhuhr : ℝ)
    (hk : 0 < Real.cos (toRadians lat) * Real.cos (toRadians dec)) :
    (getAsr ratio lat dec dhuhr).isSome = true ↔
      ∃ H : ℝ, Real.sin (toRadians lat) * Real.sin (toRadians dec) +
        Real.cos (toRadians lat) * Real.cos (toRadians dec) * Real.cos H =
          Real.sin (Real.arctan (1 / (asrRatio ratio + Real.tan |toRadians lat - toRadians dec|))) := by
  rw [← guard_iff _ _ _ hk]
  have e : asrCos ratio lat dec = (Real.sin (Real.arctan (1 / (asrRatio ratio + Real.tan |toRadians lat - toRadians dec|))) -
      Real.sin (toRadians lat) * Real.sin (toRadians dec)) / (Real.cos (toRadians lat) * Real.cos (toRadians dec)) := by
    simp only [asrCos, sc_sin, sc_cos, sc_tan, sc_atan, sc_abs, lit_one]
  rw [← e]
  unfold getAsr; simp only
  split <;> simp_all

/-- the boundary case recorded by the design: r = −1 (Sun grazing the altitude at midnight) counts
    as valid with hour angle 180° — inside the property's 0.05° exemption band -/
theorem edge_is_valid : withinAbs1 (-1 : ℝ) = true ∧ withinAbs1 (1 : ℝ) = true := by
  constructor <;> rw [withinAbs1_real] <;> norm_num

variable {α : Type} [Add α] [Sub α] [Mul α] [Div α] [Neg α] [OfScientific α] [Sc α]

/-- **with no extreme-latitude policy (and no intervals) an Err is propagated unchanged and
    nothing is fabricated**: the result is the six computed hours, unflagged — every scalar type -/
theorem none_policy_keeps_validity (p : Params α) (hours : Hours α) (env : Env α)
    (hp : p.policy = .None) (hF : nonZero p.intFajr = false) (hI : nonZero p.intIsha = false) :
    adjForExtLat p hours env = .ok hours.toPH := by
  simp [adjForExtLat, applyPolicy, canAdj, hp, Policy.isNone, adjForInt, Gen.intExcluded, intFajrStep,
    intIshaStep, hF, hI]

-- non-vacuity: a polar-night day (φ = 80°, δ = −20°: cos φ cos δ > 0, Sun never reaches h₀) has no Shurooq
example : ∃ φ δ : ℝ, 0 < Real.cos φ * Real.cos δ ∧ ¬ (-Real.cos (φ + δ) ≤ (1 : ℝ) / 2 ∧ (1 : ℝ) / 2 ≤ Real.cos (φ - δ)) := by
  refine ⟨0, Real.pi / 2 - 1 / 4, ?_, ?_⟩
  · rw [Real.cos_zero, one_mul, Real.cos_pi_div_two_sub]
    exact Real.sin_pos_of_pos_of_lt_pi (by norm_num) (by linarith [Real.two_le_pi])
  · intro ⟨_, h⟩
    rw [zero_sub, Real.cos_neg, Real.cos_pi_div_two_sub] at h
    have : Real.sin (1 / 4) < 1 / 4 := Real.sin_lt (by norm_num)
    linarith

end IPT.C06
