import IPT.Model.Cli
/-
  C19 — the CLI reports what the library computes; saved parameters reproduce it.
  (Weakest property for this technique: mostly glue.)  Theorems about the wiring model, for every
  scalar type; everything else is translation validation: the real binary's -o bytes against the
  model's rendering of the model's results (unit `cli`), and the falsifier (decode with the real
  serde decoder and compare with the library API; -p then -i byte-identical; listing shape; exit
  status just outside each range).
-/
namespace IPT.C19
open IPT
variable {α : Type} [Add α] [Sub α] [Mul α] [Div α] [Neg α] [OfScientific α] [Sc α]

/-- the parameters are exactly Params::new(method); the location is the four accepted values -/
theorem cli_wiring (a : CliArgs α) (today : Int) :
    (readParamsCli a today).params = paramsNew a.method ∧
    (readParamsCli a today).location = ⟨⟨a.lat, a.lon, a.elev⟩, a.gmt⟩ := ⟨rfl, rfl⟩

/-- date defaults: no start = today; no end = the start -/
theorem cli_date_defaults (a : CliArgs α) (today : Int) :
    (a.startRd = none → (readParamsCli a today).startRd = today) ∧
    (∀ s, a.startRd = some s → (readParamsCli a today).startRd = s) ∧
    (a.endRd = none → (readParamsCli a today).endRd = (readParamsCli a today).startRd) ∧
    (∀ e, a.endRd = some e → (readParamsCli a today).endRd = e) := by
  refine ⟨fun h => by simp [readParamsCli, h], fun s h => by simp [readParamsCli, h],
    fun h => by simp [readParamsCli, h], fun e h => by simp [readParamsCli, h]⟩

/-- a location exists iff each of the four values passes its type's range check (C18), and then holds
    exactly those values.  (This is the wiring model's part of "out-of-range values are rejected
    before anything is computed": `cliCompute` needs a `Location`.  Exit codes, clap's parsing and the
    order of side effects are not modelled; the falsifier runs the real binary just outside each range
    and checks a non-zero exit and that no output file was written.) -/
theorem cli_accepts_iff_in_range (lat lon elev gmt : α) :
    (∃ l, cliLocation lat lon elev gmt = some l) ↔
      ((tryFrom .Latitude lat).isSome ∧ (tryFrom .Longitude lon).isSome ∧
       (tryFrom .Elevation elev).isSome ∧ (tryFrom .Gmt gmt).isSome) := by
  unfold cliLocation
  cases tryFrom .Latitude lat <;> cases tryFrom .Longitude lon <;> cases tryFrom .Elevation elev <;>
    cases tryFrom .Gmt gmt <;> simp

theorem cli_location_values (lat lon elev gmt : α) (l : Location α) (h : cliLocation lat lon elev gmt = some l) :
    l = ⟨⟨lat, lon, elev⟩, gmt⟩ := by
  unfold cliLocation at h
  unfold tryFrom at h
  repeat' split at h
  all_goals simp_all

/-- **the tool computes one entry per date of the range, each the single-date result** -/
theorem cliCompute_dates (c : ParamsConfig α) (l : List (Int × DayTimes)) (h : cliCompute c = .ok l) :
    l.map Prod.fst = rangeDates c.startRd c.endRd ∧
    ∀ x ∈ l, prayerTimesDt c.params c.location x.1 none = .ok x.2 := by
  unfold cliCompute at h
  generalize rangeDates c.startRd c.endRd = ds at h
  induction ds generalizing l with
  | nil => simp at h; subst h; simp
  | cons rd rest ih =>
    simp only [List.foldr_cons] at h
    split at h
    · rename_i d rest' hd hr
      simp only [Except.ok.injEq] at h; subst h
      obtain ⟨i1, i2⟩ := ih rest' hr
      refine ⟨by simp [i1], ?_⟩
      intro x hx
      simp only [List.mem_cons] at hx
      rcases hx with rfl | hx
      · exact hd
      · exact i2 x hx
    · simp at h
    · simp at h

-- non-vacuity: a range of three days
example : rangeDates 738521 738523 = [738521, 738522, 738523] := by decide
example : isoDate 738521 = "2023-01-01" := by decide

end IPT.C19
