import IPT.Model.Cli
import IPT.Model.CliDecode
import IPT.Model.Rng
import IPT.Thm.C14
import IPT.Lemmas.Json
/-
  C19 — the CLI reports what the library computes; saved parameters reproduce it.
  (Weakest property for this technique: mostly glue.)  Theorems about the wiring model, for every
  scalar type; everything else is translation validation: the real binary's -o bytes against the
  model's rendering of the model's results (unit `cli`), and the falsifier (decode with the real
  serde decoder and compare with the library API; -p then -i byte-identical; listing shape; exit
  status just outside each range).
-/
namespace IPT.C19
open IPT
variable {α : Type} [Add α] [Sub α] [Mul α] [Div α] [Neg α] [OfScientific α] [Sc α]

/-- the parameters are exactly Params::new(method); the location is the four accepted values -/
theorem cli_wiring (a : CliArgs α) (today : Int) :
    (readParamsCli a today).params = paramsNew a.method ∧
    (readParamsCli a today).location = ⟨⟨a.lat, a.lon, a.elev⟩, a.gmt⟩ := ⟨rfl, rfl⟩

/-- date defaults: no start = today; no end = the start -/
theorem cli_date_defaults (a : CliArgs α) (today : Int) :
    (a.startRd = none → (readParamsCli a today).startRd = today) ∧
    (∀ s, a.startRd = some s → (readParamsCli a today).startRd = s) ∧
    (a.endRd = none → (readParamsCli a today).endRd = (readParamsCli a today).startRd) ∧
    (∀ e, a.endRd = some e → (readParamsCli a today).endRd = e) := by
  refine ⟨fun h => by simp [readParamsCli, h], fun s h => by simp [readParamsCli, h],
    fun h => by simp [readParamsCli, h], fun e h => by simp [readParamsCli, h]⟩

/-- a location exists iff each of the four values passes its type's range check (C18), and then holds
    exactly those values.  (This is the wiring model's part of "out-of-range values are rejected
    before anything is computed": `cliCompute` needs a `Location`.  Exit codes, clap's parsing and the
    order of side effects are not modelled; the falsifier runs the real binary just outside each range
    and checks a non-zero exit and that no output file was written.) -/
theorem cli_accepts_iff_in_range (lat lon elev gmt : α) :
    (∃ l, cliLocation lat lon elev gmt = some l) ↔
      ((tryFrom .Latitude lat).isSome ∧ (tryFrom .Longitude lon).isSome ∧
       (tryFrom .Elevation elev).isSome ∧ (tryFrom .Gmt gmt).isSome) := by
  unfold cliLocation
  cases tryFrom .Latitude lat <;> cases tryFrom .Longitude lon <;> cases tryFrom .Elevation elev <;>
    cases tryFrom .Gmt gmt <;> simp

theorem cli_location_values (lat lon elev gmt : α) (l : Location α) (h : cliLocation lat lon elev gmt = some l) :
    l = ⟨⟨lat, lon, elev⟩, gmt⟩ := by
  unfold cliLocation at h
  unfold tryFrom at h
  repeat' split at h
  all_goals simp_all

/-- **the tool computes one entry per date of the range, each the single-date result** -/
theorem cliCompute_dates (c : ParamsConfig α) (l : List (Int × DayTimes)) (h : cliCompute c = .ok l) :
    l.map Prod.fst = rangeDates c.startRd c.endRd ∧
    ∀ x ∈ l, prayerTimesDt c.params c.location x.1 none = .ok x.2 := by
  unfold cliCompute at h
  generalize rangeDates c.startRd c.endRd = ds at h
  induction ds generalizing l with
  | nil => simp at h; subst h; simp
  | cons rd rest ih =>
    simp only [List.foldr_cons] at h
    split at h
    · rename_i d rest' hd hr
      simp only [Except.ok.injEq] at h; subst h
      obtain ⟨i1, i2⟩ := ih rest' hr
      refine ⟨by simp [i1], ?_⟩
      intro x hx
      simp only [List.mem_cons] at hx
      rcases hx with rfl | hx
      · exact hd
      · exact i2 x hx
    · simp at h
    · simp at h


/-! ### The written JSON decodes to exactly the computed result (model codec) -/
section codec
open IPT.JsonLemmas

/-- **decode ∘ render = id**: the document `renderRange` writes for a result decodes, under the
    strict decoder of Model/CliDecode, to exactly that result - for every list of entries whose
    dates have years 0..9999 (the years chrono writes without a sign) and whose clock fields have
    two digits.  With `cliCompute_wf` (every computed result has such fields) and the `cli`
    correspondence (the real file's bytes are `renderRange` of the model's result) this is the
    model's statement of "the JSON written by the tool decodes to exactly the library's result". -/
theorem decode_render (days : List (Int × DayTimes)) (h : ∀ e ∈ days, EntryWf e) :
    decodeRange (renderRange days) = some days := by
  unfold decodeRange
  rw [renderRange_toList]
  cases days with
  | nil => rfl
  | cons e rest =>
    have hne : e :: rest ≠ [] := by simp
    -- the text after `{` starts with the quote of the first date, so it is not `}`
    have hfirst : ∃ q, [','].intercalate ((e :: rest).map entryL) ++ ['}'] = '"' :: q := by
      cases rest with
      | nil => exact ⟨_, rfl⟩
      | cons e2 r2 => exact ⟨_, rfl⟩
    obtain ⟨q, hq⟩ := hfirst
    have hdec := decodeEntries_render (e :: rest) hne h ['}'] (by intro q; simp)
      ([','].intercalate ((e :: rest).map entryL) ++ ['}']).length
      (by have := entries_length (e :: rest); simp only [List.length_append] at *; omega)
    unfold decodeRangeL
    rw [hq] at hdec ⊢
    have hs : stripPrefix? ['{'] ('{' :: '"' :: q) = some ('"' :: q) := strip_append ['{'] _
    rw [hs]
    dsimp only
    rw [if_neg (by simp), hdec]
    simp

/-- hence the document determines the result: two well-formed results with the same rendering are equal -/
theorem render_injective (a b : List (Int × DayTimes)) (ha : ∀ e ∈ a, EntryWf e) (hb : ∀ e ∈ b, EntryWf e)
    (h : renderRange a = renderRange b) : a = b := by
  have h1 := decode_render a ha
  rw [h, decode_render b hb] at h1
  exact (Option.some.inj h1).symm


/-- **the canonical form carries the same value**: `renderRangeCanon` (compact, keys in byte order -
    what re-serialising the decoded value gives) decodes, under its own strict decoder, to exactly
    the result it was rendered from.  This is what makes the check's rule for documents whose bytes
    differ sound: equal canonical forms ⇒ equal results (`canon_injective`). -/
theorem decodeCanon_render (days : List (Int × DayTimes)) (h : ∀ e ∈ days, EntryWf e) :
    decodeRangeCanon (renderRangeCanon days) = some days := by
  unfold decodeRangeCanon
  rw [renderRangeCanon_toList]
  cases days with
  | nil => rfl
  | cons e rest =>
    have hne : e :: rest ≠ [] := by simp
    have hfirst : ∃ q, [','].intercalate ((e :: rest).map entryCanonL) ++ ['}'] = '"' :: q := by
      cases rest with
      | nil => exact ⟨_, rfl⟩
      | cons e2 r2 => exact ⟨_, rfl⟩
    obtain ⟨q, hq⟩ := hfirst
    have hdec := decodeEntriesCanon_render (e :: rest) hne h ['}'] (by intro q; simp)
      ([','].intercalate ((e :: rest).map entryCanonL) ++ ['}']).length
      (by have := entriesCanon_length (e :: rest); simp only [List.length_append] at *; omega)
    unfold decodeRangeCanonL
    rw [hq] at hdec ⊢
    have hs : stripPrefix? ['{'] ('{' :: '"' :: q) = some ('"' :: q) := strip_append ['{'] _
    rw [hs]
    dsimp only
    rw [if_neg (by simp), hdec]
    simp

theorem canon_injective (a b : List (Int × DayTimes)) (ha : ∀ e ∈ a, EntryWf e) (hb : ∀ e ∈ b, EntryWf e)
    (h : renderRangeCanon a = renderRangeCanon b) : a = b := by
  have h1 := decodeCanon_render a ha
  rw [h, decodeCanon_render b hb] at h1
  exact (Option.some.inj h1).symm

/-- the two renderings of one result describe the same value: each decodes to it -/
theorem canon_same_value (days : List (Int × DayTimes)) (h : ∀ e ∈ days, EntryWf e) :
    decodeRange (renderRange days) = decodeRangeCanon (renderRangeCanon days) := by
  rw [decode_render days h, decodeCanon_render days h]

/-- every clock time the model produces is a valid time of day (`hmsOpt` is chrono's
    `NaiveTime::from_hms_opt(..).unwrap()`: anything else is a panic, not a result) -/
theorem hourToTime_wf (p : Params α) (pr : Prayer) (x : α) (t : HMS) (h : hourToTime p pr x = .ok t) :
    t.h < 24 ∧ t.m < 60 ∧ t.s < 60 := by
  unfold hourToTime at h
  split at h
  · simp at h
  · exact hmsOpt_wf _ _ _ t h

theorem optTime_wf (p : Params α) (pr : Prayer) (o : Option (PH α)) (x : Option PT) (h : optTime p pr o = .ok x) :
    PTwf x := by
  cases o with
  | none => simp only [optTime, Except.ok.injEq] at h; subst h; trivial
  | some ph =>
    simp only [optTime, toPrayerTime] at h
    split at h
    · simp at h
    · rename_i t ht
      split at ht
      · simp at ht
      · rename_i tm htm
        simp only [Except.ok.injEq] at ht h
        subst ht; subst h
        have := hourToTime_wf p pr ph.value tm htm
        exact ⟨by simp only; omega, by simp only; omega, by simp only; omega⟩

theorem imsaakOf_wf (p : Params α) (run : Params α → Except Panic (PHours α)) (x : Option PT)
    (h : imsaakOf p run = .ok x) : PTwf x := by
  unfold imsaakOf at h
  split at h
  · simp at h
  · simp only at h
    split at h
    · simp at h
    · split at h
      · split at h
        · simp at h
        · exact flagExtreme_wf _ x (fun y hy => optTime_wf _ _ _ y hy) h
      · exact optTime_wf _ _ _ x h

/-- **every result of `prayerTimesDt` has seven well-formed entries** (each absent, or a time with
    h < 24, m < 60, s < 60 - two digits per field), for every scalar type -/
theorem prayerTimesDt_wf (p : Params α) (loc : Location α) (rd : Int) (w : Option (Weather α)) (d : DayTimes)
    (h : prayerTimesDt p loc rd w = .ok d) : DayWf d := by
  unfold prayerTimesDt at h
  simp only at h
  split at h
  · simp at h
  · rename_i hh _
    unfold assemble at h
    split at h <;> try (simp at h)
    rename_i f s dh a m i im hf hs hd ha hm hi him
    subst h
    exact ⟨imsaakOf_wf _ _ im him, optTime_wf _ _ _ f hf, optTime_wf _ _ _ s hs, optTime_wf _ _ _ dh hd,
      optTime_wf _ _ _ a ha, optTime_wf _ _ _ m hm, optTime_wf _ _ _ i hi⟩

/-- so every entry the tool computes for a range inside years 0..9999 is well formed ... -/
theorem cliCompute_wf (c : ParamsConfig α) (l : List (Int × DayTimes)) (h : cliCompute c = .ok l)
    (hy : ∀ rd ∈ rangeDates c.startRd c.endRd, DateWf rd) : ∀ e ∈ l, EntryWf e := by
  obtain ⟨h1, h2⟩ := cliCompute_dates c l h
  intro e he
  refine ⟨hy e.1 ?_, prayerTimesDt_wf _ _ _ _ _ (h2 e he)⟩
  rw [← h1]
  exact List.mem_map_of_mem he

/-- **C19, first clause, on the model**: for every accepted configuration whose dates lie in years
    0..9999, the document the tool writes (`renderRange` of what it computes) decodes to exactly
    the per-date library results for the dates of the range, in order. -/
theorem cli_json_decodes_to_library_result (c : ParamsConfig α) (l : List (Int × DayTimes))
    (h : cliCompute c = .ok l) (hy : ∀ rd ∈ rangeDates c.startRd c.endRd, DateWf rd) :
    decodeRange (renderRange l) = some l ∧
    l.map Prod.fst = rangeDates c.startRd c.endRd ∧
    ∀ x ∈ l, prayerTimesDt c.params c.location x.1 none = .ok x.2 :=
  ⟨decode_render l (cliCompute_wf c l h hy), cliCompute_dates c l h⟩

/-- every day number of the common era that chrono can hold with a four-digit year
    (0001-01-01 .. 9999-12-31, i.e. 1 .. 3 652 059) is rendered without a sign: `DateWf` -/
theorem dateWf_of_ce (rd : Int) (h1 : 1 ≤ rd) (h2 : rd ≤ 3652059) : DateWf rd := by
  obtain ⟨_, _, _, _, _, hy⟩ := CivilLemmas.fromRD_valid rd
  obtain ⟨lo, hi⟩ := CivilLemmas.yearOfRD_spec rd
  have e1 : toRD ⟨1, 1, 1⟩ = 1 := by decide
  have e2 : toRD ⟨10000, 1, 1⟩ = 3652060 := by decide
  unfold DateWf
  rw [hy]
  constructor
  · apply Int.not_lt.mp
    intro hneg
    have : yearOfRD rd + 1 ≤ 1 := by omega
    have := CivilLemmas.yearStart_mono (yearOfRD rd + 1) 1 this
    omega
  · apply Int.not_lt.mp
    intro hneg
    have : 10000 ≤ yearOfRD rd := by omega
    have := CivilLemmas.yearStart_mono 10000 (yearOfRD rd) this
    omega

/-- **C19, first clause, over the property's dates**: for every accepted configuration whose range
    lies within 0001-01-01 .. 9999-12-31 (the quantifier's 1600..2399 included) the written document
    decodes to exactly the per-date library results of the range, in order - no hypothesis left
    about the rendering -/
theorem cli_json_decodes_ce (c : ParamsConfig α) (l : List (Int × DayTimes))
    (h : cliCompute c = .ok l) (hs : 1 ≤ c.startRd) (he : c.endRd ≤ 3652059) :
    decodeRange (renderRange l) = some l ∧
    l.map Prod.fst = rangeDates c.startRd c.endRd ∧
    ∀ x ∈ l, prayerTimesDt c.params c.location x.1 none = .ok x.2 := by
  apply cli_json_decodes_to_library_result c l h
  intro rd hrd
  have := (C14.rangeDates_mem c.startRd c.endRd rd).mp hrd
  exact dateWf_of_ce rd (by omega) (by omega)

end codec

-- non-vacuity: the hypotheses of `decode_render` are met by a two-entry result (one absent entry,
-- two extreme ones), and the empty document decodes to the empty result
example :
    let d : DayTimes := ⟨none, some ⟨⟨3, 7, 9⟩, true⟩, some ⟨⟨5, 40, 0⟩, false⟩, some ⟨⟨12, 0, 59⟩, false⟩,
      some ⟨⟨15, 1, 2⟩, false⟩, some ⟨⟨18, 20, 30⟩, false⟩, some ⟨⟨23, 59, 59⟩, true⟩⟩
    ∀ e ∈ [(738521, d), (738522, d)], IPT.JsonLemmas.EntryWf e := by
  intro d e he
  simp only [List.mem_cons, List.not_mem_nil, or_false] at he
  rcases he with rfl | rfl <;>
    exact ⟨⟨by decide, by decide⟩, by simp [IPT.JsonLemmas.DayWf, IPT.JsonLemmas.PTwf, d]⟩
example : decodeRange (renderRange []) = some [] := by decide

/-- **what the tool computes is the library's range result**: when it succeeds, the list is
    `rngModel` (the model of `prayer_times_dt_rng`, Model/Rng.lean - the object unit `rng` compares
    with the real function and Thm C14 `rng_is_per_day`, Thm C15 `parallel_eq_sequential` are
    about) with every entry an `Ok` -/
theorem cliCompute_eq_rng (c : ParamsConfig α) (l : List (Int × DayTimes)) (h : cliCompute c = .ok l) :
    l.map (fun x => (x.1, (Except.ok x.2 : Except Panic DayTimes))) =
      rngModel c.params c.location c.startRd c.endRd := by
  unfold cliCompute at h
  unfold rngModel
  generalize rangeDates c.startRd c.endRd = ds at h
  induction ds generalizing l with
  | nil => simp at h; subst h; simp
  | cons rd rest ih =>
    simp only [List.foldr_cons] at h
    split at h
    · rename_i d rest' hd hr
      simp only [Except.ok.injEq] at h; subst h
      simp only [List.map_cons, hd, ih rest' hr]
    · simp at h
    · simp at h

-- non-vacuity: a range of three days
example : rangeDates 738521 738523 = [738521, 738522, 738523] := by decide
example : isoDate 738521 = "2023-01-01" := by decide

end IPT.C19
