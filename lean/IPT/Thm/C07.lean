import IPT.Model.Times
import IPT.Thm.C11
import IPT.Lemmas.Angle
import IPT.Lemmas.Trig
/-
  C07 — computing prayer times never panics or hangs on valid input (decision-logic part).
  Proved for EVERY scalar type α, with no law assumed about its arithmetic: these statements
  hold of the Float instance itself, i.e. of the program that is bit-compared with the Rust code.
  The ℝ-part (NaiveTime fields always in range; the negative-hour loop terminates) is in
  Thm/C11.lean (`hourToTime_ok`), which this file's `prayerTimesDt_ok_of_times` composes with.
-/
namespace IPT.C07
open IPT
variable {α : Type} [Add α] [Sub α] [Mul α] [Div α] [Neg α] [OfScientific α] [Sc α]

/-- the source reads the extreme flag of a possibly invalid Fajr/Isha without unwrapping.
    False of the code as first found (`.unwrap().extreme`): the policy layer then panics for an
    interval-based method whose Fajr/Isha is invalid. -/
theorem flag_read_total : Gen.intFlagRead = .mapOrFalse := by decide

theorem readFlag_some (x : Option (PH α)) : ∃ b, readFlag x = some b := by
  unfold readFlag
  rw [flag_read_total]
  cases x <;> simp

theorem intFajrStep_ok (p : Params α) (h : PHours α) : ∃ r, intFajrStep p h = .ok r := by
  unfold intFajrStep
  obtain ⟨b, hb⟩ := readFlag_some h.fajr
  split
  · simp only [hb]; exact ⟨_, rfl⟩
  · exact ⟨_, rfl⟩

theorem intIshaStep_ok (p : Params α) (h : PHours α) : ∃ r, intIshaStep p h = .ok r := by
  unfold intIshaStep
  obtain ⟨b, hb⟩ := readFlag_some h.isha
  split
  · simp only [hb]; exact ⟨_, rfl⟩
  · exact ⟨_, rfl⟩

/-- the interval pass never panics -/
theorem adjForInt_ok (p : Params α) (h : PHours α) : ∃ r, adjForInt p h = .ok r := by
  unfold adjForInt
  split
  · exact ⟨_, rfl⟩
  · obtain ⟨r1, hr1⟩ := intFajrStep_ok p h
    simp only [hr1]
    exact intIshaStep_ok p r1

/-- nearest-latitude is the only writer with an `unwrap` (on Dhuhr); Dhuhr is always present -/
theorem adjNearLat_ok (p : Params α) (h : PHours α) (adj : Hours α) (hd : h.dhuhr.isSome) :
    ∃ r, adjNearLat p h adj = .ok r := by
  obtain ⟨d, hd'⟩ := Option.isSome_iff_exists.mp hd
  unfold adjNearLat
  cases adj.fajr <;> cases adj.isha <;> simp only [] <;> (repeat' split) <;>
    first
      | exact ⟨_, rfl⟩
      | (rename_i heq; revert heq; (repeat' split) <;> simp_all)

/-- **the policy layer never panics**: for all 15 policies, all parameter values, every
    validity pattern of the other five hours and every environment -/
theorem adjForExtLat_ok (p : Params α) (hours : Hours α) (env : Env α) (hd : hours.dhuhr.isSome) :
    ∃ r, adjForExtLat p hours env = .ok r := by
  unfold adjForExtLat
  have hA : ∃ r, applyPolicy p hours.toPH env = .ok r := by
    unfold applyPolicy
    split
    · split
      · exact ⟨_, rfl⟩
      · apply adjNearLat_ok
        cases h : hours.dhuhr <;> simp_all [Hours.toPH]
      · exact ⟨_, rfl⟩
      · exact ⟨_, rfl⟩
      · exact ⟨_, rfl⟩
      · exact ⟨_, rfl⟩
      · exact ⟨_, rfl⟩
    · exact ⟨_, rfl⟩
  obtain ⟨r, hr⟩ := hA
  rw [hr]
  exact adjForInt_ok p r

/-- conventional Dhuhr is always reported -/
theorem getHours_dhuhr (p : Params α) (t : TopAstroDay α) (w : Weather α) :
    (getHours p t w).dhuhr.isSome := by
  simp [getHours]

theorem getHoursAdjExt_ok (p : Params α) (t : TopAstroDay α) (w : Weather α) :
    ∃ r, getHoursAdjExt p t w = .ok r :=
  adjForExtLat_ok p _ _ (getHours_dhuhr p t w)

/-- the hour entries that are present in a set of adjusted hours -/
def presentHours (h : PHours α) : List (PH α) := [h.fajr, h.shur, h.dhuhr, h.asr, h.magh, h.isha].filterMap id

/-- A result always has exactly the seven entries (it is a record of seven), and the whole
    computation can only fail inside `hourToTime` (NaiveTime construction / the wrap loop): if the
    clock conversion succeeds for every hour that is actually present in the three runs the
    function makes (the caller's parameters, and the two Imsaak parameter sets), `prayerTimesDt`
    succeeds.  (An earlier version asked for the conversion of EVERY scalar to succeed; that
    hypothesis is false over the reals - a value of -10^7 hours exhausts the wrap loop - so the
    theorem was vacuous.  `C11.hourToTime_ok` discharges the present hypothesis for hours bounded
    below, which is what `dhuhr_bounds`/`twilight_bounds` provide for the conventional hours.) -/
theorem prayerTimesDt_ok_of_times (p : Params α) (loc : Location α) (rd : Int) (w : Option (Weather α))
    (hconv : ∀ (q : Params α) (h : PHours α), (q = p ∨ q = imsaakParams1 p ∨ q = imsaakParams2 p) →
      getHoursAdjExt q (topFromJd (JD.new rd loc.gmt) loc.coords) (w.getD defaultWeather) = .ok h →
      ∀ (pr : Prayer) (ph : PH α), ph ∈ presentHours h → ∃ t, hourToTime q pr ph.value = .ok t) :
    ∃ d, prayerTimesDt p loc rd w = .ok d := by
  unfold prayerTimesDt
  simp only
  obtain ⟨h, hh⟩ := getHoursAdjExt_ok p (topFromJd (JD.new rd loc.gmt) loc.coords) (w.getD defaultWeather)
  rw [hh]
  -- a slot converts when its value, if present, does
  have hopt : ∀ (q : Params α) (pr : Prayer) (o : Option (PH α)),
      (∀ ph, o = some ph → ∃ t, hourToTime q pr ph.value = .ok t) → ∃ r, optTime q pr o = .ok r := by
    intro q pr o ho
    cases o with
    | none => exact ⟨_, rfl⟩
    | some ph =>
      obtain ⟨t, ht⟩ := ho ph rfl
      simp [optTime, toPrayerTime, ht]
  have slot : ∀ (q : Params α) (g : PHours α), (q = p ∨ q = imsaakParams1 p ∨ q = imsaakParams2 p) →
      getHoursAdjExt q (topFromJd (JD.new rd loc.gmt) loc.coords) (w.getD defaultWeather) = .ok g →
      ∀ (pr : Prayer) (o : Option (PH α)), o ∈ [g.fajr, g.shur, g.dhuhr, g.asr, g.magh, g.isha] →
      ∃ r, optTime q pr o = .ok r := by
    intro q g hq hg pr o ho
    apply hopt
    intro ph hph
    apply hconv q g hq hg pr ph
    simp only [presentHours, List.mem_filterMap, id]
    exact ⟨o, ho, hph⟩
  have him : ∃ r, getImsaak p (topFromJd (JD.new rd loc.gmt) loc.coords) (w.getD defaultWeather) = .ok r := by
    unfold getImsaak imsaakOf
    obtain ⟨h1, hh1⟩ := getHoursAdjExt_ok (imsaakParams1 p) (topFromJd (JD.new rd loc.gmt) loc.coords) (w.getD defaultWeather)
    obtain ⟨h2, hh2⟩ := getHoursAdjExt_ok (imsaakParams2 p) (topFromJd (JD.new rd loc.gmt) loc.coords) (w.getD defaultWeather)
    obtain ⟨h0, hh0⟩ := getHoursAdjExt_ok p (topFromJd (JD.new rd loc.gmt) loc.coords) (w.getD defaultWeather)
    simp only [hh1, hh2, hh0]
    have hflag : ∀ r : Except Panic (Option PT), (∃ x, r = .ok x) → ∃ x, flagExtreme r = .ok x := by
      rintro r ⟨x, rfl⟩
      cases x <;> exact ⟨_, rfl⟩
    have c1 := slot (imsaakParams1 p) h1 (Or.inr (Or.inl rfl)) hh1 .Fajr h1.fajr (by simp)
    have c2 := slot (imsaakParams2 p) h2 (Or.inr (Or.inr rfl)) hh2 .Fajr h2.fajr (by simp)
    cases fajrExtreme h1 <;> cases fajrExtreme h0 <;> simp <;>
      first | exact c1 | exact hflag _ c2
  obtain ⟨im, him⟩ := him
  obtain ⟨f, hf⟩ := slot p h (Or.inl rfl) hh .Fajr h.fajr (by simp)
  obtain ⟨s, hs⟩ := slot p h (Or.inl rfl) hh .Shurooq h.shur (by simp)
  obtain ⟨d, hdd⟩ := slot p h (Or.inl rfl) hh .Dhuhr h.dhuhr (by simp)
  obtain ⟨a, ha⟩ := slot p h (Or.inl rfl) hh .Asr h.asr (by simp)
  obtain ⟨m, hm⟩ := slot p h (Or.inl rfl) hh .Maghrib h.magh (by simp)
  obtain ⟨i, hi⟩ := slot p h (Or.inl rfl) hh .Isha h.isha (by simp)
  simp [assemble, hf, hs, hdd, ha, hm, hi, him]

/-- **the seven reported entries are exactly the clock conversions of the six adjusted hours and of
    Imsaak** - nothing else enters a result (this is the link between the theorems about computed
    hours, C01-C06, and the times the API reports; the conversion itself is Thm C11) -/
theorem prayerTimesDt_entries (p : Params α) (loc : Location α) (rd : Int) (w : Option (Weather α)) (d : DayTimes)
    (h : prayerTimesDt p loc rd w = .ok d) :
    ∃ hh, getHoursAdjExt p (topFromJd (JD.new rd loc.gmt) loc.coords) (w.getD defaultWeather) = .ok hh ∧
      optTime p .Fajr hh.fajr = .ok d.fajr ∧ optTime p .Shurooq hh.shur = .ok d.shur ∧
      optTime p .Dhuhr hh.dhuhr = .ok d.dhuhr ∧ optTime p .Asr hh.asr = .ok d.asr ∧
      optTime p .Maghrib hh.magh = .ok d.magh ∧ optTime p .Isha hh.isha = .ok d.isha ∧
      getImsaak p (topFromJd (JD.new rd loc.gmt) loc.coords) (w.getD defaultWeather) = .ok d.imsaak := by
  unfold prayerTimesDt at h
  simp only at h
  split at h
  · simp at h
  · rename_i hh hhh
    refine ⟨hh, hhh, ?_⟩
    unfold assemble at h
    split at h
    · rename_i f s dd a m i im e1 e2 e3 e4 e5 e6 e7
      simp only [Except.ok.injEq] at h
      subst h
      exact ⟨e1, e2, e3, e4, e5, e6, e7⟩
    all_goals simp at h

section real
open IPT.AngleLemmas IPT.TrigLemmas

/-- get_hour_angle is in (−180°, 180°] -/
theorem C01_hourAngle_range (sid ra lon : ℝ) (d : ℝ × ℝ) (m : ℝ) :
    -180 < hourAngle sid ra lon d m ∧ hourAngle sid ra lon d m ≤ 180 := by
  unfold hourAngle
  obtain ⟨a, b, _⟩ := capAngleBetween180_spec
    (capAngle360 (sid + Gen.SIDEREAL_RATE * m) + lon - (ra + m * (d.1 + d.2 * m) / 2.0))
  exact ⟨a, b⟩

/-- over ℝ the conventional Dhuhr lies in [−12 h, 36 h) -/
theorem dhuhr_bounds (t : TopAstroDay ℝ) (w : Weather ℝ) :
    -12 ≤ (shurDhuhrMagh t w).2.1 ∧ (shurDhuhrMagh t w).2.1 < 36 := by
  simp only [shurDhuhrMagh, c_TWO_PI_DEG, c_HRS_PER_DAY]
  obtain ⟨m0, m1, _⟩ := capAngle1_spec ((t.cur.ra - t.coords.lon - t.cur.sid) / 360)
  set m := capAngle1 ((t.cur.ra - t.coords.lon - t.cur.sid) / 360)
  have hH := C01_hourAngle_range t.cur.sid t.cur.ra t.coords.lon (raInterpDeltas t.prev.ra t.cur.ra t.next.ra) m
  constructor <;> nlinarith [hH.1, hH.2]

/-- …and Fajr and Isha within 180·c ≈ 12 h of it (Asr: `asr_bounds` below) -/
theorem twilight_bounds (angF angI lat dec dhuhr x : ℝ)
    (h : (fajrIsha angF angI lat dec dhuhr).1 = some x ∨ (fajrIsha angF angI lat dec dhuhr).2 = some x) :
    dhuhr - 13 ≤ x ∧ x ≤ dhuhr + 13 := by
  have hc : (0 : ℝ) < Gen.DEGREES_TO_10_BASE ∧ (Gen.DEGREES_TO_10_BASE : ℝ) < 7 / 100 := by
    rw [c_DEGREES_TO_10_BASE]; constructor <;> norm_num
  have hdeg : ∀ r : ℝ, 0 ≤ toDegrees (Real.arccos r) ∧ toDegrees (Real.arccos r) ≤ 180 := by
    intro r
    refine ⟨toDegrees_nonneg (Real.arccos_nonneg r), ?_⟩
    rw [toDegrees_real]
    have := Real.arccos_le_pi r
    have hp := Real.pi_pos
    rw [mul_div_assoc', div_le_iff₀ hp]; nlinarith
  unfold fajrIsha at h
  simp only [sc_acos] at h
  rcases h with h | h <;> (split at h <;> [skip; simp at h]) <;> simp only [Option.some.injEq] at h <;>
    rw [← h] <;> constructor <;> nlinarith [hdeg (twilightCos lat dec angF), hdeg (twilightCos lat dec angI), hc.1, hc.2]

/-- Asr within 180·c ≈ 12 h after Dhuhr -/
theorem asr_bounds (ratio : AsrRatio) (lat dec dhuhr x : ℝ) (h : getAsr ratio lat dec dhuhr = some x) :
    dhuhr - 13 ≤ x ∧ x ≤ dhuhr + 13 := by
  have hc : (0 : ℝ) < Gen.DEGREES_TO_10_BASE ∧ (Gen.DEGREES_TO_10_BASE : ℝ) < 7 / 100 := by
    rw [c_DEGREES_TO_10_BASE]; constructor <;> norm_num
  have hdeg : ∀ r : ℝ, 0 ≤ toDegrees (Real.arccos r) ∧ toDegrees (Real.arccos r) ≤ 180 := by
    intro r
    refine ⟨toDegrees_nonneg (Real.arccos_nonneg r), ?_⟩
    rw [toDegrees_real]
    have := Real.arccos_le_pi r
    have hp := Real.pi_pos
    rw [mul_div_assoc', div_le_iff₀ hp]; nlinarith
  unfold getAsr at h
  simp only [sc_acos] at h
  split at h <;> [skip; simp at h]
  simp only [Option.some.injEq] at h
  rw [← h]; constructor <;> nlinarith [hdeg (asrCos ratio lat dec), hc.1, hc.2]

/-- **so over ℝ the conversions of the conventional Dhuhr, Fajr, Isha and Asr to a clock time always
    succeed** (h < 24, m < 60, s < 60, wrap loop within fuel) for minute offsets within ±1500.
    Scope: the hours of `getHours` (policy None, no intervals).  Shurooq and Maghrib carry a Newton
    correction that no theorem here bounds, and the hours written by the replacing policies are
    not bounded here either (their conversion succeeds whenever the hour is ≥ −2.4·10⁶, Thm C11
    `hourToTime_ok`). -/
theorem angle_hours_convert (p : Params ℝ) (t : TopAstroDay ℝ) (w : Weather ℝ) (pr : Prayer) (x : ℝ)
    (hoff : |p.minutes pr| ≤ 1500)
    (hx : (getHours p t w).dhuhr = some x ∨ (getHours p t w).fajr = some x ∨ (getHours p t w).isha = some x ∨
      (getHours p t w).asr = some x) :
    ∃ tm, hourToTime p pr x = .ok tm := by
  have hd := dhuhr_bounds t w
  have hb : -25 ≤ x ∧ x ≤ 49 := by
    simp only [getHours] at hx
    rcases hx with h | h | h | h
    · simp only [Option.some.injEq] at h; rw [← h]; constructor <;> linarith [hd.1, hd.2]
    · have := twilight_bounds _ _ _ _ _ x (Or.inl h); constructor <;> linarith [hd.1, hd.2, this.1, this.2]
    · have := twilight_bounds _ _ _ _ _ x (Or.inr h); constructor <;> linarith [hd.1, hd.2, this.1, this.2]
    · have := asr_bounds _ _ _ _ x h; constructor <;> linarith [hd.1, hd.2, this.1, this.2]
  rw [abs_le] at hoff
  apply C11.hourToTime_ok <;> linarith [hb.1, hb.2, hoff.1, hoff.2]

end real

-- non-vacuity: the hypothesis of `adjForExtLat_ok` is met by the shape of the original defect's
-- witness (interval-based Isha, Fajr/Isha invalid), and `getHours` always meets it
example : (⟨none, none, some (12.0 : Float), none, none, none⟩ : Hours Float).dhuhr.isSome = true := rfl

end IPT.C07
