import IPT.Model.Block
import IPT.Thm.C14
/-
  C15 — parallel range computation equals the sequential one under every schedule.
  Proved for the protocol model (IPT/Model/Block.lean), for EVERY schedule, every number of
  workers and every partition list: the multiset of partial results is conserved; when the
  collector's loop has ended everything has been merged exactly once; from every reachable state
  that has not ended some action is enabled (no deadlock, no lost wake-up: the loop can only end
  after the original sender was dropped and every worker has sent); every schedule has at most
  3k+2 steps.  With Thm C14 (the partition is an exact cover) the merged map is the sequential map.
  The skeleton of the real function (sender cloned per worker inside the loop, original dropped
  after the loop and before join, collector appends every message) is re-read from mod.rs.
  A worker that panics inside its computation (action `die`) is part of the model.
  NOT proved: std::sync::mpsc and thread::scope themselves (modelled by their documented contract),
  a failure of `spawn` itself (OS refuses a thread) and a panic inside the collector's `append`;
  real scheduling is exercised by the falsifier with forced worker counts and seeded perturbation.
-/
namespace IPT.C15
open IPT
variable {P : Type}

/-- build guard: the skeleton the translator reads off `prayer_times_dt_rng_block` is the one the
    transition system `bStep` was written for (clone per worker inside the loop, drop after the loop
    and before the join, unconditional append).  `bStep` is not parameterised by the shape: the
    theorems below are about the protocol so described, and this guard is what ties the source to it. -/
theorem source_skeleton : Gen.protocol = ⟨true, true, true, true, true, true⟩ := by decide

/-- everything that exists in a state, as one list -/
def allParts (s : BState P) : List P := s.toSpawn ++ s.running ++ s.queue ++ s.merged

theorem count_eraseIdx [BEq P] [LawfulBEq P] (x : P) : ∀ (l : List P) (i : Nat) (p : P), l[i]? = some p →
    (l.eraseIdx i).count x + (if p == x then 1 else 0) = l.count x := by
  intro l
  induction l with
  | nil => intro i p h; simp at h
  | cons a l ih =>
    intro i p h
    cases i with
    | zero =>
      simp only [List.getElem?_cons_zero, Option.some.injEq] at h
      subst h
      simp only [List.eraseIdx_cons_zero, List.count_cons]
    | succ j =>
      simp only [List.getElem?_cons_succ] at h
      have := ih j p h
      simp only [List.eraseIdx_cons_succ, List.count_cons]
      omega

/-- the `panicked` flag is set by `die` only and never cleared -/
theorem step_panicked (s s' : BState P) (a : BAct) (h : bStep s a = some s') :
    (s.panicked = true → s'.panicked = true) ∧
    (s'.panicked = false → s.panicked = false ∧ ∀ i, a ≠ .die i) := by
  cases a with
  | spawn =>
    simp only [bStep] at h
    split at h
    · split at h <;> simp at h
      subst h; simp
    · simp at h
  | send i =>
    simp only [bStep] at h
    split at h
    · split at h <;> simp at h
      subst h; simp
    · simp at h
  | die i =>
    simp only [bStep] at h
    split at h
    · split at h <;> simp at h
      subst h; simp
    · simp at h
  | dropTx =>
    simp only [bStep] at h
    split at h <;> simp at h
    subst h; simp
  | recv =>
    simp only [bStep] at h
    split at h
    · split at h <;> simp at h
      subst h; simp
    · simp at h
  | close =>
    simp only [bStep] at h
    split at h <;> simp at h
    subst h; simp

/-- **conservation**: a step that is not a worker's panic only moves a partial result from one place
    to the next — every partial result occurs in the state as often as before; a panic loses one -/
theorem step_count [BEq P] [LawfulBEq P] (s s' : BState P) (a : BAct) (h : bStep s a = some s')
    (hnd : ∀ i, a ≠ .die i) (x : P) :
    (allParts s').count x = (allParts s).count x := by
  cases a with
  | spawn =>
    simp only [bStep] at h
    split at h
    · rename_i p rest hp
      split at h <;> simp at h
      subst h
      simp only [allParts, hp, List.count_append, List.count_cons, List.count_nil]; omega
    · simp at h
  | send i =>
    simp only [bStep] at h
    split at h
    · rename_i p hp
      split at h <;> simp at h
      subst h
      have := count_eraseIdx x s.running i p hp
      simp only [allParts, List.count_append, List.count_cons, List.count_nil]
      omega
    · simp at h
  | die i => exact absurd rfl (hnd i)
  | dropTx =>
    simp only [bStep] at h
    split at h <;> simp at h
    subst h; rfl
  | recv =>
    simp only [bStep] at h
    split at h
    · rename_i p q hq
      split at h <;> simp at h
      subst h
      simp only [allParts, hq, List.count_append, List.count_cons, List.count_nil]; omega
    · simp at h
  | close =>
    simp only [bStep] at h
    split at h <;> simp at h
    subst h; rfl

theorem run_panicked (as : List BAct) : ∀ (s s' : BState P), bRun s as = some s' → s'.panicked = false → s.panicked = false := by
  induction as with
  | nil => intro s s' h hp; simp [bRun] at h; subst h; exact hp
  | cons a as ih =>
    intro s s' h hp
    simp only [bRun] at h
    split at h
    · rename_i s1 h1
      exact ((step_panicked s s1 a h1).2 (ih s1 s' h hp)).1
    · simp at h

theorem run_count [BEq P] [LawfulBEq P] (as : List BAct) (x : P) :
    ∀ (s s' : BState P), bRun s as = some s' → s'.panicked = false → (allParts s').count x = (allParts s).count x := by
  induction as with
  | nil => intro s s' h _; simp [bRun] at h; subst h; rfl
  | cons a as ih =>
    intro s s' h hp
    simp only [bRun] at h
    split at h
    · rename_i s1 h1
      have hp1 : s1.panicked = false := run_panicked as s1 s' h hp
      exact (ih s1 s' h hp).trans (step_count s s1 a h1 ((step_panicked s s1 a h1).2 hp1).2 x)
    · simp at h

/-- the state invariant that makes `close` safe: once the loop has ended nothing is left anywhere -/
def Inv (s : BState P) : Prop :=
  (s.done = true → s.toSpawn = [] ∧ s.running = [] ∧ s.queue = [] ∧ s.txAlive = false) ∧
  (s.txAlive = false → s.toSpawn = [])

theorem inv_init (parts : List P) : Inv (bInit parts) := by simp [Inv, bInit]

theorem inv_step (s s' : BState P) (a : BAct) (hi : Inv s) (h : bStep s a = some s') : Inv s' := by
  obtain ⟨i1, i2⟩ := hi
  cases a with
  | spawn =>
    simp only [bStep] at h
    split at h
    · rename_i p rest hp
      split at h <;> simp at h
      rename_i ht
      subst h
      constructor
      · intro hd; have := (i1 hd).2.2.2; simp [ht] at this
      · intro hf; simp [ht] at hf
    · simp at h
  | send i =>
    simp only [bStep] at h
    split at h
    · split at h <;> simp at h
      rename_i hd
      subst h
      exact ⟨fun hd' => by simp_all, i2⟩
    · simp at h
  | die i =>
    simp only [bStep] at h
    split at h
    · split at h <;> simp at h
      rename_i hd
      subst h
      exact ⟨fun hd' => by simp_all, i2⟩
    · simp at h
  | dropTx =>
    simp only [bStep] at h
    split at h <;> simp at h
    rename_i hc
    subst h
    simp only [Bool.and_eq_true, List.isEmpty_iff] at hc
    exact ⟨fun hd => by have := i1 hd; simp_all, fun _ => hc.1⟩
  | recv =>
    simp only [bStep] at h
    split at h
    · split at h <;> simp at h
      rename_i hd
      subst h
      exact ⟨fun hd' => by simp_all, i2⟩
    · simp at h
  | close =>
    simp only [bStep] at h
    split at h <;> simp at h
    rename_i hc
    subst h
    simp only [Bool.and_eq_true, List.isEmpty_iff, Bool.not_eq_true'] at hc
    obtain ⟨⟨⟨⟨hq, hr⟩, ht⟩, hx⟩, _⟩ := hc
    exact ⟨fun _ => ⟨ht, hr, hq, hx⟩, i2⟩

theorem inv_run (as : List BAct) : ∀ (s s' : BState P), Inv s → bRun s as = some s' → Inv s' := by
  induction as with
  | nil => intro s s' hi h; simp [bRun] at h; subst h; exact hi
  | cons a as ih =>
    intro s s' hi h
    simp only [bRun] at h
    split at h
    · rename_i s1 h1; exact ih s1 s' (inv_step s s1 a hi h1) h
    · simp at h

/-- **under every schedule, when the collector's loop has ended the merged results are exactly
    the workers' results — nothing lost, nothing duplicated** -/
theorem done_eq_seq [BEq P] [LawfulBEq P] (parts : List P) (as : List BAct) (s : BState P)
    (h : bRun (bInit parts) as = some s) (hd : s.done = true) (hnp : s.panicked = false) :
    ∀ x, s.merged.count x = parts.count x := by
  intro x
  have hp := run_count as x _ _ h hnp
  have hi := (inv_run as _ _ (inv_init parts) h).1 hd
  simpa [allParts, hi.1, hi.2.1, hi.2.2.1, bInit] using hp

/-- hence the collected map has exactly the entries of the workers' maps: appending the partial
    results in any arrival order gives the same collection of (date, result) entries as appending
    them in partition order — with disjoint sub-ranges (Thm C14) that is the sequential map -/
theorem merged_entries_eq {E : Type} [BEq E] [LawfulBEq E] (parts : List (List E)) (as : List BAct) (s : BState (List E))
    (h : bRun (bInit parts) as = some s) (hd : s.done = true) (hnp : s.panicked = false) :
    ∀ x : E, s.merged.flatten.count x = parts.flatten.count x := by
  have hc := done_eq_seq parts as s h hd hnp
  have hp : s.merged.Perm parts := List.perm_iff_count.mpr hc
  intro x
  exact (List.Perm.flatten hp).count_eq x

/-- **no deadlock / no lost wake-up**: from every reachable state in which the loop has not ended,
    some thread can move -/
theorem no_deadlock (parts : List P) (as : List BAct) (s : BState P)
    (h : bRun (bInit parts) as = some s) (hd : s.done = false) : ∃ a s', bStep s a = some s' := by
  have hi := inv_run as _ _ (inv_init parts) h
  cases hts : s.toSpawn with
  | cons p rest =>
    have : s.txAlive = true := by
      cases ht : s.txAlive
      · have := hi.2 ht; simp [hts] at this
      · rfl
    exact ⟨.spawn, by simp [bStep, hts, this]⟩
  | nil =>
    cases hq : s.queue with
    | cons p q => exact ⟨.recv, by simp [bStep, hq, hd]⟩
    | nil =>
      cases hr : s.running with
      | cons p rest => exact ⟨.send 0, by simp [bStep, hr, hd]⟩
      | nil =>
        cases ht : s.txAlive
        · exact ⟨.close, by simp [bStep, hq, hr, hts, ht, hd]⟩
        · exact ⟨.dropTx, by simp [bStep, hts, ht]⟩

/-- **a worker's panic is never swallowed**: from the step in which a worker dies the state is
    flagged, whatever happens afterwards - the collector still ends (`no_deadlock`,
    `schedule_bound` do not depend on the flag), and the caller sees the panic instead of a
    partial map -/
theorem panic_is_flagged (as : List BAct) (s s1 s' : BState P) (i : Nat)
    (h1 : bStep s (.die i) = some s1) (h : bRun s1 as = some s') : s'.panicked = true := by
  have hs1 : s1.panicked = true := by
    simp only [bStep] at h1
    split at h1
    · split at h1 <;> simp at h1
      subst h1; rfl
    · simp at h1
  cases hp : s'.panicked with
  | true => rfl
  | false => have := run_panicked as s1 s' h hp; rw [hs1] at this; simp at this

/-- progress measure: strictly decreases with every step -/
def measure (s : BState P) : Nat :=
  3 * s.toSpawn.length + 2 * s.running.length + s.queue.length + (if s.txAlive then 1 else 0) + (if s.done then 0 else 1)

theorem step_decreases (s s' : BState P) (a : BAct) (h : bStep s a = some s') : measure s' < measure s := by
  cases a with
  | spawn =>
    simp only [bStep] at h
    split at h
    · rename_i p rest hp
      split at h <;> simp at h
      subst h; simp [measure, hp]; omega
    · simp at h
  | send i =>
    simp only [bStep] at h
    split at h
    · rename_i p hp
      split at h <;> simp at h
      subst h
      have hi : i < s.running.length := by
        rcases List.getElem?_eq_some_iff.mp hp with ⟨hlt, _⟩; exact hlt
      simp [measure, List.length_eraseIdx, hi]; omega
    · simp at h
  | die i =>
    simp only [bStep] at h
    split at h
    · rename_i p hp
      split at h <;> simp at h
      subst h
      have hi : i < s.running.length := by
        rcases List.getElem?_eq_some_iff.mp hp with ⟨hlt, _⟩; exact hlt
      simp [measure, List.length_eraseIdx, hi]; omega
    · simp at h
  | dropTx =>
    simp only [bStep] at h
    split at h <;> simp at h
    rename_i hc
    subst h
    simp only [Bool.and_eq_true] at hc
    simp [measure, hc.2]
  | recv =>
    simp only [bStep] at h
    split at h
    · rename_i p q hq
      split at h <;> simp at h
      subst h; simp [measure, hq]
    · simp at h
  | close =>
    simp only [bStep] at h
    split at h <;> simp at h
    rename_i hc
    subst h
    simp only [Bool.and_eq_true, Bool.not_eq_true'] at hc
    simp [measure, hc.2]

/-- **termination**: every schedule from the initial state with k partitions has at most 3k+2 steps -/
theorem run_length_le (as : List BAct) : ∀ (s s' : BState P), bRun s as = some s' → as.length + measure s' ≤ measure s := by
  induction as with
  | nil => intro s s' h; simp [bRun] at h; subst h; simp
  | cons a as ih =>
    intro s s' h
    simp only [bRun] at h
    split at h
    · rename_i s1 h1
      have := ih s1 s' h
      have := step_decreases s s1 a h1
      simp; omega
    · simp at h

theorem schedule_bound (parts : List P) (as : List BAct) (s : BState P) (h : bRun (bInit parts) as = some s) :
    as.length ≤ 3 * parts.length + 2 := by
  have := run_length_le as _ _ h
  simp [measure, bInit] at this; omega

/-- (definition unfolding) the sequential path is taken iff one core or fewer than the threshold of
    days per core; both paths return the same map, so nothing below depends on it -/
theorem uses_sequential_iff (days avail minDays : Nat) :
    usesSequential days avail minDays = true ↔ avail = 1 ∨ days / avail < minDays := by
  simp [usesSequential]

/-- the partial results are computed for the sub-ranges of `partition`, whose concatenation is
    exactly the range (Thm C14 `partition_cover`): together with `done_eq_seq` the collected map has
    the same entries as the sequential one -/
theorem partition_is_exact_cover (s e : Int) (k : Nat) (h : s ≤ e) : C14.CoversFrom e s (partition s e k) :=
  C14.partition_cover s e k h


/-! ### end to end: the map the parallel function returns is the map the sequential one returns -/

section EndToEnd
variable {α : Type} [Add α] [Sub α] [Mul α] [Div α] [Neg α] [OfScientific α] [Sc α]

/-- what one worker computes: the sequential range function on its block
    (`prayer_times_dt_rng(params, location, block)` inside the spawned closure) -/
def workerResult (p : Params α) (loc : Location α) (blk : Int × Int) : List (Int × Except Panic DayTimes) :=
  C14.rngModel p loc blk.1 blk.2

/-- the collector's map after a completed schedule: the blocks' results appended in arrival order -/
def collected (p : Params α) (loc : Location α) (merged : List (Int × Int)) : List (Int × Except Panic DayTimes) :=
  merged.flatMap (workerResult p loc)

theorem lookup_graph {β : Type} (f : Int → β) (d : Int) : ∀ l : List Int,
    (l.map fun x => (x, f x)).lookup d = if d ∈ l then some (f d) else none := by
  intro l
  induction l with
  | nil => simp
  | cons a l ih =>
    simp only [List.map_cons, List.lookup_cons, List.mem_cons]
    by_cases h : d = a
    · subst h; simp
    · have : (d == a) = false := by simpa using h
      simp [this, ih, h]

/-- looking a date up in the sequential result: the single-date result iff the date is in range -/
theorem lookup_rng (p : Params α) (loc : Location α) (s e d : Int) :
    (C14.rngModel p loc s e).lookup d = if s ≤ d ∧ d ≤ e then some (prayerTimesDt p loc d none) else none := by
  unfold C14.rngModel
  rw [lookup_graph (fun rd => prayerTimesDt p loc rd none) d (rangeDates s e)]
  simp only [C14.rangeDates_mem]

/-- looking a date up in the appended block results: found iff some block contains the date -/
theorem lookup_collected (p : Params α) (loc : Location α) (d : Int) : ∀ l : List (Int × Int),
    (collected p loc l).lookup d =
      if ∃ b ∈ l, b.1 ≤ d ∧ d ≤ b.2 then some (prayerTimesDt p loc d none) else none := by
  intro l
  induction l with
  | nil => simp [collected]
  | cons b l ih =>
    have ih' : (List.flatMap (workerResult p loc) l).lookup d =
        if ∃ b ∈ l, b.1 ≤ d ∧ d ≤ b.2 then some (prayerTimesDt p loc d none) else none := ih
    simp only [collected, List.flatMap_cons, List.lookup_append, workerResult, lookup_rng, ih',
      List.mem_cons, exists_eq_or_imp]
    by_cases h1 : b.1 ≤ d ∧ d ≤ b.2
    · simp [h1]
    · by_cases h2 : ∃ b ∈ l, b.1 ≤ d ∧ d ≤ b.2
      · rw [if_neg h1, if_pos h2, if_pos (Or.inr h2)]; rfl
      · rw [if_neg h1, if_neg h2, if_neg (by rintro (h | h); exact h1 h; exact h2 h)]; rfl

/-- an exact cover contains a date in one of its blocks iff the date is in the range -/
theorem cover_mem (e d : Int) : ∀ (l : List (Int × Int)) (s : Int), C14.CoversFrom e s l →
    ((∃ b ∈ l, b.1 ≤ d ∧ d ≤ b.2) ↔ s ≤ d ∧ d ≤ e) := by
  intro l
  induction l with
  | nil => intro s h; simp only [C14.CoversFrom] at h; simp; omega
  | cons b l ih =>
    intro s h
    obtain ⟨a, b'⟩ := b
    simp only [C14.CoversFrom] at h
    obtain ⟨h1, h2, h3, h4⟩ := h
    have := ih (b' + 1) h4
    simp only [List.mem_cons, exists_eq_or_imp, this]
    omega

theorem partition_mem (s e d : Int) (k : Nat) :
    (∃ b ∈ partition s e k, b.1 ≤ d ∧ d ≤ b.2) ↔ s ≤ d ∧ d ≤ e := by
  by_cases hse : s ≤ e
  · exact cover_mem e d _ s (C14.partition_cover s e k hse)
  · by_cases hk : k < 2
    · simp [partition, hk]
    · have := C14.partition_empty s e k (by omega) (by omega)
      rw [this]; simp; omega

/-- **C15, end to end**: for every parameter set, location, range (also an empty one), worker
    count k and EVERY schedule of the fan-in protocol that runs to the end of the collector's loop
    without a worker panicking, the collected map answers every date exactly as the sequential
    range function does - the single-date result for dates in the range, nothing for any other
    date.  (A worker panics exactly when a date of its block makes the single-date function panic;
    the sequential function then panics on that date too, and `thread::scope` re-raises the
    worker's panic after the collector has ended - `panic_is_flagged`, `no_deadlock` and
    `schedule_bound` cover those schedules: no hang, and no map is returned.) -/
theorem parallel_eq_sequential (p : Params α) (loc : Location α) (s e : Int) (k : Nat)
    (as : List BAct) (st : BState (Int × Int))
    (h : bRun (bInit (partition s e k)) as = some st) (hd : st.done = true) (hnp : st.panicked = false) (d : Int) :
    (collected p loc st.merged).lookup d = (C14.rngModel p loc s e).lookup d := by
  have hc := done_eq_seq (partition s e k) as st h hd hnp
  have hp : st.merged.Perm (partition s e k) := List.perm_iff_count.mpr hc
  rw [lookup_collected, lookup_rng]
  have hm : (∃ b ∈ st.merged, b.1 ≤ d ∧ d ≤ b.2) ↔ (∃ b ∈ partition s e k, b.1 ≤ d ∧ d ≤ b.2) := by
    constructor <;> rintro ⟨b, hb, hbd⟩
    · exact ⟨b, hp.mem_iff.mp hb, hbd⟩
    · exact ⟨b, hp.mem_iff.mpr hb, hbd⟩
  simp only [hm, partition_mem]

/-- the collected map has one entry per date of the range: as many entries as the sequential map -/
theorem collected_length (p : Params α) (loc : Location α) (s e : Int) (k : Nat)
    (as : List BAct) (st : BState (Int × Int))
    (h : bRun (bInit (partition s e k)) as = some st) (hd : st.done = true) (hnp : st.panicked = false) :
    (collected p loc st.merged).length = (collected p loc (partition s e k)).length := by
  have hc := done_eq_seq (partition s e k) as st h hd hnp
  have hp : st.merged.Perm (partition s e k) := List.perm_iff_count.mpr hc
  exact (hp.flatMap_right _).length_eq

end EndToEnd

-- non-vacuity: a complete schedule for two partitions that interleaves the collector with the workers
example : (bRun (bInit [1, 2]) [.spawn, .send 0, .recv, .spawn, .dropTx, .send 0, .recv, .close]).map
    (fun s => (s.merged, s.done)) = some ([1, 2], true) := by decide
-- and one in which the second worker overtakes the first
example : (bRun (bInit [1, 2]) [.spawn, .spawn, .send 1, .dropTx, .recv, .send 0, .recv, .close]).map
    (fun s => (s.merged, s.done)) = some ([2, 1], true) := by decide

-- and one in which the first worker panics: the collector still ends, with the other worker's result
-- only, and the state is flagged (the caller sees the panic, not this partial map)
example : (bRun (bInit [1, 2]) [.spawn, .spawn, .die 0, .dropTx, .send 0, .recv, .close]).map
    (fun s => (s.merged, s.done, s.panicked)) = some ([2], true, true) := by decide

end IPT.C15
