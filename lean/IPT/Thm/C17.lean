import IPT.Lemmas.Hijri
import IPT.Lemmas.Civil
/-
  C17 — Hijri conversion is the tabular Islamic calendar, day for day.
  Spec (independent of the code's search loops): the closed-form Reingold–Dershowitz inverse.
  Model: IPT/Model/Hijri.lean; comparison operators of the year loops and the leap rule are
  re-read from hijri_date.rs by the translator (Gen.yearBackCmp, Gen.yearFwdCmp, Gen.leapRule).
-/
namespace IPT.C17
open IPT IPT.HijriLemmas

/-- fixed-from-islamic (Calendrical Calculations), epoch 227015 = Friday 0622-07-19 proleptic Gregorian -/
def tabFixed (y m d : Int) : Int :=
  d + 29 * (m - 1) + (6 * m - 1) / 11 + (y - 1) * 354 + (3 + 11 * y) / 30 + 227015 - 1

/-- islamic-from-fixed: (astronomical year, month, day) -/
def tabDate (g : Int) : Int × Int × Int :=
  let y := (30 * (g - 227015) + 10646) / 10631
  let m := (11 * (g - tabFixed y 1 1) + 330) / 325
  (y, m, g - tabFixed y m 1 + 1)

/-- how the library reports an astronomical year: magnitude and before-Hijra flag (year 0 = 1 B.H.) -/
def reported (y : Int) : Int × Bool := if y ≤ 0 then (1 - y, true) else (y, false)

/-- the source has `<` in the backward year search, `>=` in the forward one, and the Euclidean
    leap rule.  False of the code as first found (`<=` and `(11*year).abs()`). -/
theorem source_shape : Gen.yearBackCmp = .lt ∧ Gen.yearFwdCmp = .ge ∧ Gen.leapRule = .remEuclid ∧
    Gen.HIJRI_EPOCH = 227015 := by decide

theorem gregAbsDate_eq_toRD (dt : Date) : gregAbsDate dt = toRD dt := by
  simp only [gregAbsDate, toRD, daysBeforeYear, ordinal]; omega

theorem tabFixed_first (y : Int) : tabFixed y 1 1 = yearStart y := by
  unfold tabFixed yearStart; omega

theorem tabFixed_month (y m : Int) (h1 : 1 ≤ m) (h2 : m ≤ 12) : tabFixed y m 1 = hijriAbsDate 1 m y := by
  rw [hijriAbsDate_eq]
  unfold tabFixed yearStart
  have : m = 1 ∨ m = 2 ∨ m = 3 ∨ m = 4 ∨ m = 5 ∨ m = 6 ∨ m = 7 ∨ m = 8 ∨ m = 9 ∨ m = 10 ∨ m = 11 ∨ m = 12 := by
    omega
  rcases this with h | h | h | h | h | h | h | h | h | h | h | h <;> subst h <;> omega

/-- the year search, both directions, stops at the tabular year within the fuel supplied -/
theorem hijriYear_spec (g : Int) (h1 : 1 ≤ g) (h2 : g ≤ 3652059) :
    hijriYear hijriFuel g = some (tabYear g) := by
  obtain ⟨hb, hf, _, he⟩ := source_shape
  have ⟨s1, s2⟩ := tabYear_spec g
  unfold hijriYear hijriFuel
  rw [he]
  by_cases hlt : g < 227015
  · simp only [hlt, if_true]
    apply yearBack_spec g _ s1 s2 _ _ _ _ hb <;> unfold tabYear <;> omega
  · simp only [hlt, if_false]
    apply yearFwd_spec g _ s1 s2 _ _ _ _ hf <;> unfold tabYear <;> omega

/-- **C17**: for every date 0001-01-01..9999-12-31 the conversion is the tabular calendar -/
theorem hijri_eq_tabular (dt : Date) (h1 : 1 ≤ gregAbsDate dt) (h2 : gregAbsDate dt ≤ 3652059) :
    hijriOf dt = some
      { year := (reported (tabDate (gregAbsDate dt)).1).1
        month := (tabDate (gregAbsDate dt)).2.1
        day := (tabDate (gregAbsDate dt)).2.2
        preEpoch := (reported (tabDate (gregAbsDate dt)).1).2
        weekday := gregAbsDate dt % 7 + 1 } := by
  obtain ⟨_, _, hl, _⟩ := source_shape
  simp only [hijriOf]
  generalize gregAbsDate dt = g at *
  have ⟨s1, s2⟩ := tabYear_spec g
  obtain ⟨hm, hm1, hm12⟩ := monthVal_spec g (tabYear g) hl s1 s2
  have hy : (30 * (g - 227015) + 10646) / 10631 = tabYear g := rfl
  have hmon : (11 * (g - tabFixed (tabYear g) 1 1) + 330) / 325 = tabMonthOf (g - yearStart (tabYear g)) := by
    rw [tabFixed_first]; rfl
  simp only [hijriYear_spec g h1 h2, hm, tabDate, hy, hmon]
  have hd := tabFixed_month (tabYear g) _ hm1 hm12
  rw [hd]
  -- day of month is in 1..30, so the u8 cast is the identity
  have hday : 1 ≤ g - hijriAbsDate 1 (tabMonthOf (g - yearStart (tabYear g))) (tabYear g) + 1 ∧
      g - hijriAbsDate 1 (tabMonthOf (g - yearStart (tabYear g))) (tabYear g) + 1 ≤ 30 := by
    rw [hijriAbsDate_eq]
    have hlen := yearLen (tabYear g)
    generalize tabYear g = T at *
    unfold tabMonthOf at *
    split at hlen <;> omega
  have hwd : ((Int.tmod g 7).natAbs : Int) + 1 = g % 7 + 1 := by
    have : Int.tmod g 7 = g % 7 := by
      rw [Int.tmod_eq_emod_of_nonneg (by omega)]
    omega
  have hmod : (g - hijriAbsDate 1 (tabMonthOf (g - yearStart (tabYear g))) (tabYear g) + 1) % 256 =
      g - hijriAbsDate 1 (tabMonthOf (g - yearStart (tabYear g))) (tabYear g) + 1 := by omega
  simp only [hmod, hwd, reported]
  by_cases hle : tabYear g ≤ 0 <;> simp [hle] <;> omega

/-- month in 1..12 and day in 1..30: the accessors and Display (which unwrap
    HijriMonth::try_from / HijriDay::try_from) cannot panic; the loops do not run away -/
theorem no_panic (dt : Date) (h1 : 1 ≤ gregAbsDate dt) (h2 : gregAbsDate dt ≤ 3652059) :
    ∃ h, hijriOf dt = some h ∧ h.monthOk = true ∧ 1 ≤ h.day ∧ h.day ≤ 30 ∧ 1 ≤ h.weekday ∧ h.weekday ≤ 7 := by
  refine ⟨_, hijri_eq_tabular dt h1 h2, ?_⟩
  obtain ⟨_, _, hl, _⟩ := source_shape
  generalize gregAbsDate dt = g at *
  have ⟨s1, s2⟩ := tabYear_spec g
  obtain ⟨_, hm1, hm12⟩ := monthVal_spec g (tabYear g) hl s1 s2
  have hy : (30 * (g - 227015) + 10646) / 10631 = tabYear g := rfl
  have hmon : (11 * (g - tabFixed (tabYear g) 1 1) + 330) / 325 = tabMonthOf (g - yearStart (tabYear g)) := by
    rw [tabFixed_first]; rfl
  simp only [Hijri.monthOk, tabDate, hy, hmon]
  have hd := tabFixed_month (tabYear g) _ hm1 hm12
  rw [hd, hijriAbsDate_eq]
  have hlen := yearLen (tabYear g)
  generalize tabYear g = T at *
  unfold tabMonthOf at *
  refine ⟨by simp; omega, ?_, ?_, by omega, by omega⟩ <;> (split at hlen <;> omega)

/-- successive dates map to successive Hijri days: same month next day, or day 1 of the next
    month after day 29/30, or 1 Muharram after the 12th month — hence the map is one-to-one -/
theorem succ_day (g : Int) :
    let a := tabDate g
    let b := tabDate (g + 1)
    (b = (a.1, a.2.1, a.2.2 + 1)) ∨
    (b = (a.1, a.2.1 + 1, 1) ∧ (a.2.2 = 29 ∨ a.2.2 = 30)) ∨
    (b = (a.1 + 1, 1, 1) ∧ a.2.1 = 12 ∧ (a.2.2 = 29 ∨ a.2.2 = 30)) := by
  have ⟨s1, s2⟩ := tabYear_spec g
  have ⟨t1, t2⟩ := tabYear_spec (g + 1)
  have hlen := yearLen (tabYear g)
  simp only [tabDate, tabFixed_first, Prod.mk.injEq]
  have hy : ∀ x : Int, (30 * (x - 227015) + 10646) / 10631 = tabYear x := fun _ => rfl
  simp only [hy]
  have hT : tabYear (g + 1) = tabYear g ∨ tabYear (g + 1) = tabYear g + 1 := by
    unfold tabYear; omega
  rcases hT with hT | hT
  · -- same year
    rw [hT] at t1 t2 ⊢
    generalize tabYear g = T at *
    unfold tabFixed
    have hys : (T - 1) * 354 + (3 + 11 * T) / 30 + 227015 = yearStart T := by unfold yearStart; omega
    generalize hp : g - yearStart T = p at *
    have hg : g = p + yearStart T := by omega
    subst hg
    generalize yearStart T = Y at *
    have e1 : p + Y + 1 - Y = p + 1 := by omega
    rw [e1]
    generalize hM : (11 * p + 330) / 325 = M
    generalize hM' : (11 * (p + 1) + 330) / 325 = M'
    have hMM : M' = M ∨ M' = M + 1 := by omega
    have hMb : 1 ≤ M ∧ M ≤ 12 := by split at hlen <;> omega
    have hMb' : 1 ≤ M' ∧ M' ≤ 12 := by split at hlen <;> omega
    have hq : ∀ m : Int, 1 ≤ m → m ≤ 12 → (6 * m - 1) / 11 = m / 2 := by
      intro m h1 h2
      have : m = 1 ∨ m = 2 ∨ m = 3 ∨ m = 4 ∨ m = 5 ∨ m = 6 ∨ m = 7 ∨ m = 8 ∨ m = 9 ∨ m = 10 ∨ m = 11 ∨ m = 12 := by
        omega
      rcases this with h | h | h | h | h | h | h | h | h | h | h | h <;> subst h <;> omega
    rcases hMM with h | h
    · left; subst h; refine ⟨rfl, rfl, ?_⟩; omega
    · right; left
      subst h
      have q1 := hq M hMb.1 (by omega)
      have q2 := hq (M + 1) (by omega) (by omega)
      refine ⟨⟨rfl, rfl, ?_⟩, ?_⟩ <;> omega
  · -- first day of the next year
    right; right
    rw [hT] at t1 t2 ⊢
    have hg : g + 1 = yearStart (tabYear g + 1) := by
      have := yearStart_strict (show tabYear g < tabYear g + 1 by omega)
      omega
    generalize tabYear g = T at *
    unfold tabFixed
    have hys : (T - 1) * 354 + (3 + 11 * T) / 30 + 227015 = yearStart T := by unfold yearStart; omega
    have hys' : (T + 1 - 1) * 354 + (3 + 11 * (T + 1)) / 30 + 227015 = yearStart (T + 1) := by unfold yearStart; omega
    have e0 : g + 1 - yearStart (T + 1) = 0 := by omega
    rw [e0]
    generalize hM : (11 * (g - yearStart T) + 330) / 325 = M
    have hM12 : M = 12 := by split at hlen <;> omega
    subst hM12
    refine ⟨⟨rfl, by decide, ?_⟩, rfl, ?_⟩
    · have : (11 * 0 + 330) / 325 = (1 : Int) := by decide
      rw [this]; omega
    · split at hlen <;> omega

/-- **months have 30 and 29 days alternately** (odd months 30), months 1..11 -/
theorem month_lengths (y m : Int) (h1 : 1 ≤ m) (h2 : m ≤ 11) :
    tabFixed y (m + 1) 1 - tabFixed y m 1 = if m % 2 = 1 then 30 else 29 := by
  unfold tabFixed
  have : m = 1 ∨ m = 2 ∨ m = 3 ∨ m = 4 ∨ m = 5 ∨ m = 6 ∨ m = 7 ∨ m = 8 ∨ m = 9 ∨ m = 10 ∨ m = 11 := by omega
  rcases this with h | h | h | h | h | h | h | h | h | h | h <;> subst h <;> simp <;> omega

/-- **the twelfth month has 30 days exactly in leap years, 29 otherwise**: the year has 355 or 354 days -/
theorem twelfth_month_and_year_length (y : Int) :
    tabFixed (y + 1) 1 1 - tabFixed y 12 1 = (if (11 * y + 14) % 30 < 11 then 30 else 29) ∧
    tabFixed (y + 1) 1 1 - tabFixed y 1 1 = (if (11 * y + 14) % 30 < 11 then 355 else 354) := by
  have hl := yearLen y
  rw [tabFixed_first, tabFixed_first]
  have h12 : tabFixed y 12 1 = yearStart y + 325 := by unfold tabFixed yearStart; omega
  rw [h12]
  constructor <;> (split at hl <;> simp_all <;> omega)

/-- **11 leap years in every 30-year cycle** -/
theorem leap_years_per_cycle :
    ((List.range 30).filter fun (y : Nat) => decide ((11 * (y : Int) + 14) % 30 < 11)).length = 11 := by decide

/-- length of month m of the (astronomical) tabular year y: 30/29 alternately, the twelfth 30 in leap years -/
def tabMonthLen (y m : Int) : Int :=
  if m = 12 then (if (11 * y + 14) % 30 < 11 then 30 else 29) else if m % 2 = 1 then 30 else 29

/-- **every tabular date is the date of its day number**: `tabDate (tabFixed y m d) = (y, m, d)` for
    month 1..12 and day 1..length of that month - with `round_trip` the tabular dates and the day
    numbers are in bijection (one-to-one AND onto) -/
theorem tabDate_tabFixed (y m d : Int) (hm1 : 1 ≤ m) (hm2 : m ≤ 12) (hd1 : 1 ≤ d) (hd2 : d ≤ tabMonthLen y m) :
    tabDate (tabFixed y m d) = (y, m, d) := by
  have hl := yearLen y
  have hcases : m = 1 ∨ m = 2 ∨ m = 3 ∨ m = 4 ∨ m = 5 ∨ m = 6 ∨ m = 7 ∨ m = 8 ∨ m = 9 ∨ m = 10 ∨ m = 11 ∨ m = 12 := by omega
  -- offset of the day within the year
  have hoff : tabFixed y m d = yearStart y + (29 * (m - 1) + (6 * m - 1) / 11 + d - 1) := by
    unfold tabFixed yearStart; omega
  have hp0 : 0 ≤ 29 * (m - 1) + (6 * m - 1) / 11 + d - 1 := by
    rcases hcases with h | h | h | h | h | h | h | h | h | h | h | h <;> subst h <;> omega
  have hp1 : 29 * (m - 1) + (6 * m - 1) / 11 + d - 1 < yearStart (y + 1) - yearStart y := by
    unfold tabMonthLen at hd2
    rcases hcases with h | h | h | h | h | h | h | h | h | h | h | h <;> subst h <;>
      (simp at hd2; split at hl <;> simp_all <;> omega)
  -- the year
  have hy : tabYear (tabFixed y m d) = y := by
    have sp := tabYear_spec (tabFixed y m d)
    rcases Int.lt_trichotomy (tabYear (tabFixed y m d)) y with h | h | h
    · have := yearStart_mono (show tabYear (tabFixed y m d) + 1 ≤ y by omega); omega
    · exact h
    · have := yearStart_mono (show y + 1 ≤ tabYear (tabFixed y m d) by omega); omega
  have hyy : ∀ x : Int, (30 * (x - 227015) + 10646) / 10631 = tabYear x := fun _ => rfl
  simp only [tabDate, hyy, hy, tabFixed_first, Prod.mk.injEq, true_and]
  have hmonth : (11 * (tabFixed y m d - yearStart y) + 330) / 325 = m := by
    rw [hoff]
    unfold tabMonthLen at hd2
    rcases hcases with h | h | h | h | h | h | h | h | h | h | h | h <;> subst h <;>
      (simp at hd2 ⊢; first | omega | (split at hd2 <;> omega))
  rw [hmonth]
  refine ⟨rfl, ?_⟩
  unfold tabFixed; omega

/- `round_trip` holds by cancellation for any day number; its use is `injective` below.  The converse
   is `tabDate_tabFixed` above. -/
/-- the tabular date determines the day: the mapping is one-to-one -/
theorem round_trip (g : Int) : tabFixed (tabDate g).1 (tabDate g).2.1 (tabDate g).2.2 = g := by
  simp only [tabDate, tabFixed]; omega

theorem injective (g g' : Int) (h : tabDate g = tabDate g') : g = g' := by
  rw [← round_trip g, ← round_trip g', h]

/-- the reported weekday (1 = Ahad/Sunday) is the civil weekday of the same date
    (day number 1 = Monday 0001-01-01, so day number mod 7 = 0 is a Sunday) -/
theorem weekday_civil (dt : Date) (h1 : 1 ≤ gregAbsDate dt) (h2 : gregAbsDate dt ≤ 3652059) :
    ∃ h, hijriOf dt = some h ∧ h.weekday = weekdayRD (toRD dt) + 1 := by
  refine ⟨_, hijri_eq_tabular dt h1 h2, ?_⟩
  simp [weekdayRD, gregAbsDate_eq_toRD]

-- non-vacuity: the epoch itself, a pre-epoch date, a modern date
/-! ### stated on calendar dates -/

/-- the range hypothesis of the theorems above, in calendar terms: every valid date (month 1..12, day
    within the month) of the years 1..9999 satisfies it -/
theorem valid_date_in_range (dt : Date) (hv : CivilLemmas.ValidDate dt) (h1 : 1 ≤ dt.y) (h2 : dt.y ≤ 9999) :
    1 ≤ gregAbsDate dt ∧ gregAbsDate dt ≤ 3652059 := by
  rw [gregAbsDate_eq_toRD]
  exact CivilLemmas.valid_date_range dt hv h1 h2

/-- **for every Gregorian date of the years 1 to 9999 the conversion succeeds with a month in 1..12, a
    day in 1..30 and a weekday in 1..7** (so no accessor and no printing can panic), and the weekday
    is the civil weekday of that date -/
theorem no_panic_valid (dt : Date) (hv : CivilLemmas.ValidDate dt) (h1 : 1 ≤ dt.y) (h2 : dt.y ≤ 9999) :
    ∃ h, hijriOf dt = some h ∧ h.monthOk = true ∧ 1 ≤ h.day ∧ h.day ≤ 30 ∧ 1 ≤ h.weekday ∧ h.weekday ≤ 7 ∧
      h.weekday = weekdayRD (toRD dt) + 1 := by
  obtain ⟨r1, r2⟩ := valid_date_in_range dt hv h1 h2
  obtain ⟨h, e, a, b, c, d, f⟩ := no_panic dt r1 r2
  obtain ⟨h', e', w⟩ := weekday_civil dt r1 r2
  rw [e] at e'; simp only [Option.some.injEq] at e'; subst e'
  exact ⟨h, e, a, b, c, d, f, w⟩

-- non-vacuity: 29 February 2024 and 31 December 9999 are such dates
example : CivilLemmas.ValidDate ⟨2024, 2, 29⟩ ∧ CivilLemmas.ValidDate ⟨9999, 12, 31⟩ := by
  constructor <;> simp [CivilLemmas.ValidDate, CivilLemmas.dim, CivilLemmas.dbm, isLeap] <;> decide

-- non-vacuity of `tabDate_tabFixed`: 30 Dhul Hijjah exists in the leap year 1445, not in 1446
example : tabMonthLen 1445 12 = 30 ∧ tabMonthLen 1446 12 = 29 ∧ tabDate (tabFixed 1445 12 30) = (1445, 12, 30) := by decide

example : hijriOf ⟨622, 7, 19⟩ = some ⟨1, 1, 1, false, 6⟩ := by decide +kernel
example : hijriOf ⟨1, 8, 8⟩ = some ⟨640, 1, 1, true, 4⟩ := by decide +kernel
example : tabDate 738521 = (1444, 6, 8) := by decide
example : 1 ≤ gregAbsDate ⟨2023, 1, 1⟩ ∧ gregAbsDate ⟨2023, 1, 1⟩ ≤ 3652059 := by decide

end IPT.C17
