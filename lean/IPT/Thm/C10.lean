import IPT.Thm.C08
/-
  C10 — nearest-latitude and portion-of-night fallbacks follow their stated formulas.
  End-to-end statements about `adjForExtLat` (guard, dispatch, writer, interval pass) for EVERY
  scalar type; the formulas are the ones in the property text, written in the scalar's own
  arithmetic (`24 - (M - S)` etc.), so over ℝ they are the stated quantities exactly.
  Scope: the formula theorems assume no Fajr/Isha interval (`NoIntervals`: the six angle-based
  named methods; for UmmAlQurra/FixedIsha the interval pass then overwrites Isha,
  `interval_definition_kept`), except the minutes-from-Maghrib ones, which need the intervals set.
-/
namespace IPT.C10
open IPT IPT.ExtLatLemmas
variable {α : Type} [Add α] [Sub α] [Mul α] [Div α] [Neg α] [OfScientific α] [Sc α]

/-- recomputation at the substitute latitude reuses the day's geocentric ephemeris and is the
    same as computing the topocentric day from scratch at the substitute coordinates -/
theorem newCoords_eq_fromJd (jd : JD α) (c c' : Coords α) : (topFromJd jd c).newCoords c' = topFromJd jd c' := rfl

/-- what the policy layer is given for a substitute latitude: the conventional hours at that
    latitude, same longitude, elevation and date -/
theorem nearLat_env (p : Params α) (jd : JD α) (c : Coords α) (w : Weather α) (l : α) :
    (envOf p (topFromJd jd c) w).nearLatHours l = getHours p (topFromJd jd { c with lat := l }) w := rfl

/-- no interval configured -/
def NoIntervals (p : Params α) : Prop := nonZero p.intFajr = false ∧ nonZero p.intIsha = false

theorem adjForInt_noIntervals (p : Params α) (h : PHours α) (hn : NoIntervals p) : adjForInt p h = .ok h := by
  unfold adjForInt intFajrStep intIshaStep
  simp [hn.1, hn.2]

/-- **nearest latitude, all prayers**: Shurooq, Asr, Maghrib (and Fajr/Isha where they exist
    there) are exactly the conventional hours at the substitute latitude, all six flagged extreme.
    Dhuhr is NOT recomputed: the code keeps the site's own Dhuhr and flags it (the two differ only
    through the parallax term, which depends on latitude; no theorem bounds that difference - the
    falsifier compares within the property's 3 s). -/
theorem nearLat_all (p : Params α) (hours : Hours α) (env : Env α) (l : α) (d : α)
    (hp : p.policy = .NearestLatitudeAllPrayersAlways l) (hn : NoIntervals p) (hd : hours.dhuhr = some d) :
    ∃ r, adjForExtLat p hours env = .ok r ∧
      r.shur = (env.nearLatHours l).shur.map PH.ext ∧ r.asr = (env.nearLatHours l).asr.map PH.ext ∧
      r.magh = (env.nearLatHours l).magh.map PH.ext ∧ r.dhuhr = some ⟨d, true⟩ ∧
      (∀ v, (env.nearLatHours l).fajr = some v → r.fajr = some ⟨v, true⟩) ∧
      (∀ v, (env.nearLatHours l).isha = some v → r.isha = some ⟨v, true⟩) := by
  unfold adjForExtLat applyPolicy
  simp only [canAdj, hp, Policy.isNone, Gen.isAlways, Gen.dispatch, Bool.not_false, Bool.or_true, Bool.and_self, if_true]
  unfold adjNearLat
  simp only [hp, Policy.isNearLatFIInvalid, Policy.isNearLatAll, Bool.not_false, Bool.true_or, if_true]
  cases hf : (env.nearLatHours l).fajr <;> cases hi : (env.nearLatHours l).isha <;>
    simp [Hours.toPH, hd, adjForInt_noIntervals _ _ hn, PH.ext, PH.conv]

/-- **nearest latitude, Fajr/Isha always**: exactly those two are taken from the substitute latitude -/
theorem nearLat_fajrIsha (p : Params α) (hours : Hours α) (env : Env α) (l vf vi : α)
    (hp : p.policy = .NearestLatitudeFajrIshaAlways l) (hn : NoIntervals p)
    (hf : (env.nearLatHours l).fajr = some vf) (hi : (env.nearLatHours l).isha = some vi) :
    adjForExtLat p hours env = .ok { hours.toPH with fajr := some ⟨vf, true⟩, isha := some ⟨vi, true⟩ } := by
  unfold adjForExtLat applyPolicy
  simp only [canAdj, hp, Policy.isNone, Gen.isAlways, Gen.dispatch, Bool.not_false, Bool.or_true, Bool.and_self, if_true]
  unfold adjNearLat
  simp [hp, Policy.isNearLatFIInvalid, Policy.isNearLatAll, hf, hi, adjForInt_noIntervals _ _ hn, PH.ext]

/-- **seventh of the night / of the day (always)**: Fajr = Shurooq − p, Isha = Maghrib + p with
    p = (24 − (Maghrib − Shurooq))/7 resp. (Maghrib − Shurooq)/7, both flagged extreme -/
theorem seventh_always (p : Params α) (hours : Hours α) (env : Env α) (s m : α) (hn : NoIntervals p)
    (hs : hours.shur = some s) (hm : hours.magh = some m) :
    (p.policy = .SeventhOfNightFajrIshaAlways →
      adjForExtLat p hours env = .ok { hours.toPH with
        fajr := some ⟨s - (Gen.HRS_PER_DAY - (m - s)) / 7.0, true⟩,
        isha := some ⟨m + (Gen.HRS_PER_DAY - (m - s)) / 7.0, true⟩ }) ∧
    (p.policy = .SeventhOfDayFajrIshaAlways →
      adjForExtLat p hours env = .ok { hours.toPH with
        fajr := some ⟨s - (m - s) / 7.0, true⟩, isha := some ⟨m + (m - s) / 7.0, true⟩ }) := by
  constructor <;> intro hp <;>
    simp [adjForExtLat, applyPolicy, canAdj, hp, Policy.isNone, Gen.isAlways, Gen.dispatch, adjSevHalf,
      Hours.toPH, hs, hm, Policy.portionKind, portionOf, Policy.isSevHalfAlways, Policy.isHalfAlways,
      adjForInt_noIntervals _ _ hn, PH.ext, PH.conv]

/-- **seventh of the night / day (only if invalid)** on a day where Fajr is missing and Isha is not -/
theorem seventh_invalid_fajr (p : Params α) (hours : Hours α) (env : Env α) (s m i : α) (hn : NoIntervals p)
    (hp : p.policy = .SeventhOfNightFajrIshaInvalid)
    (hf : hours.fajr = none) (hs : hours.shur = some s) (hm : hours.magh = some m) (hi : hours.isha = some i) :
    adjForExtLat p hours env = .ok { hours.toPH with fajr := some ⟨s - (Gen.HRS_PER_DAY - (m - s)) / 7.0, true⟩ } := by
  simp [adjForExtLat, applyPolicy, canAdj, hp, Policy.isNone, Gen.isAlways, Gen.dispatch, adjSevHalf,
    Hours.toPH, hf, hs, hm, hi, PHours.hasInv, Policy.portionKind, portionOf, Policy.isSevHalfAlways, Policy.isHalfInvalid,
    adjForInt_noIntervals _ _ hn, PH.ext, PH.conv]

/-- the mirror case: Isha is missing and Fajr is not - under both only-if-invalid seventh policies
    (night: p = (24 − (M − S))/7, day: p = (M − S)/7) the missing one is written, flagged; the other kept -/
theorem seventh_invalid_isha (p : Params α) (hours : Hours α) (env : Env α) (f s m : α) (hn : NoIntervals p)
    (hf : hours.fajr = some f) (hs : hours.shur = some s) (hm : hours.magh = some m) (hi : hours.isha = none) :
    (p.policy = .SeventhOfNightFajrIshaInvalid →
      adjForExtLat p hours env = .ok { hours.toPH with isha := some ⟨m + (Gen.HRS_PER_DAY - (m - s)) / 7.0, true⟩ }) ∧
    (p.policy = .SeventhOfDayFajrIshaInvalid →
      adjForExtLat p hours env = .ok { hours.toPH with isha := some ⟨m + (m - s) / 7.0, true⟩ }) := by
  constructor <;> intro hp <;>
    simp [adjForExtLat, applyPolicy, canAdj, hp, Policy.isNone, Gen.isAlways, Gen.dispatch, adjSevHalf,
      Hours.toPH, hf, hs, hm, hi, PHours.hasInv, Policy.portionKind, portionOf, Policy.isSevHalfAlways, Policy.isHalfInvalid,
      adjForInt_noIntervals _ _ hn, PH.ext, PH.conv]

/-- seventh of the DAY, only if invalid, Fajr missing (the night variant is `seventh_invalid_fajr`) -/
theorem seventh_day_invalid_fajr (p : Params α) (hours : Hours α) (env : Env α) (s m i : α) (hn : NoIntervals p)
    (hp : p.policy = .SeventhOfDayFajrIshaInvalid)
    (hf : hours.fajr = none) (hs : hours.shur = some s) (hm : hours.magh = some m) (hi : hours.isha = some i) :
    adjForExtLat p hours env = .ok { hours.toPH with fajr := some ⟨s - (m - s) / 7.0, true⟩ } := by
  simp [adjForExtLat, applyPolicy, canAdj, hp, Policy.isNone, Gen.isAlways, Gen.dispatch, adjSevHalf,
    Hours.toPH, hf, hs, hm, hi, PHours.hasInv, Policy.portionKind, portionOf, Policy.isSevHalfAlways, Policy.isHalfInvalid,
    adjForInt_noIntervals _ _ hn, PH.ext, PH.conv]

/-- **nearest latitude, Fajr/Isha only if invalid**: a missing Fajr (Isha) is taken from the
    substitute latitude and flagged, an existing one is kept as it is; nothing else changes -/
theorem nearLat_fajrIsha_invalid (p : Params α) (hours : Hours α) (env : Env α) (l vf vi : α)
    (hp : p.policy = .NearestLatitudeFajrIshaInvalid l) (hn : NoIntervals p)
    (hinv : hours.toPH.hasInv = true)
    (hf : (env.nearLatHours l).fajr = some vf) (hi : (env.nearLatHours l).isha = some vi) :
    adjForExtLat p hours env = .ok { hours.toPH with
      fajr := if hours.fajr.isNone then some ⟨vf, true⟩ else hours.toPH.fajr,
      isha := if hours.isha.isNone then some ⟨vi, true⟩ else hours.toPH.isha } := by
  have hcan : canAdj hours.toPH p.policy = true := by simp [canAdj, hp, Policy.isNone, hinv]
  unfold adjForExtLat applyPolicy
  rw [if_pos hcan]
  simp only [hp, Gen.dispatch]
  unfold adjNearLat
  cases h1 : hours.fajr <;> cases h2 : hours.isha <;>
    simp [hp, Policy.isNearLatFIInvalid, Policy.isNearLatAll, hf, hi, Hours.toPH, h1, h2,
      adjForInt_noIntervals _ _ hn, PH.ext, PH.conv]

/-- **angle-based**, on a day where some time is missing: Fajr = Shurooq − (FajrAngle/60)·night,
    Isha = Maghrib + (IshaAngle/60)·night, night = 24 − Maghrib + Shurooq; both flagged extreme -/
theorem angle_based (p : Params α) (hours : Hours α) (env : Env α) (s m : α) (hn : NoIntervals p)
    (hp : p.policy = .AngleBased) (hinv : hours.toPH.hasInv = true)
    (hs : hours.shur = some s) (hm : hours.magh = some m) :
    adjForExtLat p hours env = .ok { hours.toPH with
      fajr := some ⟨s - 1.0 / Gen.MIN_SEC_PER_HR_MIN * p.angFajr * (Gen.HRS_PER_DAY - m + s), true⟩,
      isha := some ⟨m + 1.0 / Gen.MIN_SEC_PER_HR_MIN * p.angIsha * (Gen.HRS_PER_DAY - m + s), true⟩ } := by
  have hcan : canAdj hours.toPH p.policy = true := by simp [canAdj, hp, Policy.isNone, hinv]
  unfold adjForExtLat applyPolicy
  rw [if_pos hcan]
  simp [hp, Gen.dispatch, angleBased, Hours.toPH, hs, hm, adjForInt_noIntervals _ _ hn, PH.ext, PH.conv]

/-- **minutes from Maghrib (always)**: Fajr = Shurooq − FajrInterval, Isha = Maghrib + IshaInterval, flagged extreme -/
theorem minutes_always (p : Params α) (hours : Hours α) (env : Env α) (s m : α)
    (hp : p.policy = .MinutesFromMaghribFajrIshaAlways)
    (hzF : nonZero p.intFajr = true) (hzI : nonZero p.intIsha = true)
    (hs : hours.shur = some s) (hm : hours.magh = some m) :
    adjForExtLat p hours env = .ok { hours.toPH with
      fajr := some ⟨s - p.intFajr / Gen.MIN_SEC_PER_HR_MIN, true⟩,
      isha := some ⟨m + p.intIsha / Gen.MIN_SEC_PER_HR_MIN, true⟩ } := by
  have hrf : ∀ x : Option (PH α), readFlag x = some (flagOf x) := fun x => readFlag_eq x C08.flag_read_total
  simp [adjForExtLat, applyPolicy, canAdj, hp, Policy.isNone, Gen.isAlways, Gen.dispatch, adjMinAlways, Hours.toPH,
    hs, hm, adjForInt, Gen.intExcluded, intFajrStep, intIshaStep, hzF, hzI, hrf, flagOf, PH.conv]

/-- **minutes from Maghrib (only if invalid)** on a day where both twilights are missing -/
theorem minutes_invalid (p : Params α) (hours : Hours α) (env : Env α) (s m : α)
    (hp : p.policy = .MinutesFromMaghribFajrIshaInvalid)
    (hf : hours.fajr = none) (hi : hours.isha = none) (hs : hours.shur = some s) (hm : hours.magh = some m) :
    adjForExtLat p hours env = .ok { hours.toPH with
      fajr := some ⟨s - p.intFajr / Gen.MIN_SEC_PER_HR_MIN, true⟩,
      isha := some ⟨m + p.intIsha / Gen.MIN_SEC_PER_HR_MIN, true⟩ } := by
  simp [adjForExtLat, applyPolicy, canAdj, hp, Policy.isNone, PHours.hasInv, Gen.dispatch, adjMinInv, Hours.toPH,
    hf, hi, hs, hm, adjForInt, Gen.intExcluded, PH.conv]

/-- **an Isha that the method defines by an interval keeps that definition** under every
    policy the interval pass does not skip: Isha = (policy's Maghrib) + interval (the Fajr half,
    Fajr = (policy's Shurooq) − interval, and both together are Thm C12 `isha_fajr_interval`); and **every replaced value is flagged extreme** — Thm C08
    `unflagged_is_conventional`.  Re-exported here for the record. -/
theorem interval_definition_kept (p : Params α) (hours : Hours α) (env : Env α) (h1 r : PHours α)
    (hE : ¬ Gen.intExcluded p.policy = true) (hz : nonZero p.intIsha = true)
    (hap : applyPolicy p hours.toPH env = .ok h1) (hr : adjForExtLat p hours env = .ok r) :
    r.isha = h1.magh.map fun (x : PH α) => ⟨x.value + p.intIsha / Gen.MIN_SEC_PER_HR_MIN, flagOf h1.isha⟩ := by
  unfold adjForExtLat at hr
  rw [hap] at hr
  obtain ⟨_, hi⟩ := adjForInt_out p h1 r C08.flag_read_total hr
  rw [hi, intIshaOut_active p h1 hE (by simp [hz])]

-- non-vacuity: the angle-based method tables have no intervals
example : NoIntervals (paramsNew .Mwl : Params Float) := by
  constructor <;> simp [paramsNew, nonZero, Gen.methodRow] <;> rfl

end IPT.C10
