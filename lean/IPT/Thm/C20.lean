import IPT.Model.Times
import IPT.Lemmas.Angle
import IPT.Thm.C13
import Mathlib.Tactic.FieldSimp
import Mathlib.Tactic.NormNum
/-
  C20 — clock times are consistent across time zones and meridians (PARTIAL).
  Proved over ℝ: the zone offset enters only the Julian Day of local midnight, linearly (Thm C13);
  longitude enters the transit fraction, every hour angle and the parallax hour angle only through
  (sidereal time + longitude): KERNEL LEMMAS about the formulas - `hours_lon_sid_invariant` edits the
  sidereal time of the record by hand; no pair of real inputs produces exactly that record (a real
  15°/1 h move changes the sidereal time by 15.04° and the Sun's coordinates of all three days), and
  the statement stops at `getHours` (no policy layer, no rounding).  What remains — the Sun's own motion during the shifted interval
  (sidereal time at local midnight changes by 15.04°, not 15°, per hour) — is the 10 s of the
  property and is decided by the falsifier.
-/
namespace IPT.C20
open IPT IPT.AngleLemmas

/-- the zone offset moves the Julian Day of local midnight by exactly −d/24 (Thm C13 `jd_gmt_linear`,
    restated).  That the offset enters nowhere else is `gmt_only_through_jd`. -/
theorem gmt_enters_only_jd (dt : Date) (g d : ℝ) (h : C13.GregorianDate dt) :
    jdValue dt (g + d) = jdValue dt g - d / 24 := C13.jd_gmt_linear dt g d h

section factor
variable {α : Type} [Add α] [Sub α] [Mul α] [Div α] [Neg α] [OfScientific α] [Sc α]

/-- the whole computation of a day, as a function of the parameters, the coordinates, the weather and
    the Julian Day object of local midnight - no zone offset among its arguments -/
def timesAtJd (p : Params α) (c : Coords α) (w : Option (Weather α)) (jd : JD α) : Except Panic DayTimes :=
  let w := w.getD defaultWeather
  let t := topFromJd jd c
  match getHoursAdjExt p t w with
  | .error e => .error e
  | .ok h => assemble p h (getImsaak p t w)

/-- **the zone offset enters the result only through the Julian Day of local midnight** (the object
    `JD.new date gmt`, from which the neighbouring days of the searches are stepped): every scalar type -/
theorem gmt_only_through_jd (p : Params α) (loc : Location α) (rd : Int) (w : Option (Weather α)) :
    prayerTimesDt p loc rd w = timesAtJd p loc.coords w (JD.new rd loc.gmt) := rfl

end factor

/-- two angles in (-180°, 180°] that differ by a whole number of turns are equal -/
theorem unique_rep (a b : ℝ) (n : ℤ) (ha : -180 < a ∧ a ≤ 180) (hb : -180 < b ∧ b ≤ 180)
    (h : a - b = 360 * (n : ℝ)) : a = b := by
  have h1 : (-1 : ℝ) < n := by nlinarith [ha.1, hb.2]
  have h2 : (n : ℝ) < 1 := by nlinarith [ha.2, hb.1]
  have h1' : (-1 : ℤ) < n := by exact_mod_cast h1
  have h2' : n < (1 : ℤ) := by exact_mod_cast h2
  have : n = 0 := by omega
  subst this
  simp at h; linarith

/-- cap_angle_between_180 is 360°-periodic -/
theorem capBetween180_periodic (y : ℝ) (k : ℤ) : capAngleBetween180 (y + 360 * k) = capAngleBetween180 y := by
  obtain ⟨a1, a2, k1, hk1⟩ := capAngleBetween180_spec (y + 360 * k)
  obtain ⟨b1, b2, k2, hk2⟩ := capAngleBetween180_spec y
  apply unique_rep _ _ (k - k1 + k2) ⟨a1, a2⟩ ⟨b1, b2⟩
  rw [hk1, hk2]; push_cast; ring

/-- **the hour angle depends on longitude and sidereal time only through their sum** -/
theorem hourAngle_lon_sid (sid ra lon x m : ℝ) (d : ℝ × ℝ) :
    hourAngle (sid - x) ra (lon + x) d m = hourAngle sid ra lon d m := by
  unfold hourAngle
  simp only [c_SIDEREAL_RATE, lit_two]
  obtain ⟨_, _, h1⟩ := capAngle360_spec (sid - x + 360985647 / 1000000 * m)
  obtain ⟨_, _, h2⟩ := capAngle360_spec (sid + 360985647 / 1000000 * m)
  rw [h1, h2]
  have := capBetween180_periodic
    (sid + 360985647 / 1000000 * m - 360 * ⌊(sid + 360985647 / 1000000 * m) / 360⌋ + lon - (ra + m * (d.1 + d.2 * m) / 2))
    (⌊(sid + 360985647 / 1000000 * m) / 360⌋ - ⌊(sid - x + 360985647 / 1000000 * m) / 360⌋)
  rw [← this]
  congr 1
  push_cast; ring

/-- the transit fraction likewise -/
theorem transit_lon_sid (ra lon sid x : ℝ) :
    (ra - (lon + x) - (sid - x)) / (Gen.TWO_PI_DEG : ℝ) = (ra - lon - sid) / Gen.TWO_PI_DEG := by
  congr 1; ring

/-- and the local hour angle used by the parallax correction -/
theorem parallax_lon_sid (sid ra lon x : ℝ) : capAngle360 ((sid - x) + (lon + x) - ra) = capAngle360 (sid + lon - ra) := by
  congr 1; ring

/-- the site moved east by x with the (apparent, Greenwich) sidereal time of the day lower by x -/
def shifted (t : TopAstroDay ℝ) (x : ℝ) : TopAstroDay ℝ :=
  { t with coords := { t.coords with lon := t.coords.lon + x }, cur := { t.cur with sid := t.cur.sid - x } }

/-- **all six conventional hours are unchanged** when the site moves east by x and the sidereal
    time at local midnight is lower by x: longitude and sidereal time enter only through their sum
    (what remains of a 15° move with one more hour of zone offset is the 0.04° by which sidereal
    time advances faster than the clock — the property's 10 seconds) -/
theorem hours_lon_sid_invariant (p : Params ℝ) (t : TopAstroDay ℝ) (w : Weather ℝ) (x : ℝ) :
    getHours p (shifted t x) w = getHours p t w := by
  have hm0 : (t.cur.ra - (t.coords.lon + x) - (t.cur.sid - x)) / (Gen.TWO_PI_DEG : ℝ) =
      (t.cur.ra - t.coords.lon - t.cur.sid) / Gen.TWO_PI_DEG := transit_lon_sid _ _ _ _
  have hha : ∀ (d : ℝ × ℝ) (m : ℝ), hourAngle (t.cur.sid - x) t.cur.ra (t.coords.lon + x) d m =
      hourAngle t.cur.sid t.cur.ra t.coords.lon d m := fun d m => hourAngle_lon_sid _ _ _ _ _ _
  simp only [getHours, shurDhuhrMagh, shifted, hm0, hha]

-- non-vacuity: a one-hour zone change on a Gregorian date
example : C13.GregorianDate ⟨2023, 2, 6⟩ := by unfold C13.GregorianDate; decide

/-- the hour angles of this property interpolate the right ascension with the deltas of the
    unwrapped sequence (Thm C13 `ra_wrap_lift`, restated: this property depends on it) -/
theorem ra_wrap_lift (P C N : ℝ) (hC0 : 0 ≤ C) (hC1 : C < 360)
    (hp0 : 0 < C - P) (hp1 : C - P < 10) (hn0 : 0 < N - C) (hn1 : N - C < 10) :
    raInterpDeltas (if P < 0 then P + 360 else P) C (if 360 ≤ N then N - 360 else N) = (N - P, N + P - 2 * C) :=
  C13.ra_wrap_lift P C N hC0 hC1 hp0 hp1 hn0 hn1

end IPT.C20
