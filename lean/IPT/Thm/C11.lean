import IPT.Lemmas.Round
/-
  C11 — rounding follows the selected policy exactly.  Proved over ℝ (the ideal semantics of
  hour_to_time / round_secs): for EVERY real hour the result is the stated function of the
  unrounded h:m:s.  Thresholds (30, 1) and the set of prayers that round under Special/Aggressive
  are re-read from hours.rs by the translator.  Float gap: on doubles within one ulp of a
  second/minute boundary the code and the ideal function may differ (DESIGN §3.3).
-/
namespace IPT.C11
open IPT IPT.RoundLemmas

/-- total minutes of a non-negative hour -/
noncomputable def totMin (x : ℝ) : ℤ := ⌊60 * x⌋
/-- seconds within the minute, 0..59 -/
noncomputable def secOf (x : ℝ) : ℤ := ⌊3600 * x⌋ - 60 * ⌊60 * x⌋

/-- the clock reading of a count of minutes since midnight (wrapping at 24 h) and a second -/
def clock (M S : ℤ) : HMS := ⟨((M / 60) % 24).toNat, (M % 60).toNat, S.toNat⟩

/-- the five prayers (Imsaak is not passed to hour_to_time: it is computed as Fajr) -/
theorem rounded_prayers :
    (Gen.roundedPrayers .Fajr && Gen.roundedPrayers .Dhuhr && Gen.roundedPrayers .Asr &&
     Gen.roundedPrayers .Maghrib && Gen.roundedPrayers .Isha) = true ∧
    Gen.roundedPrayers .Shurooq = false ∧ Gen.roundedPrayers .Imsaak = false := by decide

/-- **the stated function**: what each mode does to the unrounded (M minutes, S seconds) -/
def specTime (r : Round) (pr : Prayer) (M S : ℤ) : HMS :=
  match r with
  | .None => clock M S
  | .NormalRounding => clock (if 30 ≤ S then M + 1 else M) 0
  | .SpecialRounding => if Gen.roundedPrayers pr then clock (if 30 ≤ S then M + 1 else M) 0 else clock M 0
  | .AggressiveRounding => if Gen.roundedPrayers pr then clock (if 1 ≤ S then M + 1 else M) 0 else clock M 0

theorem clock_valid (M S : ℤ) (hM : 0 ≤ M) (hS0 : 0 ≤ S) (hS : S ≤ 59) :
    (clock M S).h < 24 ∧ (clock M S).m < 60 ∧ (clock M S).s < 60 := by
  simp only [clock]; omega

/-- conversion of a non-negative hour (after the wrap loop) -/
theorem convert_spec (p : Params ℝ) (pr : Prayer) (x : ℝ) (h0 : 0 ≤ x) (h1 : x < 3999999999) :
    convertHour p pr x =
      .ok (specTime p.round pr (totMin x) (secOf x)) := by
  unfold convertHour
  obtain ⟨hsec, hS0, hS59, hSfl⟩ := second_field x
  have hM0 : 0 ≤ totMin x := Int.floor_nonneg.mpr (by positivity)
  have zero_field : Sc.toU32 (0.0 : ℝ) = (0 : ℤ).toNat := by simp [lit_zero]
  -- the three shapes
  have keep : hmsOpt (Sc.toU32 (if Sc.leb (Gen.HRS_PER_DAY : ℝ) x then rem24 x else x)) (Sc.toU32 (fracMin x))
      (Sc.toU32 ((fracMin x - Sc.floor (fracMin x)) * Gen.MIN_SEC_PER_HR_MIN)) = .ok (clock (totMin x) (secOf x)) := by
    rw [hour_field x h0 (by linarith), minute_field, hsec]
    have := clock_valid (totMin x) (secOf x) hM0 hS0 hS59
    simp only [clock, totMin, secOf] at this
    simp only [hmsOpt, clock, totMin, secOf]
    rw [if_pos this]
  have dropc : ∀ y : ℝ, 0 ≤ y → y < 4000000000 →
      hmsOpt (Sc.toU32 (if Sc.leb (Gen.HRS_PER_DAY : ℝ) y then rem24 y else y)) (Sc.toU32 (fracMin y))
        (Sc.toU32 (0.0 : ℝ)) = .ok (clock (totMin y) 0) := by
    intro y hy0 hy1
    rw [hour_field y hy0 hy1, minute_field, zero_field]
    have := clock_valid (totMin y) 0 (Int.floor_nonneg.mpr (by positivity)) (le_refl _) (by norm_num)
    simp only [clock, totMin] at this
    simp only [hmsOpt, clock, totMin]
    rw [if_pos this]
  have carry : totMin (x + 1 / 60) = totMin x + 1 := by
    simp only [totMin]
    have : 60 * (x + 1 / 60) = 60 * x + ((1 : ℤ) : ℝ) := by push_cast; ring
    rw [this, Int.floor_add_intCast]
  have roundc : ∀ (cap : ℝ) (c : ℤ), cap = (c : ℝ) →
      (let hms := roundSecs x ((fracMin x - Sc.floor (fracMin x)) * Gen.MIN_SEC_PER_HR_MIN) cap
       hmsOpt (Sc.toU32 (if Sc.leb (Gen.HRS_PER_DAY : ℝ) hms.1 then rem24 hms.1 else hms.1)) (Sc.toU32 hms.2.1)
         (Sc.toU32 hms.2.2)) = .ok (clock (if c ≤ secOf x then totMin x + 1 else totMin x) 0) := by
    intro cap c hc
    simp only [roundSecs, sc_leb, c_MIN_SEC, lit_one]
    have hiff : cap ≤ (fracMin x - Sc.floor (fracMin x)) * 60 ↔ c ≤ secOf x := by
      rw [hc, ← Int.le_floor]
      have := hSfl; simp only [c_MIN_SEC] at this
      rw [this]; rfl
    by_cases hcs : c ≤ secOf x
    · have : cap ≤ (fracMin x - Sc.floor (fracMin x)) * 60 := hiff.mpr hcs
      simp only [this, decide_true, if_true, hcs]
      have := dropc (x + 1 / 60) (by positivity) (by linarith)
      simp only [sc_leb, c_HRS_PER_DAY] at this ⊢
      rw [this, carry]
    · have : ¬ cap ≤ (fracMin x - Sc.floor (fracMin x)) * 60 := fun h => hcs (hiff.mp h)
      simp only [this, decide_false, Bool.false_eq_true, if_false, hcs]
      have := dropc x h0 (by linarith)
      simp only [sc_leb, c_HRS_PER_DAY] at this ⊢
      exact this
  have r30 := roundc Gen.DEF_ROUND_SEC 30 (by rw [c_DEF_ROUND_SEC]; norm_num)
  have r1 := roundc Gen.AGGRESSIVE_ROUND_SEC 1 (by rw [c_AGGRESSIVE_ROUND_SEC]; norm_num)
  have dx := dropc x h0 (by linarith)
  cases hr : p.round <;> simp only [roundAct, specTime, hr]
  · exact keep
  · exact r30
  · by_cases hp : Gen.roundedPrayers pr = true
    · simp only [hp, if_true]; exact r30
    · simp only [hp, if_false]; exact dx
  · by_cases hp : Gen.roundedPrayers pr = true
    · simp only [hp, if_true]; exact r1
    · simp only [hp, if_false]; exact dx

/-- **C11 (and the ℝ half of C07)**: for every real hour and minute offset the conversion
    succeeds — the wrap loop terminates within its fuel, h < 24, m < 60, s < 60 — and yields the
    stated function of the unrounded time `x` = hour + offset wrapped into the day. -/
theorem hourToTime_spec (p : Params ℝ) (pr : Prayer) (hour : ℝ)
    (hlo : -2400000 ≤ hour + p.minutes pr / 60) (hhi : hour + p.minutes pr / 60 < 3999999999) :
    ∃ k : ℕ, 0 ≤ hour + p.minutes pr / 60 + 24 * k ∧
      (0 ≤ hour + p.minutes pr / 60 → k = 0) ∧
      (hour + p.minutes pr / 60 < 0 → hour + p.minutes pr / 60 + 24 * k < 24) ∧
      hourToTime p pr hour = .ok (specTime p.round pr (totMin (hour + p.minutes pr / 60 + 24 * k))
        (secOf (hour + p.minutes pr / 60 + 24 * k))) := by
  have hfuel : -(24 : ℝ) * (wrapFuel : ℕ) ≤ hour + p.minutes pr / 60 := by
    simp only [wrapFuel]; push_cast; linarith
  obtain ⟨k, _, e, h0, hk0, hk24⟩ := wrapNeg_spec wrapFuel _ hfuel
  refine ⟨k, h0, hk0, hk24, ?_⟩
  unfold hourToTime
  simp only [c_MIN_SEC, e]
  have hx1 : hour + p.minutes pr / 60 + 24 * k < 3999999999 := by
    by_cases hneg : hour + p.minutes pr / 60 < 0
    · have := hk24 hneg; linarith
    · have := hk0 (not_lt.mp hneg); subst this; simpa using hhi
  exact convert_spec p pr _ h0 hx1

/-- corollary used by C07: every conversion succeeds -/
theorem hourToTime_ok (p : Params ℝ) (pr : Prayer) (hour : ℝ)
    (hlo : -2400000 ≤ hour + p.minutes pr / 60) (hhi : hour + p.minutes pr / 60 < 3999999999) :
    ∃ t, hourToTime p pr hour = .ok t := by
  obtain ⟨k, _, _, _, h⟩ := hourToTime_spec p pr hour hlo hhi
  exact ⟨_, h⟩

/-- no rounding keeps the truncated second -/
theorem none_is_truncation (pr : Prayer) (M S : ℤ) : specTime .None pr M S = clock M S := rfl

/-- a rounded time never moves by a minute or more: it is the minute of the unrounded time or the next one -/
theorem moves_lt_minute (r : Round) (pr : Prayer) (M S : ℤ) (hr : r ≠ .None) :
    specTime r pr M S = clock M 0 ∨ specTime r pr M S = clock (M + 1) 0 := by
  cases r <;> simp only [specTime] at * <;> (try contradiction) <;> (repeat' split) <;> simp

/-- carries propagate through the hour and through midnight: 23:59 + 1 minute is 00:00 -/
theorem carry_midnight : clock (23 * 60 + 59 + 1) 0 = ⟨0, 0, 0⟩ ∧ clock (7 * 60 + 59 + 1) 0 = ⟨8, 0, 0⟩ := by
  decide

/-- **validity and the extreme flag are unaffected by rounding**, for every scalar type: an
    invalid entry stays invalid, a valid one keeps exactly its flag (the conversion only produces
    the clock reading) -/
theorem rounding_keeps_validity_and_flag {α : Type} [Add α] [Sub α] [Mul α] [Div α] [Neg α] [OfScientific α] [Sc α]
    (p : Params α) (pr : Prayer) (o : Option (PH α)) (r : Option PT) (h : optTime p pr o = .ok r) :
    (o = none ↔ r = none) ∧ (∀ ph t, o = some ph → r = some t → t.extreme = ph.extreme) := by
  cases o with
  | none => simp [optTime] at h; subst h; simp
  | some ph =>
    simp only [optTime, toPrayerTime] at h
    split at h
    · simp at h
    · rename_i t ht
      split at ht
      · simp at ht
      · simp only [Except.ok.injEq] at ht h; subst ht; subst h
        refine ⟨by simp, ?_⟩
        intro ph' t' e1 e2
        simp only [Option.some.injEq] at e1 e2; subst e1; subst e2; rfl

-- non-vacuity: 23:59:45 under the three rounding modes for Isha and Shurooq
example : specTime .NormalRounding .Isha 1439 45 = ⟨0, 0, 0⟩ := by decide
example : specTime .SpecialRounding .Shurooq 1439 45 = ⟨23, 59, 0⟩ := by decide
example : specTime .AggressiveRounding .Isha 1439 1 = ⟨0, 0, 0⟩ := by decide
example : specTime .None .Isha 1439 45 = ⟨23, 59, 45⟩ := by decide

end IPT.C11
