import IPT.Thm.C05
import IPT.Thm.C06
import IPT.Thm.C12
import IPT.Thm.C13
import IPT.Lemmas.Angle
/-
  C02 — Shurooq and Maghrib are sunrise and sunset of the Sun's upper limb (PARTIAL).
  Proved: the altitude constant is −0.8333° within 10⁻³; the first approximation of rise/set is the
  hour angle at which the Sun's centre (under the date's declination) is exactly at that altitude,
  a positive fraction of a day before resp. after transit; weather reaches only Shurooq/Maghrib,
  never their validity, and absent weather is the default weather (every scalar type).
  NOT proved: the size of the Newton correction and of the refraction term (needs bounds on the
  ephemeris envelope), and agreement with the sky — decided by the falsifier (0.05°).
-/
namespace IPT.C02
open IPT IPT.TrigLemmas Real

/-- h₀: geometric altitude of the Sun's centre when its upper limb is on the refracted horizon -/
theorem center_of_sun_angle : |(Gen.CENTER_OF_SUN_ANGLE : ℝ) + 0.8333| ≤ 1 / 1000 := by
  rw [c_CENTER_OF_SUN_ANGLE, abs_le]; constructor <;> norm_num

/-- **first approximation**: the rise/set offset is H₀/360 of a day with
    sin φ sin δ + cos φ cos δ cos H₀ = sin h₀, 0 < H₀ < 180° -/
theorem riseset_first_approx_altitude (lat dec adj : ℝ)
    (hk : Real.cos (toRadians lat) * Real.cos (toRadians dec) ≠ 0)
    (h : shurMaghM0Adj lat dec = some adj)
    (hr : (Real.sin (toRadians (Gen.CENTER_OF_SUN_ANGLE : ℝ)) - Real.sin (toRadians lat) * Real.sin (toRadians dec)) /
      (Real.cos (toRadians lat) * Real.cos (toRadians dec)) < 1)
    (hr' : -1 < (Real.sin (toRadians (Gen.CENTER_OF_SUN_ANGLE : ℝ)) - Real.sin (toRadians lat) * Real.sin (toRadians dec)) /
      (Real.cos (toRadians lat) * Real.cos (toRadians dec))) :
    Real.sin (toRadians lat) * Real.sin (toRadians dec) +
      Real.cos (toRadians lat) * Real.cos (toRadians dec) * Real.cos (toRadians (360 * adj)) =
        Real.sin (toRadians (Gen.CENTER_OF_SUN_ANGLE : ℝ)) ∧ 0 < adj ∧ adj < 1 / 2 := by
  obtain ⟨p0, p1⟩ := C05.riseset_offset_pos_partial lat dec adj h hr hr'
  refine ⟨?_, p0, p1⟩
  -- re-derive adj = toDegrees (arccos r) / 360
  unfold shurMaghM0Adj at h
  simp only [sc_sin, sc_cos, sc_acos] at h
  split at h <;> [skip; simp at h]
  simp only [Option.some.injEq] at h
  set r := (Real.sin (toRadians (Gen.CENTER_OF_SUN_ANGLE : ℝ)) - Real.sin (toRadians lat) * Real.sin (toRadians dec)) /
      (Real.cos (toRadians lat) * Real.cos (toRadians dec)) with hrdef
  have h0 : 0 < toDegrees (Real.arccos r) := toDegrees_pos (Real.arccos_pos.mpr hr)
  have h180 : toDegrees (Real.arccos r) < 180 := by
    rw [toDegrees_real]
    have : Real.arccos r < Real.pi := by
      rw [← Real.arccos_neg_one]
      exact Real.strictAntiOn_arccos ⟨le_refl _, by norm_num⟩ ⟨hr'.le, hr.le⟩ hr'
    have hp := Real.pi_pos
    rw [mul_div_assoc', div_lt_iff₀ hp]; nlinarith
  have hcap : capAngle180 (toDegrees (Real.arccos r)) = toDegrees (Real.arccos r) := by
    set y := toDegrees (Real.arccos r)
    simp only [capAngle180, capAngle, c_PI_DEG, sc_floor, sc_ltb, lit_zero]
    have hfl : ⌊y / 180⌋ = 0 := by
      rw [Int.floor_eq_iff]; constructor
      · simp; positivity
      · simp; rw [div_lt_one (by norm_num)]; exact h180
    simp only [hfl, Int.cast_zero, sub_zero]
    have : 0 < y / 180 := by positivity
    simp only [this, decide_true, if_true]
    field_simp
  rw [hcap, c_TWO_PI_DEG] at h
  have e : 360 * adj = toDegrees (Real.arccos r) := by rw [← h]; field_simp
  rw [e, toRadians_toDegrees]
  exact altitude_eq _ _ _ hk hr'.le hr.le

/-- **the day fractions the rise and set are solved from lie in the requested date** (arithmetic
    half; `riseset_start_from_day_fractions` below binds it to the model): the approximate
    fractions of the day at which it evaluates the Sun (and from which the one-step correction
    starts) are the mean-transit fraction minus / plus the semi-diurnal arc, each reduced into
    [0, 1) on its own - they differ from m₀ ∓ H₀/360 by a whole number of days and lie within the
    civil day.  (Seed C02f took them from the already reduced transit fraction without their own
    reduction: fractions outside [0,1), i.e. the previous day's sunrise.) -/
theorem riseset_fractions_of_the_day (m0 adj : ℝ) :
    (0 ≤ capAngle1 (m0 - adj) ∧ capAngle1 (m0 - adj) < 1 ∧ ∃ k : ℤ, capAngle1 (m0 - adj) = m0 - adj - k) ∧
    (0 ≤ capAngle1 (m0 + adj) ∧ capAngle1 (m0 + adj) < 1 ∧ ∃ k : ℤ, capAngle1 (m0 + adj) = m0 + adj - k) := by
  obtain ⟨a1, a2, a3⟩ := IPT.AngleLemmas.capAngle1_spec (m0 - adj)
  obtain ⟨b1, b2, b3⟩ := IPT.AngleLemmas.capAngle1_spec (m0 + adj)
  exact ⟨⟨a1, a2, ⌊m0 - adj⌋, a3⟩, ⟨b1, b2, ⌊m0 + adj⌋, b3⟩⟩

variable {α : Type} [Add α] [Sub α] [Mul α] [Div α] [Neg α] [OfScientific α] [Sc α]

/-- **the rise and set the model solves for start from those day fractions**: when the rise/set hour
    angle exists, Shurooq (Maghrib) is `shurMagh` evaluated at `capAngle1 (m₀ − H₀/360)`
    (`capAngle1 (m₀ + H₀/360)`) and at the hour angle interpolated at that same fraction - the
    fractions `riseset_fractions_of_the_day` places in [0, 1).  Every scalar type.  (Dropping the two
    reductions from the model, as seed C02f did to the code, makes this theorem false.) -/
theorem riseset_start_from_day_fractions (t : TopAstroDay α) (w : Weather α) (adj : α)
    (h : shurMaghM0Adj t.coords.lat t.cur.dec = some adj) :
    let m0 := (t.cur.ra - t.coords.lon - t.cur.sid) / Gen.TWO_PI_DEG
    let rd := raInterpDeltas t.prev.ra t.cur.ra t.next.ra
    let dd := decInterpDeltas t.prev.dec t.cur.dec t.next.dec
    (shurDhuhrMagh t w).1 = some (shurMagh t.coords.lat t.cur.dec t.cur.dra w dd (capAngle1 (m0 - adj))
      (hourAngle t.cur.sid t.cur.ra t.coords.lon rd (capAngle1 (m0 - adj)))) ∧
    (shurDhuhrMagh t w).2.2 = some (shurMagh t.coords.lat t.cur.dec t.cur.dra w dd (capAngle1 (m0 + adj))
      (hourAngle t.cur.sid t.cur.ra t.coords.lon rd (capAngle1 (m0 + adj)))) := by
  simp [shurDhuhrMagh, h]

/-- **weather never moves a time that is not Shurooq or Maghrib, nor changes whether they exist** —
    every scalar type (that absent weather is the default weather is Thm C12 `weather_none_is_default`) -/
theorem weather_scope (p : Params α) (t : TopAstroDay α) (w w' : Weather α) :
    (getHours p t w').fajr = (getHours p t w).fajr ∧ (getHours p t w').dhuhr = (getHours p t w).dhuhr ∧
    (getHours p t w').asr = (getHours p t w).asr ∧ (getHours p t w').isha = (getHours p t w).isha ∧
    (getHours p t w').shur.isSome = (getHours p t w).shur.isSome ∧
    (getHours p t w').magh.isSome = (getHours p t w).magh.isSome := by
  obtain ⟨a, b, c, d⟩ := C12.weather_only_riseset p t w w'
  obtain ⟨e, f⟩ := C12.weather_keeps_validity p t w w'
  exact ⟨a, b, c, d, e, f⟩

/-- weather enters only through the refraction term, which multiplies by pressure/1010 · 283/(273+T) -/
theorem refraction_is_only_use (w : Weather ℝ) (alt : ℝ) :
    refraction w alt = w.pressure / 1010 * (283 / (273 + w.temperature)) *
      (1.02 / (toDegrees (Real.tan (toRadians (alt + 10.3 / (alt + 5.11)))) + 0.0019279)) / 60 := by
  simp only [refraction, sc_tan]; norm_num

/-- the hour angles of this property interpolate the right ascension with the deltas of the
    unwrapped sequence (Thm C13 `ra_wrap_lift`, restated: this property depends on it) -/
theorem ra_wrap_lift (P C N : ℝ) (hC0 : 0 ≤ C) (hC1 : C < 360)
    (hp0 : 0 < C - P) (hp1 : C - P < 10) (hn0 : 0 < N - C) (hn1 : N - C < 10) :
    raInterpDeltas (if P < 0 then P + 360 else P) C (if 360 ≤ N then N - 360 else N) = (N - P, N + P - 2 * C) :=
  C13.ra_wrap_lift P C N hC0 hC1 hp0 hp1 hn0 hn1

end IPT.C02
