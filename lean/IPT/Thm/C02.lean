import IPT.Thm.C05
import IPT.Thm.C06
import IPT.Thm.C12
import IPT.Thm.C13
import IPT.Lemmas.Angle
/-
  C02 — Shurooq and Maghrib are sunrise and sunset of the Sun's upper limb (PARTIAL).
  Proved: the altitude constant is −0.8333° within 10⁻³; the first approximation of rise/set is the
  hour angle at which the Sun's centre (under the date's declination) is exactly at that altitude,
  a positive fraction of a day before resp. after transit; weather reaches only Shurooq/Maghrib,
  never their validity, and absent weather is the default weather (every scalar type).
  NOT proved: the size of the Newton correction and of the refraction term (needs bounds on the
  ephemeris envelope), and agreement with the sky — decided by the falsifier (0.05°).
-/
namespace IPT.C02
open IPT IPT.TrigLemmas Real

/-- h₀: geometric altitude of the Sun's centre when its upper limb is on the refracted horizon -/
theorem center_of_sun_angle : |(Gen.CENTER_OF_SUN_ANGLE : ℝ) + 0.8333| ≤ 1 / 1000 := by
  rw [c_CENTER_OF_SUN_ANGLE, abs_le]; constructor <;> norm_num

/-- **first approximation**: the rise/set offset is H₀/360 of a day with
    sin φ sin δ + cos φ cos δ cos H₀ = sin h₀, 0 < H₀ < 180° -/
theorem riseset_first_approx_altitude (lat dec adj : ℝ)
    (hk : Real.cos (toRadians lat) * Real.cos (toRadians dec) ≠ 0)
    (h : shurMaghM0Adj lat dec = some adj)
    (hr : (Real.sin (toRadians (Gen.CENTER_OF_SUN_ANGLE : ℝ)) - Real.sin (toRadians lat) * Real.sin (toRadians dec)) /
      (Real.cos (toRadians lat) * Real.cos (toRadians dec)) < 1)
    (hr' : -1 < (Real.sin (toRadians (Gen.CENTER_OF_SUN_ANGLE : ℝ)) - Real.sin (toRadians lat) * Real.sin (toRadians dec)) /
      (Real.cos (toRadians lat) * Real.cos (toRadians dec))) :
    Real.sin (toRadians lat) * Real.sin (toRadians dec) +
      Real.cos (toRadians lat) * Real.cos (toRadians dec) * Real.cos (toRadians (360 * adj)) =
        Real.sin (toRadians (Gen.CENTER_OF_SUN_ANGLE : ℝ)) ∧ 0 < adj ∧ adj < 1 / 2 := by
  obtain ⟨p0, p1⟩ := C05.riseset_offset_pos_partial lat dec adj h hr hr'
  refine ⟨?_, p0, p1⟩
  -- re-derive adj = toDegrees (arccos r) / 360
  unfold shurMaghM0Adj at h
  simp only [sc_sin, sc_cos, sc_acos] at h
  split at h <;> [skip; simp at h]
  simp only [Option.some.injEq] at h
  set r := (Real.sin (toRadians (Gen.CENTER_OF_SUN_ANGLE : ℝ)) - Real.sin (toRadians lat) * Real.sin (toRadians dec)) /
      (Real.cos (toRadians lat) * Real.cos (toRadians dec)) with hrdef
  have h0 : 0 < toDegrees (Real.arccos r) := toDegrees_pos (Real.arccos_pos.mpr hr)
  have h180 : toDegrees (Real.arccos r) < 180 := by
    rw [toDegrees_real]
    have : Real.arccos r < Real.pi := by
      rw [← Real.arccos_neg_one]
      exact Real.strictAntiOn_arccos ⟨le_refl _, by norm_num⟩ ⟨hr'.le, hr.le⟩ hr'
    have hp := Real.pi_pos
    rw [mul_div_assoc', div_lt_iff₀ hp]; nlinarith
  have hcap : capAngle180 (toDegrees (Real.arccos r)) = toDegrees (Real.arccos r) := by
    set y := toDegrees (Real.arccos r)
    simp only [capAngle180, capAngle, c_PI_DEG, sc_floor, sc_ltb, lit_zero]
    have hfl : ⌊y / 180⌋ = 0 := by
      rw [Int.floor_eq_iff]; constructor
      · simp; positivity
      · simp; rw [div_lt_one (by norm_num)]; exact h180
    simp only [hfl, Int.cast_zero, sub_zero]
    have : 0 < y / 180 := by positivity
    simp only [this, decide_true, if_true]
    field_simp
  rw [hcap, c_TWO_PI_DEG] at h
  have e : 360 * adj = toDegrees (Real.arccos r) := by rw [← h]; field_simp
  rw [e, toRadians_toDegrees]
  exact altitude_eq _ _ _ hk hr'.le hr.le

/-- **the day fractions the rise and set are solved from lie in the requested date** (arithmetic
    half; `riseset_start_from_day_fractions` below binds it to the model): the approximate
    fractions of the day at which it evaluates the Sun (and from which the one-step correction
    starts) are the mean-transit fraction minus / plus the semi-diurnal arc, each reduced into
    [0, 1) on its own - they differ from m₀ ∓ H₀/360 by a whole number of days and lie within the
    civil day.  (Seed C02f took them from the already reduced transit fraction without their own
    reduction: fractions outside [0,1), i.e. the previous day's sunrise.) -/
theorem riseset_fractions_of_the_day (m0 adj : ℝ) :
    (0 ≤ capAngle1 (m0 - adj) ∧ capAngle1 (m0 - adj) < 1 ∧ ∃ k : ℤ, capAngle1 (m0 - adj) = m0 - adj - k) ∧
    (0 ≤ capAngle1 (m0 + adj) ∧ capAngle1 (m0 + adj) < 1 ∧ ∃ k : ℤ, capAngle1 (m0 + adj) = m0 + adj - k) := by
  obtain ⟨a1, a2, a3⟩ := IPT.AngleLemmas.capAngle1_spec (m0 - adj)
  obtain ⟨b1, b2, b3⟩ := IPT.AngleLemmas.capAngle1_spec (m0 + adj)
  exact ⟨⟨a1, a2, ⌊m0 - adj⌋, a3⟩, ⟨b1, b2, ⌊m0 + adj⌋, b3⟩⟩

variable {α : Type} [Add α] [Sub α] [Mul α] [Div α] [Neg α] [OfScientific α] [Sc α]

/-- **the rise and set the model solves for start from those day fractions**: when the rise/set hour
    angle exists, Shurooq (Maghrib) is `shurMagh` evaluated at `capAngle1 (m₀ − H₀/360)`
    (`capAngle1 (m₀ + H₀/360)`) and at the hour angle interpolated at that same fraction - the
    fractions `riseset_fractions_of_the_day` places in [0, 1).  Every scalar type.  (Dropping the two
    reductions from the model, as seed C02f did to the code, makes this theorem false.) -/
theorem riseset_start_from_day_fractions (t : TopAstroDay α) (w : Weather α) (adj : α)
    (h : shurMaghM0Adj t.coords.lat t.cur.dec = some adj) :
    let m0 := (t.cur.ra - t.coords.lon - t.cur.sid) / Gen.TWO_PI_DEG
    let rd := raInterpDeltas t.prev.ra t.cur.ra t.next.ra
    let dd := decInterpDeltas t.prev.dec t.cur.dec t.next.dec
    (shurDhuhrMagh t w).1 = some (shurMagh t.coords.lat t.cur.dec t.cur.dra w dd (capAngle1 (m0 - adj))
      (hourAngle t.cur.sid t.cur.ra t.coords.lon rd (capAngle1 (m0 - adj)))) ∧
    (shurDhuhrMagh t w).2.2 = some (shurMagh t.coords.lat t.cur.dec t.cur.dra w dd (capAngle1 (m0 + adj))
      (hourAngle t.cur.sid t.cur.ra t.coords.lon rd (capAngle1 (m0 + adj)))) := by
  simp [shurDhuhrMagh, h]

/-- **weather never moves a time that is not Shurooq or Maghrib, nor changes whether they exist** —
    every scalar type (that absent weather is the default weather is Thm C12 `weather_none_is_default`) -/
theorem weather_scope (p : Params α) (t : TopAstroDay α) (w w' : Weather α) :
    (getHours p t w').fajr = (getHours p t w).fajr ∧ (getHours p t w').dhuhr = (getHours p t w).dhuhr ∧
    (getHours p t w').asr = (getHours p t w).asr ∧ (getHours p t w').isha = (getHours p t w).isha ∧
    (getHours p t w').shur.isSome = (getHours p t w).shur.isSome ∧
    (getHours p t w').magh.isSome = (getHours p t w).magh.isSome := by
  obtain ⟨a, b, c, d⟩ := C12.weather_only_riseset p t w w'
  obtain ⟨e, f⟩ := C12.weather_keeps_validity p t w w'
  exact ⟨a, b, c, d, e, f⟩

/-- weather enters only through the refraction term, which multiplies by pressure/1010 · 283/(273+T) -/
theorem refraction_is_only_use (w : Weather ℝ) (alt : ℝ) :
    refraction w alt = w.pressure / 1010 * (283 / (273 + w.temperature)) *
      (1.02 / (toDegrees (Real.tan (toRadians (alt + 10.3 / (alt + 5.11)))) + 0.0019279)) / 60 := by
  simp only [refraction, sc_tan]; norm_num


/-! ### The weather effect on rise/set, exactly -/

/-- the factor by which weather scales the refraction: pressure/1010 · 283/(273+T) -/
noncomputable def weatherFactor (w : Weather ℝ) : ℝ := w.pressure / 1010.0 * (283.0 / (273.0 + w.temperature))

/-- the refraction (degrees) at unit factor: a function of the altitude only -/
noncomputable def refr1 (alt : ℝ) : ℝ :=
  1.02 / (toDegrees (Sc.tan (toRadians (alt + (10.3 / (alt + 5.11))))) + 0.0019279) / 60.0

/-- the geometric altitude `get_shur_magh` evaluates at day fraction m and hour angle H (weather-free) -/
noncomputable def altAt (lat dec dra : ℝ) (dd : ℝ × ℝ) (m H : ℝ) : ℝ :=
  toDegrees (Sc.asin (Sc.sin (toRadians lat) * Sc.sin (toRadians (dec + m * (dd.1 + dd.2 * m) / 2.0))
    + Sc.cos (toRadians lat) * Sc.cos (toRadians (dec + m * (dd.1 + dd.2 * m) / 2.0)) * Sc.cos (toRadians H - dra)))

/-- the denominator of the correction step: 360 · cos δ · cos φ · sin H -/
noncomputable def denomAt (lat dec dra : ℝ) (dd : ℝ × ℝ) (m H : ℝ) : ℝ :=
  Gen.TWO_PI_DEG * Sc.cos (toRadians (dec + m * (dd.1 + dd.2 * m) / 2.0)) * Sc.cos (toRadians lat) *
    Sc.sin (toRadians H - dra)

theorem refraction_factor (w : Weather ℝ) (alt : ℝ) : refraction w alt = weatherFactor w * refr1 alt := by
  simp only [refraction, weatherFactor, refr1]; rw [mul_div_assoc]

/-- `get_shur_magh` in closed form: 24·(m + (alt₀ + μ(w)·ρ(alt₀) − h₀)/D) - weather enters through the
    single factor μ(w), linearly -/
theorem shurMagh_closed (lat dec dra : ℝ) (w : Weather ℝ) (dd : ℝ × ℝ) (m H : ℝ) :
    shurMagh lat dec dra w dd m H = Gen.HRS_PER_DAY * (m +
      (altAt lat dec dra dd m H + weatherFactor w * refr1 (altAt lat dec dra dd m H) - Gen.CENTER_OF_SUN_ANGLE) /
        denomAt lat dec dra dd m H) := by
  simp only [shurMagh, altAt, denomAt, refraction_factor]

/-- **the exact weather effect**: the rise (set) time under weather w differs from the one under w′ by
    24·(μ(w) − μ(w′))·ρ(alt₀)/D hours, where alt₀ and D do not depend on the weather - for every
    latitude, declination, day fraction and hour angle -/
theorem weather_shift_exact (lat dec dra : ℝ) (w w' : Weather ℝ) (dd : ℝ × ℝ) (m H : ℝ) :
    shurMagh lat dec dra w dd m H - shurMagh lat dec dra w' dd m H =
      24 * ((weatherFactor w - weatherFactor w') * refr1 (altAt lat dec dra dd m H) / denomAt lat dec dra dd m H) := by
  rw [shurMagh_closed, shurMagh_closed, c_HRS_PER_DAY]; ring

/-- over the valid pressure (100..1050 mbar) and temperature (−90..57 °C) ranges the factor lies in
    [283/3333, 49525/30805] ⊂ (0.0849, 1.6078); the default weather (1010 mbar, 14 °C) gives 283/287 -/
theorem weatherFactor_range (w : Weather ℝ) (hp : 100 ≤ w.pressure ∧ w.pressure ≤ 1050)
    (ht : -90 ≤ w.temperature ∧ w.temperature ≤ 57) :
    283 / 3333 ≤ weatherFactor w ∧ weatherFactor w ≤ 1050 / 1010 * (283 / 183) := by
  unfold weatherFactor
  have e1 : (1010.0 : ℝ) = 1010 := by norm_num
  have e2 : (283.0 : ℝ) = 283 := by norm_num
  have e3 : (273.0 : ℝ) = 273 := by norm_num
  rw [e1, e2, e3]
  obtain ⟨p1, p2⟩ := hp
  obtain ⟨t1, t2⟩ := ht
  have hd : (0 : ℝ) < 273 + w.temperature := by linarith
  have hq1 : 283 / 330 ≤ 283 / (273 + w.temperature) := by
    apply div_le_div_of_nonneg_left (by norm_num) hd (by linarith)
  have hq2 : 283 / (273 + w.temperature) ≤ 283 / 183 := by
    apply div_le_div_of_nonneg_left (by norm_num) (by norm_num) (by linarith)
  have hq0 : (0 : ℝ) ≤ 283 / (273 + w.temperature) := by positivity
  have hp0 : (0 : ℝ) ≤ w.pressure / 1010 := by positivity
  constructor
  · calc (283 : ℝ) / 3333 = 100 / 1010 * (283 / 330) := by norm_num
      _ ≤ w.pressure / 1010 * (283 / 330) := by
          apply mul_le_mul_of_nonneg_right _ (by norm_num); apply div_le_div_of_nonneg_right p1 (by norm_num)
      _ ≤ w.pressure / 1010 * (283 / (273 + w.temperature)) := mul_le_mul_of_nonneg_left hq1 hp0
  · calc w.pressure / 1010 * (283 / (273 + w.temperature)) ≤ w.pressure / 1010 * (283 / 183) :=
          mul_le_mul_of_nonneg_left hq2 hp0
      _ ≤ 1050 / 1010 * (283 / 183) := by
          apply mul_le_mul_of_nonneg_right _ (by norm_num); apply div_le_div_of_nonneg_right p2 (by norm_num)

theorem weatherFactor_default : weatherFactor (defaultWeather : Weather ℝ) = 283 / 287 := by
  simp only [weatherFactor, defaultWeather, Gen.DEF_PRESSURE, Gen.DEF_TEMPERATURE]; norm_num

/-- **"weather moves these two times by seconds only", conditionally**: for two weathers in the valid
    ranges, if the unit refraction at the evaluated altitude is at most ρ degrees and the correction
    denominator is at least D > 0 in absolute value, the rise (set) time moves by at most
    24·1.53·ρ/D hours.  (At the horizon ρ ≈ 0.57° and D = 360·cos δ·cos φ·|sin H| ≥ 360·0.917·0.5·0.6
    for |lat| ≤ 60 away from the existence boundary, which gives ≈ 0.21 h·ρ... the two envelope
    quantities are what no theorem here bounds; the falsifier measures the shift itself, < 60 s.) -/
theorem weather_shift_bound (lat dec dra : ℝ) (w w' : Weather ℝ) (dd : ℝ × ℝ) (m H ρ D : ℝ)
    (hp : 100 ≤ w.pressure ∧ w.pressure ≤ 1050) (ht : -90 ≤ w.temperature ∧ w.temperature ≤ 57)
    (hp' : 100 ≤ w'.pressure ∧ w'.pressure ≤ 1050) (ht' : -90 ≤ w'.temperature ∧ w'.temperature ≤ 57)
    (hρ : |refr1 (altAt lat dec dra dd m H)| ≤ ρ) (hD0 : 0 < D) (hD : D ≤ |denomAt lat dec dra dd m H|) :
    |shurMagh lat dec dra w dd m H - shurMagh lat dec dra w' dd m H| ≤ 24 * (1.53 * ρ / D) := by
  rw [weather_shift_exact]
  obtain ⟨a1, a2⟩ := weatherFactor_range w hp ht
  obtain ⟨b1, b2⟩ := weatherFactor_range w' hp' ht'
  have hμ : |weatherFactor w - weatherFactor w'| ≤ 1.53 := by
    rw [abs_le]; constructor <;> norm_num at a1 a2 b1 b2 ⊢ <;> linarith
  have hρ0 : 0 ≤ ρ := le_trans (abs_nonneg _) hρ
  have hden : 0 < |denomAt lat dec dra dd m H| := lt_of_lt_of_le hD0 hD
  rw [abs_mul, abs_div, abs_mul]
  have h24 : |(24 : ℝ)| = 24 := by norm_num
  rw [h24]
  apply mul_le_mul_of_nonneg_left _ (by norm_num)
  rw [div_le_div_iff₀ hden hD0]
  calc |weatherFactor w - weatherFactor w'| * |refr1 (altAt lat dec dra dd m H)| * D
      ≤ 1.53 * ρ * D := by
        apply mul_le_mul_of_nonneg_right _ hD0.le
        exact mul_le_mul hμ hρ (abs_nonneg _) (by norm_num)
    _ ≤ 1.53 * ρ * |denomAt lat dec dra dd m H| := by
        apply mul_le_mul_of_nonneg_left hD (by positivity)

-- non-vacuity: the default weather and the corners of the valid box meet the range hypotheses
example : (100 : ℝ) ≤ (⟨1010, 10⟩ : Weather ℝ).pressure ∧ (⟨1010, 10⟩ : Weather ℝ).pressure ≤ 1050 := by
  constructor <;> norm_num


/-! ### Shurooq before, Maghrib after the same day's noon: exact offsets -/

/-- **the signed offsets of Shurooq and Maghrib from Dhuhr, exactly**: with m_s, m_m the day
    fractions the rise and set are solved at, S − 24·m_s and M − 24·m_m their one-step corrections
    (hours) and H_d the hour angle at the mean-transit fraction (Dhuhr's own correction),
    `S − D = 24·(−adj + k₁) + (S − 24·m_s) + 24·H_d/360` and
    `M − D = 24·(+adj + k₂) + (M − 24·m_m) + 24·H_d/360` for whole numbers of days k₁, k₂ -
    the semi-diurnal arc adj = H₀/360 before resp. after noon, plus the corrections, modulo days. -/
theorem riseset_offsets_exact (t : TopAstroDay ℝ) (w : Weather ℝ) (adj : ℝ)
    (h : shurMaghM0Adj t.coords.lat t.cur.dec = some adj) :
    let m0 := (t.cur.ra - t.coords.lon - t.cur.sid) / (Gen.TWO_PI_DEG : ℝ)
    let rd := raInterpDeltas t.prev.ra t.cur.ra t.next.ra
    let Hd := hourAngle t.cur.sid t.cur.ra t.coords.lon rd (capAngle1 m0)
    let D := (shurDhuhrMagh t w).2.1
    ∃ (S M : ℝ) (k1 k2 : ℤ), (shurDhuhrMagh t w).1 = some S ∧ (shurDhuhrMagh t w).2.2 = some M ∧
      S - D = 24 * (-adj + k1) + (S - 24 * capAngle1 (m0 - adj)) + 24 * (Hd / 360) ∧
      M - D = 24 * (adj + k2) + (M - 24 * capAngle1 (m0 + adj)) + 24 * (Hd / 360) := by
  intro m0 rd Hd D
  obtain ⟨hs, hm⟩ := riseset_start_from_day_fractions t w adj h
  obtain ⟨_, _, a3⟩ := IPT.AngleLemmas.capAngle1_spec (m0 - adj)
  obtain ⟨_, _, b3⟩ := IPT.AngleLemmas.capAngle1_spec (m0 + adj)
  obtain ⟨_, _, c3⟩ := IPT.AngleLemmas.capAngle1_spec m0
  have hD : D = 24 * (capAngle1 m0 - Hd / 360) := by
    simp only [D, shurDhuhrMagh, Hd, m0, rd, c_HRS_PER_DAY, c_TWO_PI_DEG]
  refine ⟨_, _, ⌊m0⌋ - ⌊m0 - adj⌋, ⌊m0⌋ - ⌊m0 + adj⌋, hs, hm, ?_, ?_⟩
  · rw [hD, a3, c3]; push_cast; ring
  · rw [hD, b3, c3]; push_cast; ring

/-- **Shurooq lies before and Maghrib after the same day's solar noon** whenever the corrections
    are smaller than the semi-diurnal arc: if |(S − 24·m_s)/24 + H_d/360| < adj (likewise for
    Maghrib) then, modulo whole days, S − D ∈ (−48·adj, 0) and M − D ∈ (0, 48·adj).  (adj ≤ 1/2
    always - `shurMaghM0Adj` is arccos/360 of a number in [−1,1] - so these are offsets of less
    than a day; the size of the corrections is what no theorem here bounds.) -/
theorem riseset_sides_of_noon (t : TopAstroDay ℝ) (w : Weather ℝ) (adj S M : ℝ)
    (h : shurMaghM0Adj t.coords.lat t.cur.dec = some adj)
    (hS : (shurDhuhrMagh t w).1 = some S) (hM : (shurDhuhrMagh t w).2.2 = some M)
    (hcs : |(S - 24 * capAngle1 ((t.cur.ra - t.coords.lon - t.cur.sid) / (Gen.TWO_PI_DEG : ℝ) - adj)) / 24 +
      hourAngle t.cur.sid t.cur.ra t.coords.lon (raInterpDeltas t.prev.ra t.cur.ra t.next.ra)
        (capAngle1 ((t.cur.ra - t.coords.lon - t.cur.sid) / (Gen.TWO_PI_DEG : ℝ))) / 360| < adj)
    (hcm : |(M - 24 * capAngle1 ((t.cur.ra - t.coords.lon - t.cur.sid) / (Gen.TWO_PI_DEG : ℝ) + adj)) / 24 +
      hourAngle t.cur.sid t.cur.ra t.coords.lon (raInterpDeltas t.prev.ra t.cur.ra t.next.ra)
        (capAngle1 ((t.cur.ra - t.coords.lon - t.cur.sid) / (Gen.TWO_PI_DEG : ℝ))) / 360| < adj) :
    ∃ k1 k2 : ℤ,
      -(48 * adj) < S - (shurDhuhrMagh t w).2.1 - 24 * k1 ∧ S - (shurDhuhrMagh t w).2.1 - 24 * k1 < 0 ∧
      0 < M - (shurDhuhrMagh t w).2.1 - 24 * k2 ∧ M - (shurDhuhrMagh t w).2.1 - 24 * k2 < 48 * adj := by
  obtain ⟨S', M', k1, k2, e1, e2, o1, o2⟩ := riseset_offsets_exact t w adj h
  rw [hS] at e1; rw [hM] at e2
  simp only [Option.some.injEq] at e1 e2
  subst e1; subst e2
  rw [abs_lt] at hcs hcm
  refine ⟨k1, k2, ?_, ?_, ?_, ?_⟩ <;> linarith [hcs.1, hcs.2, hcm.1, hcm.2, o1, o2]

-- non-vacuity of `riseset_offsets_exact`: on the equator at the equinox (φ = δ = 0) the rise/set hour
-- angle exists (cos H = sin h₀ has the solution H = arccos (sin h₀))
example : ∃ adj, shurMaghM0Adj (0 : ℝ) 0 = some adj := by
  have hz : toRadians (0 : ℝ) = 0 := by simp [toRadians]
  have h : (shurMaghM0Adj (0 : ℝ) 0).isSome = true := by
    rw [C06.riseset_valid_iff 0 0 (by rw [hz]; simp)]
    refine ⟨Real.arccos (Real.sin (toRadians (Gen.CENTER_OF_SUN_ANGLE : ℝ))), ?_⟩
    rw [hz, Real.cos_arccos (Real.neg_one_le_sin _) (Real.sin_le_one _)]
    simp
  exact Option.isSome_iff_exists.mp h

/-- the hour angles of this property interpolate the right ascension with the deltas of the
    unwrapped sequence (Thm C13 `ra_wrap_lift`, restated: this property depends on it) -/
theorem ra_wrap_lift (P C N : ℝ) (hC0 : 0 ≤ C) (hC1 : C < 360)
    (hp0 : 0 < C - P) (hp1 : C - P < 10) (hn0 : 0 < N - C) (hn1 : N - C < 10) :
    raInterpDeltas (if P < 0 then P + 360 else P) C (if 360 ≤ N then N - 360 else N) = (N - P, N + P - 2 * C) :=
  C13.ra_wrap_lift P C N hC0 hC1 hp0 hp1 hn0 hn1

end IPT.C02
