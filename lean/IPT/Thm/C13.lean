import IPT.Real.Consts
import IPT.Model.Hours
import IPT.Lemmas.Civil
import Mathlib.Tactic.Linarith
import Mathlib.Tactic.Ring
/-
  C13 — prayer times vary smoothly from one day to the next (the calendar part).
  Over ℝ: for every proleptic-Gregorian date after the 1582 reform the Julian Day computed by
  JulianDay::new is the civil day number plus a constant (minus the zone offset), so consecutive
  civil dates — across month ends, year ends and leap days — are exactly one day apart, and
  JulianDay::sub/add land on the Julian Day of the stepped date.  Plus the right-ascension wrap:
  the interpolation deltas are those of the unwrapped (lifted) sequence.  The smoothness of the
  ephemeris itself (second differences of VSOP87) is astronomical: decided by the falsifier.
-/
namespace IPT.C13
open IPT

theorem floor_intCast_div (Y : ℤ) (n : ℤ) (hn : 0 < n) : ⌊(Y : ℝ) / (n : ℝ)⌋ = Y / n := by
  rw [Int.floor_eq_iff]
  have hn' : (0 : ℝ) < n := by exact_mod_cast hn
  have h0 := Int.emod_nonneg Y hn.ne'
  have h1 := Int.emod_lt_of_pos Y hn
  have h2 := Int.mul_ediv_add_emod Y n
  have e : (Y : ℝ) = (n : ℝ) * ((Y / n : ℤ) : ℝ) + ((Y % n : ℤ) : ℝ) := by exact_mod_cast h2.symm
  have r0 : (0 : ℝ) ≤ ((Y % n : ℤ) : ℝ) := by exact_mod_cast h0
  have r1 : ((Y % n : ℤ) : ℝ) < n := by exact_mod_cast h1
  constructor
  · rw [le_div_iff₀ hn']; nlinarith
  · rw [div_lt_iff₀ hn']; nlinarith

/-- a well-formed date of the Gregorian calendar proper -/
def GregorianDate (dt : Date) : Prop :=
  1 ≤ dt.m ∧ dt.m ≤ 12 ∧ 1 ≤ dt.d ∧ dt.d ≤ 31 ∧
  (dt.y > 1582 ∨ (dt.y = 1582 ∧ (dt.m > 10 ∨ (dt.m = 10 ∧ dt.d > 15))))

/-- the integer Julian Day Number the code's floor expressions add up to -/
def jdnCode (dt : Date) : ℤ :=
  let Y := if dt.m ≤ 2 then dt.y - 1 else dt.y
  let M := if dt.m ≤ 2 then dt.m + 12 else dt.m
  let A := Y / 100
  (2 - A + A / 4) + (1461 * (Y + 4716)) / 4 + (306001 * (M + 1)) / 10000 + dt.d - 1524

/-- the code's floor arithmetic is the civil day number: JDN = day number + 1721425 -/
theorem jdnCode_eq_rd (dt : Date) (h : GregorianDate dt) : jdnCode dt = toRD dt + 1721425 := by
  obtain ⟨m1, m12, _, _, hy⟩ := h
  have hy1 : dt.y ≥ 1582 := by omega
  unfold jdnCode toRD daysBeforeYear daysBeforeMonth isLeap
  have hm : dt.m = 1 ∨ dt.m = 2 ∨ dt.m = 3 ∨ dt.m = 4 ∨ dt.m = 5 ∨ dt.m = 6 ∨ dt.m = 7 ∨ dt.m = 8 ∨
      dt.m = 9 ∨ dt.m = 10 ∨ dt.m = 11 ∨ dt.m = 12 := by omega
  generalize dt.y = y at *
  generalize dt.d = d at *
  have q1 : (y - 1) / 100 / 4 = (y - 1) / 400 := by omega
  have q2 : y / 100 / 4 = y / 400 := by omega
  have q3 : 1461 * (y + 4716) / 4 = 365 * y + y / 4 + 1722519 := by omega
  have q4 : 1461 * (y - 1 + 4716) / 4 = 365 * (y - 1) + (y - 1) / 4 + 1722519 := by omega
  rcases hm with e | e | e | e | e | e | e | e | e | e | e | e <;> rw [e] <;>
    simp only [Int.reduceLE, if_true, if_false, Int.reduceAdd, Int.reduceMul, Int.reduceSub, Int.reduceDiv,
      Bool.or_eq_true, Bool.and_eq_true, beq_iff_eq, bne_iff_ne, ne_eq] <;>
    simp only [q1, q2, q3, q4] <;>
    first
      | omega
      | (split <;> omega)
      | (split <;> split <;> omega)

/-- **JulianDay::new = civil day number + 1721424.5 − gmt/24** for every Gregorian date, over ℝ -/
theorem jd_eq_rd (dt : Date) (gmt : ℝ) (h : GregorianDate dt) :
    jdValue dt gmt = (toRD dt : ℝ) + 1721424.5 - gmt / 24 := by
  have hj := jdnCode_eq_rd dt h
  obtain ⟨m1, m12, _, _, hy⟩ := h
  have hy1 : ¬ dt.y < 1 := by omega
  have hg : dt.y > 1582 ∨ (dt.y = 1582 ∧ (dt.m > 10 ∨ (dt.m = 10 ∧ dt.d > 15))) := hy
  unfold jdValue
  simp only [hy1, if_false, hg, if_true, sc_ofInt, sc_floor]
  have l100 : (100.0 : ℝ) = 100 := by norm_num
  have l4 : (4.0 : ℝ) = 4 := by norm_num
  rw [l100, l4]
  unfold jdnCode at hj
  by_cases hm : dt.m ≤ 2
  · simp only [hm, if_true] at hj ⊢
    have e1 : ((dt.y : ℝ) - 1.0) = ((dt.y - 1 : ℤ) : ℝ) := by push_cast; norm_num
    have e2 : ((dt.m : ℝ) + 12.0 + 1.0) = ((dt.m + 12 + 1 : ℤ) : ℝ) := by push_cast; norm_num
    have f1 : ⌊((dt.y - 1 : ℤ) : ℝ) / 100⌋ = (dt.y - 1) / 100 := by
      have := floor_intCast_div (dt.y - 1) 100 (by norm_num); simpa using this
    have f2 : ⌊(((dt.y - 1) / 100 : ℤ) : ℝ) / 4⌋ = (dt.y - 1) / 100 / 4 := by
      have := floor_intCast_div ((dt.y - 1) / 100) 4 (by norm_num); simpa using this
    have f3 : ⌊(365.25 : ℝ) * (((dt.y - 1 : ℤ) : ℝ) + 4716.0)⌋ = (1461 * (dt.y - 1 + 4716)) / 4 := by
      have := floor_intCast_div (1461 * (dt.y - 1 + 4716)) 4 (by norm_num)
      rw [← this]; congr 1; push_cast; norm_num; ring
    have f4 : ⌊(30.6001 : ℝ) * ((dt.m + 12 + 1 : ℤ) : ℝ)⌋ = (306001 * (dt.m + 12 + 1)) / 10000 := by
      have := floor_intCast_div (306001 * (dt.m + 12 + 1)) 10000 (by norm_num)
      rw [← this]; congr 1; push_cast; norm_num; ring
    rw [e1, f1, f2, f3, e2, f4]
    have : ((toRD dt : ℤ) : ℝ) = ((2 - (dt.y - 1) / 100 + (dt.y - 1) / 100 / 4 + 1461 * (dt.y - 1 + 4716) / 4 +
        306001 * (dt.m + 12 + 1) / 10000 + dt.d - 1524 - 1721425 : ℤ) : ℝ) := by
      congr 1; omega
    rw [this]; push_cast; norm_num; ring
  · simp only [hm, if_false] at hj ⊢
    have e2 : ((dt.m : ℝ) + 1.0) = ((dt.m + 1 : ℤ) : ℝ) := by push_cast; norm_num
    have f1 : ⌊((dt.y : ℤ) : ℝ) / 100⌋ = dt.y / 100 := by
      have := floor_intCast_div dt.y 100 (by norm_num); simpa using this
    have f2 : ⌊((dt.y / 100 : ℤ) : ℝ) / 4⌋ = dt.y / 100 / 4 := by
      have := floor_intCast_div (dt.y / 100) 4 (by norm_num); simpa using this
    have f3 : ⌊(365.25 : ℝ) * (((dt.y : ℤ) : ℝ) + 4716.0)⌋ = (1461 * (dt.y + 4716)) / 4 := by
      have := floor_intCast_div (1461 * (dt.y + 4716)) 4 (by norm_num)
      rw [← this]; congr 1; push_cast; norm_num; ring
    have f4 : ⌊(30.6001 : ℝ) * ((dt.m + 1 : ℤ) : ℝ)⌋ = (306001 * (dt.m + 1)) / 10000 := by
      have := floor_intCast_div (306001 * (dt.m + 1)) 10000 (by norm_num)
      rw [← this]; congr 1; push_cast; norm_num; ring
    rw [f1, f2, f3, e2, f4]
    have : ((toRD dt : ℤ) : ℝ) = ((2 - dt.y / 100 + dt.y / 100 / 4 + 1461 * (dt.y + 4716) / 4 +
        306001 * (dt.m + 1) / 10000 + dt.d - 1524 - 1721425 : ℤ) : ℝ) := by
      congr 1; omega
    rw [this]; push_cast; norm_num; ring

/-- **consecutive civil dates are exactly one Julian day apart**, whatever month end, year end or
    leap day lies between them; and i days apart for any i — this is what makes JulianDay::sub/add
    (value ∓ i) the Julian Day of the stepped date -/
theorem jd_sub_add (dt dt' : Date) (gmt : ℝ) (i : ℤ) (h : GregorianDate dt) (h' : GregorianDate dt')
    (hstep : toRD dt' = toRD dt + i) : jdValue dt' gmt = jdValue dt gmt + i := by
  rw [jd_eq_rd dt gmt h, jd_eq_rd dt' gmt h', hstep]; push_cast; ring

/-- the zone offset enters only here, linearly: d more hours of offset = d/24 day earlier (used by C20) -/
theorem jd_gmt_linear (dt : Date) (g d : ℝ) (h : GregorianDate dt) :
    jdValue dt (g + d) = jdValue dt g - d / 24 := by
  rw [jd_eq_rd dt _ h, jd_eq_rd dt _ h]; ring

/-- **right-ascension wrap**: if prev, cur, next are the reductions into [0,360) of an unwrapped
    sequence P < C < N with daily steps in (0°, 10°) and C itself in [0,360), the interpolation
    deltas are those of the unwrapped sequence.  False of the code as first found (`prev_ra = 0.`):
    then `Gen.raWrapPrev` is the constant 0 and this theorem does not check. -/
theorem ra_wrap_lift (P C N : ℝ) (hC0 : 0 ≤ C) (hC1 : C < 360)
    (hp0 : 0 < C - P) (hp1 : C - P < 10) (hn0 : 0 < N - C) (hn1 : N - C < 10) :
    raInterpDeltas (if P < 0 then P + 360 else P) C (if 360 ≤ N then N - 360 else N) = (N - P, N + P - 2 * C) := by
  simp only [raInterpDeltas, Gen.raWrapNext, Gen.raWrapPrev, sc_ltb, c_RA_WRAP_HI, c_RA_WRAP_LO, c_TWO_PI_DEG, lit_two,
    Bool.and_eq_true, decide_eq_true_eq]
  by_cases hP : P < 0 <;> by_cases hN : 360 ≤ N <;> simp only [hP, hN, if_true, if_false]
  · exfalso; linarith
  · have a : ¬ (350 < C ∧ N < 10) := fun h => by linarith [h.1, h.2]
    have b : 350 < P + 360 ∧ C < 10 := ⟨by linarith, by linarith⟩
    simp only [a, b, if_true, if_false]; ext <;> simp <;> ring
  · have a : 350 < C ∧ N - 360 < 10 := ⟨by linarith, by linarith⟩
    have b : ¬ (350 < P ∧ C < 10) := fun h => by linarith [h.1, h.2]
    simp only [a, b, if_true, if_false]; ext <;> simp <;> ring
  · have a : ¬ (350 < C ∧ N < 10) := fun h => by linarith [h.1, h.2]
    have b : ¬ (350 < P ∧ C < 10) := fun h => by linarith [h.1, h.2]
    simp only [a, b, if_false]

/-- 1583-01-01 as a day number -/
def rd1583 : Int := 577814

-- non-vacuity of `ra_wrap_lift`: the three shapes of the wrap - before it (P = −0.5: yesterday's RA is
-- 359.5), after it (N = 360.5: tomorrow's is 0.5) and away from it - meet the hypotheses
example : raInterpDeltas (359.5 : ℝ) 0.4 1.3 = (1.3 - (-0.5), 1.3 + (-0.5) - 2 * 0.4) := by
  have := ra_wrap_lift (-0.5) 0.4 1.3 (by norm_num) (by norm_num) (by norm_num) (by norm_num) (by norm_num) (by norm_num)
  norm_num at this ⊢; exact this
example : raInterpDeltas (358.5 : ℝ) 359.5 0.5 = (360.5 - 358.5, 360.5 + 358.5 - 2 * 359.5) := by
  have := ra_wrap_lift 358.5 359.5 360.5 (by norm_num) (by norm_num) (by norm_num) (by norm_num) (by norm_num) (by norm_num)
  norm_num at this ⊢; exact this

theorem rd1583_eq : toRD ⟨1583, 1, 1⟩ = rd1583 := by decide

/-- every day number from 1583-01-01 on denotes a Gregorian date (valid month and day, after the reform) -/
theorem fromRD_gregorian (rd : Int) (h : rd1583 ≤ rd) : GregorianDate (fromRD rd) := by
  obtain ⟨m1, m12, d1, d31, _, hy⟩ := CivilLemmas.fromRD_valid rd
  have spec := CivilLemmas.yearOfRD_spec rd
  refine ⟨m1, m12, d1, d31, Or.inl ?_⟩
  rw [hy]
  -- the year containing rd starts no later than rd, and rd ≥ start of 1583
  have : toRD ⟨1583, 1, 1⟩ < toRD ⟨yearOfRD rd + 1, 1, 1⟩ := by rw [rd1583_eq]; omega
  simp only [toRD, daysBeforeYear, daysBeforeMonth] at this
  generalize yearOfRD rd = y at *
  omega

/-- **the Julian Day the model (and the code) attaches to a day number is that day number plus a
    constant**: JD.new rd gmt = rd + 1721424.5 − gmt/24 for every day from 1583-01-01 on -/
theorem jd_new_eq_rd (rd : Int) (gmt : ℝ) (h : rd1583 ≤ rd) :
    (JD.new rd gmt).value = (rd : ℝ) + 1721424.5 - gmt / 24 := by
  simp only [JD.new]
  rw [jd_eq_rd _ gmt (fromRD_gregorian rd h), (CivilLemmas.fromRD_valid rd).2.2.2.2.1]

/-- so stepping a Julian Day by whole days (JulianDay::sub / add: value ∓ i, date ∓ i days) lands on
    the Julian Day of the stepped date — what the nearest-good-day search (C09) relies on -/
theorem jd_sub_is_jd_of_date (rd : Int) (gmt : ℝ) (i : ℕ) (h : rd1583 ≤ rd - i) :
    ((JD.new rd gmt).sub i).value = (JD.new (rd - i) gmt).value ∧ ((JD.new rd gmt).sub i).rd = rd - i ∧
    ((JD.new rd gmt).add i).value = (JD.new (rd + i) gmt).value ∧ ((JD.new rd gmt).add i).rd = rd + i := by
  have h1 : rd1583 ≤ rd := by omega
  have h2 : rd1583 ≤ rd + i := by omega
  refine ⟨?_, rfl, ?_, rfl⟩
  · simp only [JD.sub, sc_ofInt]
    rw [jd_new_eq_rd rd gmt h1, jd_new_eq_rd (rd - i) gmt h]; push_cast; ring
  · simp only [JD.add, sc_ofInt]
    rw [jd_new_eq_rd rd gmt h1, jd_new_eq_rd (rd + i) gmt h2]; push_cast; ring

-- non-vacuity: leap-day and year-end neighbours are Gregorian dates one day-number apart
example : GregorianDate ⟨2024, 2, 29⟩ ∧ GregorianDate ⟨2024, 3, 1⟩ ∧ toRD ⟨2024, 3, 1⟩ = toRD ⟨2024, 2, 29⟩ + 1 := by
  unfold GregorianDate; decide
example : GregorianDate ⟨2023, 12, 31⟩ ∧ GregorianDate ⟨2024, 1, 1⟩ ∧ toRD ⟨2024, 1, 1⟩ = toRD ⟨2023, 12, 31⟩ + 1 := by
  unfold GregorianDate; decide

end IPT.C13
