import IPT.Model.Range
import IPT.Model.Times
import IPT.Model.Rng
import IPT.Lemmas.Civil
/-
  C14 — range results are the per-day results for exactly the days in the range.
  Model: IPT/Model/Range.lean (dates are day numbers; chrono's date arithmetic is validated by the
  `civil` correspondence unit).  `Gen.numDaysClamp` is re-read from date.rs on every run.
-/
namespace IPT.C14
open IPT

/-- the reported number of days is max(0, end - start + 1).  False of the code as first found
    (`(d + 1) as usize` wraps for end < start - 1): then `Gen.numDaysClamp` is `false` and this
    theorem does not check. -/
theorem numDays_spec (s e : Int) : numDays s e = (e - s + 1).toNat := by
  simp [numDays, Gen.numDaysClamp]

theorem numDays_empty (s e : Int) (h : e < s) : numDays s e = 0 := by
  rw [numDays_spec]; omega

/-- the dates visited by the sequential range API are exactly start..=end, in order, once each -/
theorem rangeDates_mem (s e d : Int) : d ∈ rangeDates s e ↔ s ≤ d ∧ d ≤ e := by
  simp only [rangeDates, List.mem_map, List.mem_range, numDays_spec]
  constructor
  · rintro ⟨i, hi, rfl⟩; omega
  · rintro ⟨h1, h2⟩
    exact ⟨(d - s).toNat, by omega, by omega⟩

theorem rangeDates_length (s e : Int) : (rangeDates s e).length = (e - s + 1).toNat := by
  simp [rangeDates, numDays_spec]

theorem rangeDates_get (s e : Int) (i : Nat) (h : i < (rangeDates s e).length) :
    (rangeDates s e)[i] = s + i := by
  simp [rangeDates]

theorem rangeDates_empty (s e : Int) (h : e < s) : rangeDates s e = [] := by
  simp [rangeDates, numDays_empty s e h]

/-- `l` is a list of non-empty, contiguous, non-overlapping sub-ranges whose union is s..=e -/
def CoversFrom (e : Int) : Int → List (Int × Int) → Prop
  | s, [] => s = e + 1
  | s, (a, b) :: rest => a = s ∧ a ≤ b ∧ b ≤ e ∧ CoversFrom e (b + 1) rest

theorem partLoop_covers (e block : Int) (hb : 1 ≤ block) :
    ∀ (fuel : Nat) (s : Int), s ≤ e + 1 → e + 1 - s < fuel → CoversFrom e s (partLoop e block fuel s) := by
  intro fuel
  induction fuel with
  | zero => intro s _ h2; omega
  | succ n ih =>
    intro s h1 h2
    unfold partLoop
    by_cases hs : s ≤ e
    · simp only [hs, if_true]
      by_cases hc : s + (block - 1) > e
      · simp only [hc, if_true, CoversFrom]
        refine ⟨trivial, hs, Int.le_refl _, ?_⟩
        have : partLoop e block n (s + block) = [] := by
          cases n with
          | zero => rfl
          | succ m => unfold partLoop; simp; omega
        rw [this]; rfl
      · simp only [hc, if_false, CoversFrom]
        refine ⟨trivial, by omega, by omega, ?_⟩
        have := ih (s + block) (by omega) (by omega)
        have e1 : s + (block - 1) + 1 = s + block := by omega
        rw [e1]; exact this
    · simp only [hs, if_false, CoversFrom]; omega

/-- splitting a non-empty range into k parts yields non-empty, contiguous, non-overlapping
    sub-ranges whose union is exactly the range -/
theorem partition_cover (s e : Int) (k : Nat) (h : s ≤ e) : CoversFrom e s (partition s e k) := by
  unfold partition
  by_cases hk : k < 2
  · simp only [hk, if_true, CoversFrom]; exact ⟨trivial, h, Int.le_refl _, trivial⟩
  · simp only [hk, if_false]
    have hd : numDays s e = (e - s + 1).toNat := numDays_spec s e
    apply partLoop_covers
    · unfold blockSize
      have : 0 < (numDays s e + k - 1) / k := by
        apply Nat.div_pos <;> omega
      omega
    · omega
    · omega

theorem partLoop_length (e block : Int) (hb : 1 ≤ block) :
    ∀ (fuel : Nat) (s : Int), s ≤ e + 1 →
      ((partLoop e block fuel s).length : Int) * block ≤ (e + 1 - s) + (block - 1) := by
  intro fuel
  induction fuel with
  | zero => intro s h; simp [partLoop]; omega
  | succ n ih =>
    intro s h1
    unfold partLoop
    by_cases hs : s ≤ e
    · simp only [hs, if_true, List.length_cons]
      by_cases hc : s + block ≤ e + 1
      · have := ih (s + block) hc
        push_cast
        rw [Int.add_mul]
        omega
      · have : partLoop e block n (s + block) = [] := by
          cases n with
          | zero => rfl
          | succ m => unfold partLoop; simp; omega
        simp [this]; omega
    · simp [hs]; omega

/-- at most max(k,1) parts -/
theorem partition_count (s e : Int) (k : Nat) : (partition s e k).length ≤ max k 1 := by
  unfold partition
  by_cases hk : k < 2
  · simp [hk]; omega
  · simp only [hk, if_false]
    by_cases he : s ≤ e
    · have hd : numDays s e = (e - s + 1).toNat := numDays_spec s e
      generalize hD : numDays s e = D at *
      have hDpos : 0 < D := by omega
      have hbpos : 0 < (D + k - 1) / k := by apply Nat.div_pos <;> omega
      have hblk : D ≤ ((D + k - 1) / k) * k := by
        have := Nat.div_add_mod (D + k - 1) k
        have := Nat.mod_lt (D + k - 1) (show 0 < k by omega)
        have e1 : k * ((D + k - 1) / k) = ((D + k - 1) / k) * k := Nat.mul_comm _ _
        omega
      generalize hB : (D + k - 1) / k = B at *
      have hlen := partLoop_length e (B : Int) (by omega) (D + 1) s (by omega)
      simp only [blockSize, hB]
      generalize (partLoop e (↑B) (D + 1) s).length = L at *
      -- L * B ≤ D + B - 1 and D ≤ B * k  ⇒  L ≤ k
      have h1 : (L : Int) * B ≤ (D : Int) + (B - 1) := by omega
      have h1' : L * B ≤ D + B - 1 := by
        have := Int.natCast_mul L B
        omega
      have h2 : L * B < (k + 1) * B := by
        calc L * B ≤ D + B - 1 := h1'
          _ < B * k + B := by omega
          _ = (k + 1) * B := by rw [Nat.add_mul, Nat.mul_comm B k, Nat.one_mul]
      have := Nat.lt_of_mul_lt_mul_right h2
      omega
    · have hd : numDays s e = 0 := numDays_empty s e (by omega)
      simp only [hd, blockSize]
      have : partLoop e (((0 + k - 1) / k : Nat) : Int) (0 + 1) s = [] := by
        unfold partLoop; simp [he]
      rw [this]; simp

/-- an empty range split into k ≥ 2 parts yields no sub-range; for k < 2 the code returns the
    (empty) range itself (DESIGN §9.3) -/
theorem partition_empty (s e : Int) (k : Nat) (h : e < s) (hk : 2 ≤ k) : partition s e k = [] := by
  unfold partition
  have : ¬ k < 2 := by omega
  simp only [this, if_false]
  generalize numDays s e = D
  unfold partLoop
  have : ¬ s ≤ e := by omega
  simp [this]

-- the range model lives in Model/Rng.lean (`IPT.rngModel`: the object unit `rng` compares with the
-- real `prayer_times_dt_rng`); `C14.rngModel` is the same constant
export IPT (rngModel)

/-- **the range model has one entry per calendar date from start to end inclusive - none when the end
    precedes the start - each the single-date result for that date.**  `rngModel` (above) mirrors the
    body of `prayer_times_dt_rng`: a loop over `start.iter_days().take(num_days)` inserting
    `prayer_times_dt(params, location, date, None)`; clause 2 is therefore true of the model by
    construction, and that the REAL function is that loop with nothing carried from one day to the
    next is what the falsifier's range sweeps compare (seeds C15c, C14d, C14e were such carry-overs).
    What the theorem adds is the date set: exactly start..=end, once each, nothing for an empty range. -/
theorem rng_is_per_day {α : Type} [Add α] [Sub α] [Mul α] [Div α] [Neg α] [OfScientific α] [Sc α]
    (p : Params α) (loc : Location α) (s e : Int) :
    ((rngModel p loc s e).map Prod.fst = rangeDates s e) ∧
    (∀ x ∈ rngModel p loc s e, x.2 = prayerTimesDt p loc x.1 none) ∧
    (e < s → rngModel p loc s e = []) ∧
    (∀ d, (∃ x ∈ rngModel p loc s e, x.1 = d) ↔ s ≤ d ∧ d ≤ e) := by
  refine ⟨by simp [rngModel, Function.comp_def], ?_, ?_, ?_⟩
  · intro x hx
    simp only [rngModel, List.mem_map] at hx
    obtain ⟨rd, _, rfl⟩ := hx; rfl
  · intro h; simp [rngModel, rangeDates_empty s e h]
  · intro d
    rw [← rangeDates_mem]
    simp only [rngModel, List.mem_map]
    constructor
    · rintro ⟨x, ⟨rd, hrd, rfl⟩, rfl⟩; exact hrd
    · intro hd; exact ⟨_, ⟨d, hd, rfl⟩, rfl⟩


/-! ### dates and day numbers -/

/-- chrono's contract for `NaiveDate`: the calendar date of a day number has that day number … -/
theorem civil_toRD_fromRD (n : Int) : toRD (fromRD n) = n := (CivilLemmas.fromRD_valid n).2.2.2.2.1

/-- … and every calendar date is the date of its day number: dates and day numbers are in bijection -/
theorem civil_fromRD_toRD (dt : Date) (h : CivilLemmas.ValidDate dt) : fromRD (toRD dt) = dt :=
  CivilLemmas.fromRD_toRD dt h

/-- the dates of a range are visited in strictly increasing order: every date exactly once -/
theorem rangeDates_sorted (s e : Int) : (rangeDates s e).Pairwise (· < ·) := by
  unfold rangeDates
  rw [List.pairwise_map]
  exact List.Pairwise.imp (fun h => by omega) List.pairwise_lt_range

/-- and they are pairwise distinct calendar dates (year, month, day) -/
theorem range_calendar_dates_distinct (s e : Int) : ((rangeDates s e).map fromRD).Pairwise (· ≠ ·) := by
  rw [List.pairwise_map]
  refine List.Pairwise.imp ?_ (rangeDates_sorted s e)
  intro a b hab heq
  have := congrArg toRD heq
  rw [civil_toRD_fromRD, civil_toRD_fromRD] at this
  omega

-- non-vacuity: a concrete range meets the hypotheses and the conclusion is the expected split
example : partition 738521 738530 4 = [(738521, 738523), (738524, 738526), (738527, 738529), (738530, 738530)] := by
  decide
example : CoversFrom 738530 738521 (partition 738521 738530 4) := partition_cover _ _ _ (by decide)

end IPT.C14
