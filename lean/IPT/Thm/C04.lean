import IPT.Lemmas.Trig
/-
  C04 — Asr follows the shadow-length rule of the selected school.  Over ℝ, for the model's
  `getAsr` read with φ = latitude and δ = that date's (topocentric) declination, both in degrees.
  The school discriminants 1/2 and DEGREES_TO_10_BASE are re-read from the source.
-/
namespace IPT.C04
open IPT IPT.TrigLemmas Real

/-- shadow factor of a school: 1 (Shafi) or 2 (Hanafi) -/
theorem ratio_values : (asrRatio .Shafi : ℝ) = 1 ∧ (asrRatio .Hanafi : ℝ) = 2 := by
  simp [asrRatio, c_ASR_SHAFI, c_ASR_HANAFI]

theorem ratio_pos (r : AsrRatio) : 0 < (asrRatio r : ℝ) := by
  cases r <;> simp [asrRatio, c_ASR_SHAFI, c_ASR_HANAFI]

/-- hours per degree of hour angle: within 10⁻¹⁵ of 1/15 -/
theorem degrees_to_hours : |15 * (Gen.DEGREES_TO_10_BASE : ℝ) - 1| ≤ 1 / 10 ^ 15 ∧ 0 < (Gen.DEGREES_TO_10_BASE : ℝ) := by
  rw [c_DEGREES_TO_10_BASE]; constructor
  · rw [abs_le]; constructor <;> norm_num
  · norm_num

/-- the Asr altitude of the shadow rule: the altitude at which shadow = κ·height + noon shadow -/
noncomputable def asrAltitude (κ φ δ : ℝ) : ℝ := Real.arctan (1 / (κ + Real.tan |φ - δ|))

/-- it is the arccot of (κ + tan|φ-δ|): cot(altitude) = κ + noon shadow ratio, and it lies in (0, 90°) -/
theorem asrAltitude_is_arccot (κ φ δ : ℝ) (hκ : 0 < κ) (ht : 0 ≤ Real.tan |φ - δ|) :
    1 / Real.tan (asrAltitude κ φ δ) = κ + Real.tan |φ - δ| ∧
    0 < asrAltitude κ φ δ ∧ asrAltitude κ φ δ < Real.pi / 2 := by
  unfold asrAltitude
  have hx : 0 < κ + Real.tan |φ - δ| := by linarith
  refine ⟨by rw [Real.tan_arctan]; field_simp, ?_, Real.arctan_lt_pi_div_two _⟩
  rw [← Real.arctan_zero]
  exact Real.arctan_strictMono (by positivity)

theorem asrCos_real (ratio : AsrRatio) (lat dec : ℝ) :
    asrCos ratio lat dec =
      (Real.sin (asrAltitude (asrRatio ratio) (toRadians lat) (toRadians dec)) -
        Real.sin (toRadians lat) * Real.sin (toRadians dec)) /
        (Real.cos (toRadians lat) * Real.cos (toRadians dec)) := by
  simp only [asrCos, asrAltitude, sc_sin, sc_cos, sc_tan, sc_atan, sc_abs, lit_one]

/-- **whenever Asr is reported, the Sun's altitude at that hour angle (under that date's
    declination) is exactly the shadow-rule altitude**: sin φ sin δ + cos φ cos δ cos H = sin(arccot(κ + tan|φ-δ|)),
    H = (Asr − Dhuhr) / DEGREES_TO_10_BASE degrees -/
theorem asr_altitude (ratio : AsrRatio) (lat dec dhuhr asr : ℝ)
    (hk : Real.cos (toRadians lat) * Real.cos (toRadians dec) ≠ 0)
    (h : getAsr ratio lat dec dhuhr = some asr) :
    Real.sin (toRadians lat) * Real.sin (toRadians dec) +
      Real.cos (toRadians lat) * Real.cos (toRadians dec) *
        Real.cos (toRadians ((asr - dhuhr) / Gen.DEGREES_TO_10_BASE)) =
      Real.sin (asrAltitude (asrRatio ratio) (toRadians lat) (toRadians dec)) := by
  unfold getAsr at h
  simp only at h
  split at h
  · rename_i hw
    simp only [Option.some.injEq] at h
    rw [withinAbs1_real] at hw
    have hc := degrees_to_hours.2
    have hH : (asr - dhuhr) / Gen.DEGREES_TO_10_BASE = toDegrees (Real.arccos (asrCos ratio lat dec)) := by
      rw [← h]; simp only [sc_acos]; field_simp; ring
    rw [hH, toRadians_toDegrees, asrCos_real] at *
    exact altitude_eq _ _ _ hk hw.1 hw.2
  · simp at h

/-- **Asr lies strictly after Dhuhr** (sun not at the pole of the day: |φ-δ| < 90°, cos φ cos δ > 0) -/
theorem asr_after_dhuhr (ratio : AsrRatio) (lat dec dhuhr asr : ℝ)
    (hk : 0 < Real.cos (toRadians lat) * Real.cos (toRadians dec))
    (hu : |toRadians lat - toRadians dec| < Real.pi / 2)
    (h : getAsr ratio lat dec dhuhr = some asr) : dhuhr < asr := by
  unfold getAsr at h
  simp only at h
  split at h
  · simp only [Option.some.injEq] at h
    rw [← h]
    have hc := degrees_to_hours.2
    suffices hr : asrCos ratio lat dec < 1 by
      have : 0 < Real.arccos (asrCos ratio lat dec) := Real.arccos_pos.mpr hr
      have := toDegrees_pos this
      simp only [sc_acos]
      nlinarith
    rw [asrCos_real, div_lt_one hk]
    set φ := toRadians lat
    set δ := toRadians dec
    set u := |φ - δ| with hu_def
    have hu0 : 0 ≤ u := abs_nonneg _
    have ht : 0 ≤ Real.tan u := Real.tan_nonneg_of_nonneg_of_le_pi_div_two hu0 hu.le
    have hκ := ratio_pos ratio
    -- cos(φ-δ) = cos u, and sin(asr altitude) < cos u
    have hcos : Real.sin φ * Real.sin δ + Real.cos φ * Real.cos δ = Real.cos u := by
      rw [hu_def, Real.cos_abs, Real.cos_sub]; ring
    have hcu : 0 < Real.cos u := Real.cos_pos_of_mem_Ioo ⟨by linarith [Real.pi_pos], hu⟩
    have key : Real.sin (asrAltitude (asrRatio ratio) φ δ) < Real.cos u := by
      unfold asrAltitude
      rw [Real.sin_arctan]
      -- cos u = 1/√(1+tan²u)
      have hcu2 : Real.cos u = 1 / Real.sqrt (1 + Real.tan u ^ 2) := by
        have hinv := Real.inv_one_add_tan_sq hcu.ne'
        have hpos : 0 < 1 + Real.tan u ^ 2 := by positivity
        have : Real.cos u = Real.sqrt (Real.cos u ^ 2) := by rw [Real.sqrt_sq hcu.le]
        rw [this, ← hinv, Real.sqrt_inv, one_div]
      rw [hcu2]
      set t := Real.tan u
      set x := asrRatio ratio + t with hx
      have hxpos : 0 < x := by linarith
      have e1 : 1 / x / Real.sqrt (1 + (1 / x) ^ 2) = 1 / Real.sqrt (x ^ 2 + 1) := by
        have : 1 + (1 / x) ^ 2 = (x ^ 2 + 1) / x ^ 2 := by field_simp
        rw [this, Real.sqrt_div (by positivity), Real.sqrt_sq hxpos.le]
        field_simp
      rw [e1]
      apply one_div_lt_one_div_of_lt (by positivity)
      apply Real.sqrt_lt_sqrt (by positivity)
      nlinarith
    linarith
  · simp at h

/-- **Hanafi Asr is strictly later than Shafi Asr** for the same place and date -/
theorem hanafi_after_shafi (lat dec dhuhr aS aH : ℝ)
    (hk : 0 < Real.cos (toRadians lat) * Real.cos (toRadians dec))
    (hu : |toRadians lat - toRadians dec| < Real.pi / 2)
    (hS : getAsr .Shafi lat dec dhuhr = some aS) (hH : getAsr .Hanafi lat dec dhuhr = some aH) :
    aS < aH := by
  unfold getAsr at hS hH
  simp only at hS hH
  split at hS <;> [skip; simp at hS]
  split at hH <;> [skip; simp at hH]
  rename_i wS wH
  simp only [Option.some.injEq] at hS hH
  rw [withinAbs1_real] at wS wH
  rw [← hS, ← hH]
  have hc := degrees_to_hours.2
  have ht : 0 ≤ Real.tan |toRadians lat - toRadians dec| :=
    Real.tan_nonneg_of_nonneg_of_le_pi_div_two (abs_nonneg _) hu.le
  -- r_H < r_S
  have hr : asrCos .Hanafi lat dec < asrCos .Shafi lat dec := by
    rw [asrCos_real, asrCos_real]
    apply div_lt_div_of_pos_right _ hk
    apply sub_lt_sub_right
    apply Real.sin_arctan_strictMono
    obtain ⟨r1, r2⟩ := ratio_values
    rw [r1, r2]
    apply one_div_lt_one_div_of_lt (by linarith) (by linarith)
  have : Real.arccos (asrCos .Shafi lat dec) < Real.arccos (asrCos .Hanafi lat dec) :=
    Real.strictAntiOn_arccos ⟨wH.1, wH.2⟩ ⟨wS.1, wS.2⟩ hr
  have := toDegrees_lt this
  simp only [sc_acos]
  nlinarith

/-- Asr precedes sunset, at the level of hour angles (first approximation of Maghrib: the hour
    angle H₀ at which the Sun's centre is at h₀ = −0.83337°; the Newton correction of the real
    Maghrib is not covered — `…_partial`) -/
theorem asr_before_maghrib_first_approx_partial (ratio : AsrRatio) (lat dec : ℝ)
    (hk : 0 < Real.cos (toRadians lat) * Real.cos (toRadians dec))
    (hu : |toRadians lat - toRadians dec| < Real.pi / 2)
    (wA : withinAbs1 (asrCos ratio lat dec) = true)
    (r0 : ℝ) (hr0 : r0 = (Real.sin (toRadians Gen.CENTER_OF_SUN_ANGLE) -
        Real.sin (toRadians lat) * Real.sin (toRadians dec)) / (Real.cos (toRadians lat) * Real.cos (toRadians dec)))
    (w0 : -1 ≤ r0 ∧ r0 ≤ 1) :
    Real.arccos (asrCos ratio lat dec) < Real.arccos r0 := by
  rw [withinAbs1_real] at wA
  apply Real.strictAntiOn_arccos ⟨w0.1, w0.2⟩ ⟨wA.1, wA.2⟩
  rw [hr0, asrCos_real]
  apply div_lt_div_of_pos_right _ hk
  apply sub_lt_sub_right
  have ht : 0 ≤ Real.tan |toRadians lat - toRadians dec| :=
    Real.tan_nonneg_of_nonneg_of_le_pi_div_two (abs_nonneg _) hu.le
  obtain ⟨_, hpos, _⟩ := asrAltitude_is_arccot (asrRatio ratio) (toRadians lat) (toRadians dec) (ratio_pos ratio) ht
  have h1 : 0 < Real.sin (asrAltitude (asrRatio ratio) (toRadians lat) (toRadians dec)) := by
    apply Real.sin_pos_of_pos_of_lt_pi hpos
    have := (asrAltitude_is_arccot (asrRatio ratio) (toRadians lat) (toRadians dec) (ratio_pos ratio) ht).2.2
    linarith [Real.pi_pos]
  have h2 : Real.sin (toRadians (Gen.CENTER_OF_SUN_ANGLE : ℝ)) < 0 := by
    rw [toRadians_real, c_CENTER_OF_SUN_ANGLE]
    apply Real.sin_neg_of_neg_of_neg_pi_lt
    · have := Real.pi_pos; nlinarith
    · have := Real.pi_pos; nlinarith
  linarith

-- non-vacuity: at the equator on an equinox-like day (φ = δ = 0) Shafi Asr exists: r = sin(arctan 1) ∈ [-1,1]
example : ∃ a, getAsr .Shafi (0 : ℝ) 0 12 = some a := by
  have : withinAbs1 (asrCos .Shafi (0 : ℝ) 0) = true := by
    rw [withinAbs1_real, asrCos_real]
    simp only [toRadians_real, zero_mul, Real.sin_zero, Real.cos_zero, mul_zero, sub_zero, mul_one, div_one]
    exact ⟨Real.neg_one_le_sin _, Real.sin_le_one _⟩
  simp [getAsr, this]

end IPT.C04
