import IPT.Lemmas.ExtLat
/-
  C08 — fallback policies change only what they name and flag exactly what they replace.
  All theorems hold for EVERY scalar type α (no arithmetic law is used): they are statements
  about which slot each policy writes and which flag it sets, over the dispatch table, the
  `always` list and the interval-exclusion list that the translator re-reads from ext_lat.rs.
  "Conventional" = the result under ExtremeLatitudeMethod::None (which still runs the interval pass).
-/
namespace IPT.C08
open IPT IPT.ExtLatLemmas
variable {α : Type} [Add α] [Sub α] [Mul α] [Div α] [Neg α] [OfScientific α] [Sc α]

/-- the result under policy None, same parameters otherwise -/
def noPolicy (p : Params α) : Params α := { p with policy := .None }

def conventional (p : Params α) (hours : Hours α) (env : Env α) : Except Panic (PHours α) :=
  adjForExtLat (noPolicy p) hours env

theorem conventional_eq (p : Params α) (hours : Hours α) (env : Env α) :
    conventional p hours env = adjForInt (noPolicy p) hours.toPH := by
  simp [conventional, noPolicy, adjForExtLat, applyPolicy, canAdj, Policy.isNone]

theorem noPolicy_not_excluded (p : Params α) : ¬ Gen.intExcluded (noPolicy p).policy = true := by
  simp [noPolicy, Gen.intExcluded]

/-- **the conventional result carries no extreme flag** (all six entries): what "unchanged" means in
    the theorems below therefore includes "unflagged" -/
theorem conventional_unflagged (p : Params α) (hours : Hours α) (env : Env α) (c : PHours α)
    (hc : conventional p hours env = .ok c) :
    flagOf c.fajr = false ∧ flagOf c.shur = false ∧ flagOf c.dhuhr = false ∧
    flagOf c.asr = false ∧ flagOf c.magh = false ∧ flagOf c.isha = false := by
  rw [conventional_eq] at hc
  have hg : Gen.intFlagRead = .mapOrFalse := by decide
  obtain ⟨hf, hi⟩ := adjForInt_out (noPolicy p) _ c hg hc
  have ho := adjForInt_others (noPolicy p) _ c hc
  have cv : ∀ x : Option α, flagOf (x.map PH.conv) = false := flagOf_conv
  refine ⟨?_, ?_, ?_, ?_, ?_, ?_⟩
  · rw [hf]; unfold intFajrOut; split
    · exact cv _
    · simp only [Hours.toPH]; cases hours.shur <;> simp [flagOf_conv] <;> rfl
  · rw [ho.1]; exact cv _
  · rw [ho.2.1]; exact cv _
  · rw [ho.2.2.1]; exact cv _
  · rw [ho.2.2.2]; exact cv _
  · rw [hi]; unfold intIshaOut; split
    · exact cv _
    · simp only [Hours.toPH]; cases hours.magh <;> simp [flagOf_conv] <;> rfl

/-- the policies restricted to Fajr and Isha: all but None and the two "all prayers" variants -/
def FajrIshaOnly (pol : Policy α) : Prop := pol.isNearLatAll = false ∧ pol.isGoodDayAll = false

/-- **a policy restricted to Fajr and Isha never changes Shurooq, Dhuhr, Asr or Maghrib**
    (value and flag), whatever the validity pattern, parameters and environment -/
theorem fajrIsha_policy_keeps_others (p : Params α) (hours : Hours α) (env : Env α) (r : PHours α)
    (hp : FajrIshaOnly p.policy) (hr : adjForExtLat p hours env = .ok r) :
    r.shur = hours.shur.map PH.conv ∧ r.dhuhr = hours.dhuhr.map PH.conv ∧
    r.asr = hours.asr.map PH.conv ∧ r.magh = hours.magh.map PH.conv := by
  unfold adjForExtLat at hr
  split at hr
  · simp at hr
  · rename_i h1 hh1
    have h2 := adjForInt_others p h1 r hr
    have h3 : SameOthers h1 hours.toPH := by
      unfold applyPolicy at hh1
      split at hh1
      · split at hh1
        · simp only [Except.ok.injEq] at hh1; subst hh1; exact angleBased_others _ _
        · exact adjNearLat_others p _ _ _ hp.1 hh1
        · simp only [Except.ok.injEq] at hh1; subst hh1; exact adjNearGood_others _ _ _ hp.2
        · simp only [Except.ok.injEq] at hh1; subst hh1; exact adjSevHalf_others _ _
        · simp only [Except.ok.injEq] at hh1; subst hh1; exact adjMinAlways_others _
        · simp only [Except.ok.injEq] at hh1; subst hh1; exact adjMinInv_others _ _
        · simp only [Except.ok.injEq] at hh1; subst hh1; exact SameOthers.rfl' _
      · simp only [Except.ok.injEq] at hh1; subst hh1; exact SameOthers.rfl' _
    exact h2.trans h3

/-- same statement relative to the conventional result: the four entries coincide with it -/
theorem fajrIsha_policy_others_conventional (p : Params α) (hours : Hours α) (env : Env α) (r c : PHours α)
    (hp : FajrIshaOnly p.policy) (hr : adjForExtLat p hours env = .ok r) (hc : conventional p hours env = .ok c) :
    r.shur = c.shur ∧ r.dhuhr = c.dhuhr ∧ r.asr = c.asr ∧ r.magh = c.magh := by
  have a := fajrIsha_policy_keeps_others p hours env r hp hr
  have b := fajrIsha_policy_keeps_others (noPolicy p) hours env c ⟨rfl, rfl⟩ hc
  exact ⟨a.1.trans b.1.symm, a.2.1.trans b.2.1.symm, a.2.2.1.trans b.2.2.1.symm, a.2.2.2.trans b.2.2.2.symm⟩

theorem flag_read_total : Gen.intFlagRead = .mapOrFalse := by decide

theorem invalidOnly_fajrIshaOnly (pol : Policy α) (h : isInvalidOnly pol = true) : FajrIshaOnly pol := by
  cases pol <;> simp [isInvalidOnly] at h <;> exact ⟨rfl, rfl⟩

/-- the hypothesis under which the two interval-consuming policies are quantified
    (angle-based methods only): a policy excluded from the interval pass has no intervals set -/
def ExclNoIntervals (p : Params α) : Prop :=
  Gen.intExcluded p.policy = true → nonZero p.intFajr = false ∧ nonZero p.intIsha = false

/-- **an "only if invalid" policy returns every valid angle-based Fajr/Isha exactly as the
    conventional calculation does — same value, unflagged** (`…_partial`: "valid" is the validity of
    the six computed hours; see `invalidOnly_interval_flag_witness` for the one case where the
    full-strength reading — validity of the conventional result — fails) -/
theorem invalidOnly_keeps_valid_partial (p : Params α) (hours : Hours α) (env : Env α) (r c : PHours α)
    (hinv : isInvalidOnly p.policy = true) (hex : ExclNoIntervals p)
    (hr : adjForExtLat p hours env = .ok r) (hc : conventional p hours env = .ok c) :
    (hours.fajr.isSome → r.fajr = c.fajr) ∧ (hours.isha.isSome → r.isha = c.isha) := by
  rw [conventional_eq] at hc
  unfold adjForExtLat at hr
  split at hr
  · simp at hr
  · rename_i h1 hh1
    obtain ⟨kf, ki⟩ := applyPolicy_invalidOnly p _ _ env hinv hh1
    have hoth : SameOthers h1 hours.toPH := by
      have := fajrIsha_policy_keeps_others p hours env r (invalidOnly_fajrIshaOnly _ hinv)
        (by unfold adjForExtLat; rw [hh1]; exact hr)
      have h2 := adjForInt_others p h1 r hr
      exact ⟨h2.1.symm.trans this.1, h2.2.1.symm.trans this.2.1, h2.2.2.1.symm.trans this.2.2.1,
        h2.2.2.2.symm.trans this.2.2.2⟩
    obtain ⟨rf, ri⟩ := adjForInt_out p h1 r flag_read_total hr
    obtain ⟨cf, ci⟩ := adjForInt_out _ _ c flag_read_total hc
    constructor
    · intro hs
      have e1 : h1.fajr = hours.toPH.fajr := kf (by simpa [Hours.toPH] using hs)
      rw [rf, cf]
      by_cases hE : Gen.intExcluded p.policy = true
      · rw [intFajrOut_inactive p h1 (Or.inl hE), intFajrOut_inactive (noPolicy p) _ (Or.inr (hex hE).1), e1]
      · by_cases hz : nonZero p.intFajr = false
        · rw [intFajrOut_inactive p h1 (Or.inr hz), intFajrOut_inactive (noPolicy p) _ (Or.inr hz), e1]
        · rw [intFajrOut_active p h1 hE hz, intFajrOut_active (noPolicy p) _ (noPolicy_not_excluded p) hz, e1, hoth.1]
          rfl
    · intro hs
      have e1 : h1.isha = hours.toPH.isha := ki (by simpa [Hours.toPH] using hs)
      rw [ri, ci]
      by_cases hE : Gen.intExcluded p.policy = true
      · rw [intIshaOut_inactive p h1 (Or.inl hE), intIshaOut_inactive (noPolicy p) _ (Or.inr (hex hE).2), e1]
      · by_cases hz : nonZero p.intIsha = false
        · rw [intIshaOut_inactive p h1 (Or.inr hz), intIshaOut_inactive (noPolicy p) _ (Or.inr hz), e1]
        · rw [intIshaOut_active p h1 hE hz, intIshaOut_active (noPolicy p) _ (noPolicy_not_excluded p) hz, e1, hoth.2.2.2]
          rfl

/-- The full-strength reading of the second clause ("every *conventionally* valid Fajr/Isha is
    returned unchanged and unflagged") is FALSE of the code, for every scalar type: with an
    interval-defined Isha (e.g. UmmAlQurra / FixedIsha: Maghrib + 90 min) whose unused angle-based
    Isha is invalid, an only-if-invalid policy returns the conventional clock time but flagged
    extreme.  Replayed on the implementation: known_findings.json (C08, open). -/
theorem invalidOnly_interval_flag_witness (p : Params α) (f s d a m : α) (env : Env α)
    (hp : p.policy = .SeventhOfNightFajrIshaInvalid)
    (hzF : nonZero p.intFajr = false) (hnz : nonZero p.intIsha = true) :
    ∃ r c v, adjForExtLat p ⟨some f, some s, some d, some a, some m, none⟩ env = .ok r ∧
      conventional p ⟨some f, some s, some d, some a, some m, none⟩ env = .ok c ∧
      c.isha = some ⟨v, false⟩ ∧ r.isha = some ⟨v, true⟩ := by
  have hrf : ∀ x : Option (PH α), readFlag x = some (flagOf x) := fun x => readFlag_eq x flag_read_total
  refine ⟨⟨some ⟨f, false⟩, some ⟨s, false⟩, some ⟨d, false⟩, some ⟨a, false⟩, some ⟨m, false⟩,
            some ⟨m + p.intIsha / Gen.MIN_SEC_PER_HR_MIN, true⟩⟩,
          ⟨some ⟨f, false⟩, some ⟨s, false⟩, some ⟨d, false⟩, some ⟨a, false⟩, some ⟨m, false⟩,
            some ⟨m + p.intIsha / Gen.MIN_SEC_PER_HR_MIN, false⟩⟩,
          m + p.intIsha / Gen.MIN_SEC_PER_HR_MIN, ?_, ?_, rfl, rfl⟩
  · simp [adjForExtLat, applyPolicy, canAdj, hp, Policy.isNone, PHours.hasInv, Hours.toPH, Gen.dispatch,
      adjSevHalf, Policy.isSevHalfAlways, Policy.isHalfInvalid, adjForInt, Gen.intExcluded, intFajrStep,
      intIshaStep, hzF, hnz, hrf, flagOf, PH.conv, PH.ext]
  · simp [conventional, noPolicy, adjForExtLat, applyPolicy, canAdj, Policy.isNone, Hours.toPH, adjForInt,
      Gen.intExcluded, intFajrStep, intIshaStep, hzF, hnz, hrf, flagOf, PH.conv]

/-- on a day where all six conventional hours exist, an only-if-invalid policy is the identity -/
theorem invalidOnly_identity_when_all_valid (p : Params α) (hours : Hours α) (env : Env α)
    (hinv : isInvalidOnly p.policy = true) (hex : ExclNoIntervals p)
    (hall : hours.toPH.hasInv = false) :
    adjForExtLat p hours env = conventional p hours env := by
  have hna : Gen.isAlways p.policy = false := by
    cases hp : p.policy <;> simp [isInvalidOnly, hp] at hinv <;> rfl
  rw [conventional_eq]
  unfold adjForExtLat applyPolicy
  simp only [canAdj, hall, hna, Bool.or_self, Bool.and_false]
  simp only [Bool.false_eq_true, if_false]
  unfold adjForInt
  by_cases hE : Gen.intExcluded p.policy = true
  · obtain ⟨z1, z2⟩ := hex hE
    have : ¬ Gen.intExcluded (noPolicy p).policy = true := noPolicy_not_excluded p
    simp only [hE, this, if_true, if_false]
    simp [intFajrStep, intIshaStep, noPolicy, z1, z2]
  · have : ¬ Gen.intExcluded (noPolicy p).policy = true := noPolicy_not_excluded p
    simp only [hE, this, if_false]
    rfl

/-- **in every result, a time not flagged extreme equals the conventional time** (all six hours,
    all 15 policies).  Contrapositive: a time that differs from the conventional one is flagged
    extreme.  Hypotheses: the interval-consuming policies are used with angle-based methods
    (`ExclNoIntervals`, as the property quantifies), and - only when a Fajr (Isha) INTERVAL is set -
    under nearest-latitude "all prayers" the substitute latitude has a Fajr (Isha): the interval
    pass copies that entry's flag.  With the named methods this concerns the Isha of UmmAlQurra and
    FixedIsha only, whose angle-0 Isha exists wherever the Sun sets; for angle-based methods the
    theorem needs no such hypothesis (a substitute latitude of 60 degrees without a June Fajr is
    covered). -/
theorem unflagged_is_conventional (p : Params α) (hours : Hours α) (env : Env α) (r c : PHours α)
    (hex : ExclNoIntervals p)
    (hNLf : nonZero p.intFajr = true → ∀ l, p.policy = .NearestLatitudeAllPrayersAlways l → (env.nearLatHours l).fajr.isSome = true)
    (hNLi : nonZero p.intIsha = true → ∀ l, p.policy = .NearestLatitudeAllPrayersAlways l → (env.nearLatHours l).isha.isSome = true)
    (hr : adjForExtLat p hours env = .ok r) (hc : conventional p hours env = .ok c) :
    UnflAll r c := by
  rw [conventional_eq] at hc
  unfold adjForExtLat at hr
  split at hr
  · simp at hr
  · rename_i h1 hh1
    have hu := applyPolicy_unfl p _ _ env hh1
    have ro := adjForInt_others p h1 r hr
    have co := adjForInt_others _ _ c hc
    obtain ⟨rf, ri⟩ := adjForInt_out p h1 r flag_read_total hr
    obtain ⟨cf, ci⟩ := adjForInt_out _ _ c flag_read_total hc
    refine ⟨?_, ?_, ?_, ?_, ?_, ?_⟩
    · -- Fajr
      rw [rf, cf]
      by_cases hE : Gen.intExcluded p.policy = true
      · rw [intFajrOut_inactive p h1 (Or.inl hE), intFajrOut_inactive (noPolicy p) _ (Or.inr (hex hE).1)]; exact hu.1
      · by_cases hz : nonZero p.intFajr = false
        · rw [intFajrOut_inactive p h1 (Or.inr hz), intFajrOut_inactive (noPolicy p) _ (Or.inr hz)]; exact hu.1
        · rw [intFajrOut_active p h1 hE hz, intFajrOut_active (noPolicy p) _ (noPolicy_not_excluded p) hz]
          intro v hv
          cases hs : h1.shur with
          | none => simp [hs] at hv
          | some x =>
            simp only [hs, Option.map_some, Option.some.injEq, PH.mk.injEq] at hv
            have hzt : nonZero p.intFajr = true := by simpa using hz
            rcases applyPolicy_shape_fajr p hours h1 env hh1 (hNLf hzt) with hso | hfl
            · have := hso.1; rw [hs] at this
              simp only [← this, Option.map_some, Option.some.injEq, PH.mk.injEq]
              exact ⟨hv.1, by simp [Hours.toPH, flagOf_conv]⟩
            · rw [hfl] at hv; simp at hv
    · rw [ro.1, co.1]; exact hu.2.1
    · rw [ro.2.1, co.2.1]; exact hu.2.2.1
    · rw [ro.2.2.1, co.2.2.1]; exact hu.2.2.2.1
    · rw [ro.2.2.2, co.2.2.2]; exact hu.2.2.2.2.1
    · -- Isha
      rw [ri, ci]
      by_cases hE : Gen.intExcluded p.policy = true
      · rw [intIshaOut_inactive p h1 (Or.inl hE), intIshaOut_inactive (noPolicy p) _ (Or.inr (hex hE).2)]; exact hu.2.2.2.2.2
      · by_cases hz : nonZero p.intIsha = false
        · rw [intIshaOut_inactive p h1 (Or.inr hz), intIshaOut_inactive (noPolicy p) _ (Or.inr hz)]; exact hu.2.2.2.2.2
        · rw [intIshaOut_active p h1 hE hz, intIshaOut_active (noPolicy p) _ (noPolicy_not_excluded p) hz]
          intro v hv
          cases hs : h1.magh with
          | none => simp [hs] at hv
          | some x =>
            simp only [hs, Option.map_some, Option.some.injEq, PH.mk.injEq] at hv
            have hzt : nonZero p.intIsha = true := by simpa using hz
            rcases applyPolicy_shape_isha p hours h1 env hh1 (hNLi hzt) with hso | hfl
            · have := hso.2.2.2; rw [hs] at this
              simp only [← this, Option.map_some, Option.some.injEq, PH.mk.injEq]
              exact ⟨hv.1, by simp [Hours.toPH, flagOf_conv]⟩
            · rw [hfl] at hv; simp at hv

/-! ### the seventh entry: Imsaak -/

/-- **an Imsaak that is not flagged extreme did not come from the fallback**: it is the time of the
    Fajr of the Imsaak-adjusted parameters (Fajr angle + Imsaak angle, resp. the interval forms),
    and that Fajr is itself not flagged.  (Before the `fix:` commit that flags the fallback this
    was false: at 48 N on the June solstice with the MWL angles the tool printed Imsaak = Fajr
    - 1.5 min, unflagged, although the Sun never reaches 19.5 degrees.) -/
theorem imsaak_unflagged_not_fallback (p : Params α) (run : Params α → Except Panic (PHours α)) (t : PT)
    (h : imsaakOf p run = .ok (some t)) (hf : t.extreme = false) :
    ∃ h1, run (imsaakParams1 p) = .ok h1 ∧ fajrExtreme h1 = false ∧
      optTime (imsaakParams1 p) .Fajr h1.fajr = .ok (some t) := by
  unfold imsaakOf at h
  split at h
  · simp at h
  · rename_i h1 hr1
    refine ⟨h1, hr1, ?_⟩
    simp only at h
    split at h
    · simp at h
    · rename_i redo hredo
      cases redo with
      | true =>
        simp only [if_true] at h
        split at h
        · simp at h
        · have := (C12aux_flag _ t h)
          rw [this] at hf; simp at hf
      | false =>
        simp only [Bool.false_eq_true, if_false] at h
        refine ⟨?_, h⟩
        cases he : fajrExtreme h1
        · rfl
        · simp [he] at hredo
where
  C12aux_flag (r : Except Panic (Option PT)) (t : PT) (h : flagExtreme r = .ok (some t)) : t.extreme = true := by
    unfold flagExtreme at h
    split at h
    · simp only [Except.ok.injEq, Option.some.injEq] at h; subst h; rfl
    · rename_i hne; exact absurd h (by intro h'; exact hne t h')

/-- **… and therefore equals the conventional time**: with the policy layer of the real code, the
    unflagged Fajr of the adjusted parameters is the conventional Fajr at those parameters
    (`unflagged_is_conventional`), so an unflagged Imsaak is the clock time of the conventional
    Fajr at the sum angle - under every policy -/
theorem imsaak_unflagged_is_conventional (p : Params α) (hours : Hours α) (env : Env α) (c : PHours α) (t : PT)
    (run : Params α → Except Panic (PHours α))
    (hrun : run (imsaakParams1 p) = adjForExtLat (imsaakParams1 p) hours env)
    (hex : ExclNoIntervals (imsaakParams1 p))
    (hNLf : nonZero (imsaakParams1 p).intFajr = true → ∀ l, (imsaakParams1 p).policy = .NearestLatitudeAllPrayersAlways l → (env.nearLatHours l).fajr.isSome = true)
    (hNLi : nonZero (imsaakParams1 p).intIsha = true → ∀ l, (imsaakParams1 p).policy = .NearestLatitudeAllPrayersAlways l → (env.nearLatHours l).isha.isSome = true)
    (hc : conventional (imsaakParams1 p) hours env = .ok c)
    (h : imsaakOf p run = .ok (some t)) (hf : t.extreme = false) :
    optTime (imsaakParams1 p) .Fajr c.fajr = .ok (some t) := by
  obtain ⟨h1, hr1, he, ht⟩ := imsaak_unflagged_not_fallback p run t h hf
  rw [hrun] at hr1
  have hu := (unflagged_is_conventional (imsaakParams1 p) hours env h1 c hex hNLf hNLi hr1 hc).1
  cases hfj : h1.fajr with
  | none => rw [hfj] at ht; simp [optTime] at ht
  | some ph =>
    have hfl : ph.extreme = false := by simpa [fajrExtreme, hfj] using he
    have : h1.fajr = some ⟨ph.value, false⟩ := by rw [hfj, ← hfl]
    have hcf := hu ph.value this
    rw [hcf]
    rw [this] at ht
    exact ht

-- non-vacuity: the six policies and the angle-based parameter sets meet the hypotheses - in the
-- case the hypothesis is about (an interval-excluded policy with an angle-based method)
example : isInvalidOnly (Policy.HalfOfNightFajrIshaInvalid : Policy α) = true := rfl
example : ExclNoIntervals ({ (paramsNew .Mwl : Params Float) with policy := .HalfOfNightFajrIshaInvalid }) := by
  intro _; constructor <;> simp [paramsNew, nonZero, Gen.methodRow] <;> rfl

-- non-vacuity: the 12 policies the theorem speaks about satisfy `FajrIshaOnly`
example : FajrIshaOnly (Policy.SeventhOfNightFajrIshaInvalid : Policy α) := ⟨rfl, rfl⟩
example (l : α) : FajrIshaOnly (Policy.NearestLatitudeFajrIshaAlways l) := ⟨rfl, rfl⟩
example : ¬ FajrIshaOnly (Policy.NearestGoodDayAllPrayersAlways : Policy α) := by simp [FajrIshaOnly, Policy.isGoodDayAll]

end IPT.C08
