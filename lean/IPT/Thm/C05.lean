import IPT.Thm.C03
import IPT.Thm.C04
import IPT.Lemmas.ExtLat
/-
  C05 — the daily schedule is complete and chronologically ordered.
  Seven entries: structural (a result is a record of seven; the correspondence asserts the key
  set of the real map).  Order of the conventionally computed times around Dhuhr: over ℝ.
  The links through Shurooq/Maghrib are at the level of first-approximation hour angles
  (`…_partial`: Shurooq < Dhuhr < Maghrib `riseset_offset_pos_partial`, Fajr ≤ Shurooq and Maghrib ≤
  Isha `twilight_outside_riseset_partial`, Asr < Maghrib `C04.asr_before_maghrib_first_approx_partial`;
  the Newton correction and refraction term are not bounded here).
-/
namespace IPT.C05
open IPT IPT.TrigLemmas IPT.ExtLatLemmas Real

/-- structural remark only: a result is a record of seven entries in `Prayer` order (that the seven
    entries of `prayerTimesDt` are the conversions of the six hours and of Imsaak is
    `C07.prayerTimesDt_entries`; the key set of the real map is asserted by the correspondence) -/
theorem seven_entries (d : DayTimes) :
    [d.imsaak, d.fajr, d.shur, d.dhuhr, d.asr, d.magh, d.isha].length = 7 := rfl

theorem hpd_pos : 0 < (Gen.DEGREES_TO_10_BASE : ℝ) := C03.hours_per_degree_pos

/-- **Fajr < Dhuhr < Isha strictly**, for non-negative depression angles up to 90° and the Sun
    not circumpolar-at-zenith (|φ-δ| < 90°) -/
theorem fajr_lt_dhuhr_lt_isha (angF angI lat dec dhuhr f i : ℝ)
    (hk : 0 < Real.cos (toRadians lat) * Real.cos (toRadians dec))
    (hu : |toRadians lat - toRadians dec| < Real.pi / 2)
    (haF : 0 ≤ angF) (haF' : angF ≤ 90) (haI : 0 ≤ angI) (haI' : angI ≤ 90)
    (hf : (fajrIsha angF angI lat dec dhuhr).1 = some f) (hi : (fajrIsha angF angI lat dec dhuhr).2 = some i) :
    f < dhuhr ∧ dhuhr < i := by
  have hc := hpd_pos
  -- r < 1 because sin(-a) ≤ 0 < cos(φ-δ)
  have hr : ∀ a : ℝ, 0 ≤ a → a ≤ 90 → twilightCos lat dec a < 1 := by
    intro a h0 h1
    rw [C03.twilightCos_real, div_lt_one hk]
    have hcos : Real.sin (toRadians lat) * Real.sin (toRadians dec) +
        Real.cos (toRadians lat) * Real.cos (toRadians dec) = Real.cos |toRadians lat - toRadians dec| := by
      rw [Real.cos_abs, Real.cos_sub]; ring
    have hcu : 0 < Real.cos |toRadians lat - toRadians dec| :=
      Real.cos_pos_of_mem_Ioo ⟨by linarith [Real.pi_pos, abs_nonneg (toRadians lat - toRadians dec)], hu⟩
    have hs : Real.sin (toRadians (-a)) ≤ 0 := by
      rw [toRadians_neg, Real.sin_neg, neg_nonpos]
      apply Real.sin_nonneg_of_nonneg_of_le_pi
      · rw [toRadians_real]; positivity
      · rw [toRadians_real]; have := Real.pi_pos; nlinarith
    linarith
  unfold fajrIsha at hf hi
  simp only at hf hi
  split at hf <;> [skip; simp at hf]
  split at hi <;> [skip; simp at hi]
  simp only [Option.some.injEq, sc_acos] at hf hi
  have p1 := toDegrees_pos (Real.arccos_pos.mpr (hr angF haF haF'))
  have p2 := toDegrees_pos (Real.arccos_pos.mpr (hr angI haI haI'))
  constructor
  · rw [← hf]; nlinarith
  · rw [← hi]; nlinarith

/-- **Asr < Isha strictly** (both after Dhuhr; the Asr altitude is positive, the Isha altitude is not) -/
theorem asr_lt_isha (ratio : AsrRatio) (angF angI lat dec dhuhr a i : ℝ)
    (hk : 0 < Real.cos (toRadians lat) * Real.cos (toRadians dec))
    (hu : |toRadians lat - toRadians dec| < Real.pi / 2)
    (haI : 0 ≤ angI) (haI' : angI ≤ 90)
    (ha : getAsr ratio lat dec dhuhr = some a) (hi : (fajrIsha angF angI lat dec dhuhr).2 = some i) : a < i := by
  have hc := hpd_pos
  unfold getAsr at ha
  unfold fajrIsha at hi
  simp only at ha hi
  split at ha <;> [skip; simp at ha]
  split at hi <;> [skip; simp at hi]
  rename_i wa wi
  rw [withinAbs1_real] at wa wi
  simp only [Option.some.injEq, sc_acos] at ha hi
  rw [← ha, ← hi]
  have hlt : twilightCos lat dec angI < asrCos ratio lat dec := by
    rw [C03.twilightCos_real, C04.asrCos_real]
    apply div_lt_div_of_pos_right _ hk
    apply sub_lt_sub_right
    have ht : 0 ≤ Real.tan |toRadians lat - toRadians dec| :=
      Real.tan_nonneg_of_nonneg_of_le_pi_div_two (abs_nonneg _) hu.le
    obtain ⟨_, hpos, hlt2⟩ := C04.asrAltitude_is_arccot (asrRatio ratio) (toRadians lat) (toRadians dec) (C04.ratio_pos ratio) ht
    have h1 : 0 < Real.sin (C04.asrAltitude (asrRatio ratio) (toRadians lat) (toRadians dec)) :=
      Real.sin_pos_of_pos_of_lt_pi hpos (by linarith [Real.pi_pos])
    have hs : Real.sin (toRadians (-angI)) ≤ 0 := by
      rw [toRadians_neg, Real.sin_neg, neg_nonpos]
      apply Real.sin_nonneg_of_nonneg_of_le_pi
      · rw [toRadians_real]; positivity
      · rw [toRadians_real]; have := Real.pi_pos; nlinarith
    linarith
  have := toDegrees_lt (Real.strictAntiOn_arccos ⟨wi.1, wi.2⟩ ⟨wa.1, wa.2⟩ hlt)
  nlinarith

/-- Dhuhr < Asr (Thm C04 `asr_after_dhuhr`); Imsaak ≤ Fajr is Thm C03 `twilight_monotone` at the sum angle -/
theorem dhuhr_lt_asr (ratio : AsrRatio) (lat dec dhuhr asr : ℝ)
    (hk : 0 < Real.cos (toRadians lat) * Real.cos (toRadians dec))
    (hu : |toRadians lat - toRadians dec| < Real.pi / 2)
    (h : getAsr ratio lat dec dhuhr = some asr) : dhuhr < asr :=
  C04.asr_after_dhuhr ratio lat dec dhuhr asr hk hu h

/-- Fajr lies within 180° of hour angle, i.e. 12 h, before Dhuhr (Isha and Asr after it:
    `C07.twilight_bounds`, `C07.asr_bounds`) -/
theorem within_12h (angF angI lat dec dhuhr f : ℝ) (hf : (fajrIsha angF angI lat dec dhuhr).1 = some f) :
    dhuhr - f ≤ 180 * Gen.DEGREES_TO_10_BASE := by
  have hc := hpd_pos
  unfold fajrIsha at hf
  simp only at hf
  split at hf <;> [skip; simp at hf]
  simp only [Option.some.injEq, sc_acos] at hf
  rw [← hf]
  have : toDegrees (Real.arccos (twilightCos lat dec angF)) ≤ 180 := by
    rw [toDegrees_real]
    have := Real.arccos_le_pi (twilightCos lat dec angF)
    have hp := Real.pi_pos
    rw [mul_div_assoc', div_le_iff₀ hp]; nlinarith
  nlinarith

/-- arithmetic remark: with a positive interval, Maghrib + interval is after Maghrib and Shurooq −
    interval before Shurooq (that an interval-defined Isha/Fajr IS that expression: `C12.isha_fajr_interval`) -/
theorem interval_order (m s int : ℝ) (h : 0 < int) :
    m < m + int / Gen.MIN_SEC_PER_HR_MIN ∧ s - int / Gen.MIN_SEC_PER_HR_MIN < s := by
  rw [c_MIN_SEC]; constructor <;> linarith [div_pos h (show (0 : ℝ) < 60 by norm_num)]

/-- Shurooq before and Maghrib after transit, at the level of the first approximation: the
    rise/set offset H₀/360 is a positive fraction of a day whenever −1 < r < 1 (`…_partial`) -/
theorem riseset_offset_pos_partial (lat dec adj : ℝ) (h : shurMaghM0Adj lat dec = some adj)
    (hr : (Real.sin (toRadians (Gen.CENTER_OF_SUN_ANGLE : ℝ)) - Real.sin (toRadians lat) * Real.sin (toRadians dec)) /
      (Real.cos (toRadians lat) * Real.cos (toRadians dec)) < 1)
    (hr' : -1 < (Real.sin (toRadians (Gen.CENTER_OF_SUN_ANGLE : ℝ)) - Real.sin (toRadians lat) * Real.sin (toRadians dec)) /
      (Real.cos (toRadians lat) * Real.cos (toRadians dec))) :
    0 < adj ∧ adj < 1 / 2 := by
  unfold shurMaghM0Adj at h
  simp only [sc_sin, sc_cos, sc_acos] at h
  split at h <;> [skip; simp at h]
  simp only [Option.some.injEq] at h
  set r := (Real.sin (toRadians (Gen.CENTER_OF_SUN_ANGLE : ℝ)) - Real.sin (toRadians lat) * Real.sin (toRadians dec)) /
      (Real.cos (toRadians lat) * Real.cos (toRadians dec)) with hrdef
  have h0 : 0 < toDegrees (Real.arccos r) := toDegrees_pos (Real.arccos_pos.mpr hr)
  have h180 : toDegrees (Real.arccos r) < 180 := by
    rw [toDegrees_real]
    have : Real.arccos r < Real.pi := by
      rw [← Real.arccos_neg_one]
      exact Real.strictAntiOn_arccos ⟨le_refl _, by norm_num⟩ ⟨hr'.le, hr.le⟩ hr'
    have hp := Real.pi_pos
    rw [mul_div_assoc', div_lt_iff₀ hp]; nlinarith
  -- capAngle180 is the identity on (0, 180)
  have hcap : capAngle180 (toDegrees (Real.arccos r)) = toDegrees (Real.arccos r) := by
    set y := toDegrees (Real.arccos r)
    simp only [capAngle180, capAngle, c_PI_DEG, sc_floor, sc_ltb, lit_zero]
    have hfl : ⌊y / 180⌋ = 0 := by
      rw [Int.floor_eq_iff]; constructor
      · simp; positivity
      · simp; rw [div_lt_one (by norm_num)]; exact h180
    simp only [hfl, Int.cast_zero, sub_zero]
    have : 0 < y / 180 := by positivity
    simp only [this, decide_true, if_true]
    field_simp
  rw [hcap, c_TWO_PI_DEG] at h
  rw [← h]
  constructor
  · positivity
  · rw [div_lt_iff₀ (by norm_num)]; linarith

/-- the rise/set hour angle in degrees is 360 times the day-fraction offset: 360·adj = arccos(r₀)° whenever −1 < r₀ < 1 -/
theorem riseset_hourangle (lat dec adj : ℝ) (h : shurMaghM0Adj lat dec = some adj)
    (hr : (Real.sin (toRadians (Gen.CENTER_OF_SUN_ANGLE : ℝ)) - Real.sin (toRadians lat) * Real.sin (toRadians dec)) /
      (Real.cos (toRadians lat) * Real.cos (toRadians dec)) < 1)
    (hr' : -1 < (Real.sin (toRadians (Gen.CENTER_OF_SUN_ANGLE : ℝ)) - Real.sin (toRadians lat) * Real.sin (toRadians dec)) /
      (Real.cos (toRadians lat) * Real.cos (toRadians dec))) :
    360 * adj = toDegrees (Real.arccos ((Real.sin (toRadians (Gen.CENTER_OF_SUN_ANGLE : ℝ)) - Real.sin (toRadians lat) * Real.sin (toRadians dec)) /
      (Real.cos (toRadians lat) * Real.cos (toRadians dec)))) := by
  unfold shurMaghM0Adj at h
  simp only [sc_sin, sc_cos, sc_acos] at h
  split at h <;> [skip; simp at h]
  simp only [Option.some.injEq] at h
  set r := (Real.sin (toRadians (Gen.CENTER_OF_SUN_ANGLE : ℝ)) - Real.sin (toRadians lat) * Real.sin (toRadians dec)) /
      (Real.cos (toRadians lat) * Real.cos (toRadians dec)) with hrdef
  have h0 : 0 < toDegrees (Real.arccos r) := toDegrees_pos (Real.arccos_pos.mpr hr)
  have h180 : toDegrees (Real.arccos r) < 180 := by
    rw [toDegrees_real]
    have : Real.arccos r < Real.pi := by
      rw [← Real.arccos_neg_one]
      exact Real.strictAntiOn_arccos ⟨le_refl _, by norm_num⟩ ⟨hr'.le, hr.le⟩ hr'
    have hp := Real.pi_pos
    rw [mul_div_assoc', div_lt_iff₀ hp]; nlinarith
  -- capAngle180 is the identity on (0, 180)
  have hcap : capAngle180 (toDegrees (Real.arccos r)) = toDegrees (Real.arccos r) := by
    set y := toDegrees (Real.arccos r)
    simp only [capAngle180, capAngle, c_PI_DEG, sc_floor, sc_ltb, lit_zero]
    have hfl : ⌊y / 180⌋ = 0 := by
      rw [Int.floor_eq_iff]; constructor
      · simp; positivity
      · simp; rw [div_lt_one (by norm_num)]; exact h180
    simp only [hfl, Int.cast_zero, sub_zero]
    have : 0 < y / 180 := by positivity
    simp only [this, decide_true, if_true]
    field_simp
  rw [hcap, c_TWO_PI_DEG] at h
  rw [← h]; field_simp

/-- **Fajr is at least as far before the transit as the first approximation of Shurooq, Isha as far
    after it as that of Maghrib** (`…_partial`: first approximations; the one-step correction of
    rise/set is not bounded here): for a depression angle a ≥ 0.83337° the twilight hour angle is at
    least the rise/set hour angle -/
theorem twilight_outside_riseset_partial (lat dec a adj : ℝ)
    (hk : 0 < Real.cos (toRadians lat) * Real.cos (toRadians dec))
    (ha : 83337 / 100000 ≤ a) (ha' : a ≤ 90)
    (h : shurMaghM0Adj lat dec = some adj)
    (hr : (Real.sin (toRadians (Gen.CENTER_OF_SUN_ANGLE : ℝ)) - Real.sin (toRadians lat) * Real.sin (toRadians dec)) /
      (Real.cos (toRadians lat) * Real.cos (toRadians dec)) < 1)
    (hr' : -1 < (Real.sin (toRadians (Gen.CENTER_OF_SUN_ANGLE : ℝ)) - Real.sin (toRadians lat) * Real.sin (toRadians dec)) /
      (Real.cos (toRadians lat) * Real.cos (toRadians dec))) :
    360 * adj ≤ toDegrees (Real.arccos (twilightCos lat dec a)) := by
  rw [riseset_hourangle lat dec adj h hr hr']
  have e0 : (Real.sin (toRadians (Gen.CENTER_OF_SUN_ANGLE : ℝ)) - Real.sin (toRadians lat) * Real.sin (toRadians dec)) /
      (Real.cos (toRadians lat) * Real.cos (toRadians dec)) = twilightCos lat dec (83337 / 100000) := by
    rw [C03.twilightCos_real, c_CENTER_OF_SUN_ANGLE]
  rw [e0]
  have m := C03.twilightCos_antitone lat dec (83337 / 100000) a hk (by norm_num) ha ha'
  exact toDegrees_le (Real.arccos_le_arccos m)

variable {α : Type} [Add α] [Sub α] [Mul α] [Div α] [Neg α] [OfScientific α] [Sc α]

/-- **with no extreme-latitude policy nothing is flagged extreme** — all six hours, every scalar
    type, with or without intervals -/
theorem none_policy_no_extreme (p : Params α) (hours : Hours α) (env : Env α) (r : PHours α)
    (hp : p.policy = .None) (hr : adjForExtLat p hours env = .ok r) :
    flagOf r.fajr = false ∧ flagOf r.shur = false ∧ flagOf r.dhuhr = false ∧
    flagOf r.asr = false ∧ flagOf r.magh = false ∧ flagOf r.isha = false := by
  have hg : Gen.intFlagRead = .mapOrFalse := by decide
  have hap : applyPolicy p hours.toPH env = .ok hours.toPH := by
    simp [applyPolicy, canAdj, hp, Policy.isNone]
  unfold adjForExtLat at hr
  rw [hap] at hr
  simp only at hr
  obtain ⟨hf, hi⟩ := adjForInt_out p _ r hg hr
  have ho := adjForInt_others p _ r hr
  have c : ∀ x : Option α, flagOf (x.map PH.conv) = false := flagOf_conv
  refine ⟨?_, ?_, ?_, ?_, ?_, ?_⟩
  · rw [hf]; unfold intFajrOut; split
    · exact c _
    · simp only [Hours.toPH]; cases hours.shur <;> simp [flagOf_conv] <;> rfl
  · rw [ho.1]; exact c _
  · rw [ho.2.1]; exact c _
  · rw [ho.2.2.1]; exact c _
  · rw [ho.2.2.2]; exact c _
  · rw [hi]; unfold intIshaOut; split
    · exact c _
    · simp only [Hours.toPH]; cases hours.magh <;> simp [flagOf_conv] <;> rfl

/-- …and so is Imsaak: under policy None the first Fajr is never extreme, so Imsaak is that Fajr's
    time with that Fajr's (false) flag -/
theorem none_policy_imsaak_not_extreme (p : Params α) (t : TopAstroDay α) (w : Weather α) (pt : PT)
    (hp : p.policy = .None) (h : getImsaak p t w = .ok (some pt)) : pt.extreme = false := by
  unfold getImsaak imsaakOf at h
  have hp1 : (imsaakParams1 p).policy = .None := by
    unfold imsaakParams1; split <;> [skip; split] <;> simpa using hp
  cases h1 : getHoursAdjExt (imsaakParams1 p) t w with
  | error e => simp [h1] at h
  | ok r1 =>
    have hfl := (none_policy_no_extreme (imsaakParams1 p) _ _ r1 hp1 h1).1
    cases h0 : getHoursAdjExt p t w with
    | error e =>
      have : fajrExtreme r1 = false := by
        unfold fajrExtreme; cases hf : r1.fajr <;> simp_all [flagOf]
      simp [h1, h0, this] at h
    | ok r0 =>
      have hfl0 := (none_policy_no_extreme p _ _ r0 hp h0).1
      have e1 : fajrExtreme r1 = false := by
        unfold fajrExtreme; cases hf : r1.fajr <;> simp_all [flagOf]
      have e0 : fajrExtreme r0 = false := by
        unfold fajrExtreme; cases hf : r0.fajr <;> simp_all [flagOf]
      simp only [h1, h0, e1, e0, Bool.false_eq_true, if_false] at h
      cases hf : r1.fajr with
      | none => simp [hf, optTime] at h
      | some f =>
        have : f.extreme = false := by simpa [flagOf, hf] using hfl
        simp only [hf, optTime, toPrayerTime] at h
        split at h
        · simp at h
        · rename_i tt htt
          split at htt
          · simp at htt
          · simp only [Except.ok.injEq] at htt; subst htt
            simp only [Except.ok.injEq, Option.some.injEq] at h; subst h; exact this

end IPT.C05
