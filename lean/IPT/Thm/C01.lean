import IPT.Lemmas.Angle
import IPT.Lemmas.ExtLat
import IPT.Thm.C13
import IPT.Thm.C07
import IPT.Spec.Vsop
/-
  C01 — Dhuhr is the instant of local apparent solar noon (PARTIAL).
  Proved: Dhuhr is always reported, under all 15 policies (every scalar type); the transit
  fraction and hour angle are the stated quantities modulo whole turns (ℝ); the one-step hour-angle
  correction leaves a residual H·κ with κ = (Δ₁/2 + Δ₂(m+m′)/2 − 0.985647)/360 (exact identity, ℝ);
  the right-ascension wrap handling yields the differences of the unwrapped sequence (ℝ); the
  Julian Day is the civil day number plus a constant (Thm C13); the VSOP87/nutation tables and the
  sidereal constants are the published ones (frozen snapshot).
  NOT proved: that the truncated VSOP87 theory agrees with the sky within 10 s — decided by the
  falsifier against an independent ephemeris; the envelope (daily RA motion in [0.85°,1.15°],
  |H(m)| small) under which the residual is below 0.06 s is monitored, not proved.
-/
namespace IPT.C01
open IPT IPT.AngleLemmas IPT.ExtLatLemmas

section generic
variable {α : Type} [Add α] [Sub α] [Mul α] [Div α] [Neg α] [OfScientific α] [Sc α]

/-- the regenerated tables equal the frozen snapshot IPT/Spec/Vsop.lean row by row, for every scalar
    type (a pin against silent edits of a coefficient; that the snapshot is Meeus' truncated VSOP87
    is part of the trusted base, cross-checked to 0.02° by the independent ephemeris) -/
theorem tables_are_meeus :
    (Gen.L0 : List (α × α × α)) = Spec.L0 ∧ (Gen.L1 : List (α × α × α)) = Spec.L1 ∧
    (Gen.L2 : List (α × α × α)) = Spec.L2 ∧ (Gen.L3 : List (α × α × α)) = Spec.L3 ∧
    (Gen.L4 : List (α × α × α)) = Spec.L4 ∧ (Gen.L5 : List (α × α × α)) = Spec.L5 ∧
    (Gen.B0 : List (α × α × α)) = Spec.B0 ∧ (Gen.B1 : List (α × α × α)) = Spec.B1 ∧
    (Gen.R0 : List (α × α × α)) = Spec.R0 ∧ (Gen.R1 : List (α × α × α)) = Spec.R1 ∧
    (Gen.R2 : List (α × α × α)) = Spec.R2 ∧ (Gen.R3 : List (α × α × α)) = Spec.R3 ∧
    (Gen.R4 : List (α × α × α)) = Spec.R4 ∧ (Gen.PE : List (α × α × α × α)) = Spec.PE ∧
    Gen.SIN_COEFFICIENT = Spec.SIN_COEFFICIENT :=
  ⟨rfl, rfl, rfl, rfl, rfl, rfl, rfl, rfl, rfl, rfl, rfl, rfl, rfl, rfl, rfl⟩

/-- the sidereal-time and epoch constants are the documented ones -/
theorem sidereal_constants :
    (Gen.SIDEREAL_RATE : α) = 360.985647 ∧ (Gen.J2000 : α) = 2451545.0 ∧ (Gen.GMST0 : α) = 280.46061837 ∧
    (Gen.GMST1 : α) = 360.98564736629 ∧ (Gen.GMST2 : α) = 0.000387933 ∧ (Gen.GMST3 : α) = 38710000.0 ∧
    (Gen.TWO_PI_DEG : α) = 360.0 ∧ (Gen.HRS_PER_DAY : α) = 24.0 := ⟨rfl, rfl, rfl, rfl, rfl, rfl, rfl, rfl⟩

/-- conventional Dhuhr is always computed -/
theorem dhuhr_always_some (p : Params α) (t : TopAstroDay α) (w : Weather α) : (getHours p t w).dhuhr.isSome = true := by
  simp [getHours]

/-- **Dhuhr is never invalid, under any of the 15 policies** — also when the policy replaces it
    (nearest good day / nearest latitude "all prayers"): every environment whose days report Dhuhr -/
theorem dhuhr_always_reported (p : Params α) (hours : Hours α) (env : Env α) (r : PHours α)
    (hd : hours.dhuhr.isSome = true) (henv : ∀ off, (env.hoursAt off).dhuhr.isSome = true)
    (hr : adjForExtLat p hours env = .ok r) : r.dhuhr.isSome = true := by
  unfold adjForExtLat at hr
  split at hr
  · simp at hr
  · rename_i h1 hh1
    rw [(adjForInt_others p h1 r hr).2.1]
    by_cases hB : p.policy.isGoodDayAll = false
    · by_cases hA : p.policy.isNearLatAll = false
      · have : SameOthers h1 hours.toPH := by
          unfold applyPolicy at hh1
          split at hh1
          · split at hh1
            · simp only [Except.ok.injEq] at hh1; subst hh1; exact angleBased_others _ _
            · exact adjNearLat_others p _ _ _ hA hh1
            · simp only [Except.ok.injEq] at hh1; subst hh1; exact adjNearGood_others _ _ _ hB
            · simp only [Except.ok.injEq] at hh1; subst hh1; exact adjSevHalf_others _ _
            · simp only [Except.ok.injEq] at hh1; subst hh1; exact adjMinAlways_others _
            · simp only [Except.ok.injEq] at hh1; subst hh1; exact adjMinInv_others _ _
            · simp only [Except.ok.injEq] at hh1; subst hh1; exact SameOthers.rfl' _
          · simp only [Except.ok.injEq] at hh1; subst hh1; exact SameOthers.rfl' _
        rw [this.2.1]; simpa [Hours.toPH] using hd
      · -- nearest latitude, all prayers: Dhuhr keeps its value, flagged
        obtain ⟨l, hpol⟩ : ∃ l, p.policy = .NearestLatitudeAllPrayersAlways l := by
          cases hp : p.policy <;> simp [Policy.isNearLatAll, hp] at hA
          exact ⟨_, rfl⟩
        unfold applyPolicy at hh1
        simp only [hpol, Gen.dispatch] at hh1
        split at hh1
        · unfold adjNearLat at hh1
          simp only [hpol, Policy.isNearLatFIInvalid, Policy.isNearLatAll] at hh1
          obtain ⟨d, hd'⟩ := Option.isSome_iff_exists.mp hd
          cases hf : (env.nearLatHours l).fajr <;> cases hi : (env.nearLatHours l).isha <;>
            simp [Hours.toPH, hd', hf, hi] at hh1 <;> subst hh1 <;> rfl
        · simp only [Except.ok.injEq] at hh1; subst hh1; simpa [Hours.toPH] using hd
    · -- nearest good day, all prayers: Dhuhr of the found day
      have hpol : p.policy = .NearestGoodDayAllPrayersAlways := by
        cases hp : p.policy <;> simp [Policy.isGoodDayAll, hp] at hB; rfl
      unfold applyPolicy at hh1
      simp only [hpol, Gen.dispatch] at hh1
      split at hh1
      · simp only [Except.ok.injEq] at hh1; subst hh1
        unfold adjNearGood
        simp only [hpol, Policy.isGoodDayAll]
        split
        · simpa [Hours.toPH] using hd
        · rename_i a ha
          obtain ⟨_, _, i, _, hi⟩ := searchGood_some _ _ _ ha
          have : a.dhuhr.isSome = true := by rcases hi with e | e <;> rw [e] <;> exact henv _
          obtain ⟨x, hx⟩ := Option.isSome_iff_exists.mp this
          simp [hx]
      · simp only [Except.ok.injEq] at hh1; subst hh1; simpa [Hours.toPH] using hd


/-- **Dhuhr is reported by the public entry point, whatever the policy**: in every result of
    `prayerTimesDt` (all parameter sets, places, dates, weather) the Dhuhr entry is present - the
    instantiation of `dhuhr_always_reported` at the real environment, carried through the assembly
    of the result (`C07.prayerTimesDt_entries`) -/
theorem dhuhr_reported_api (p : Params α) (loc : Location α) (rd : Int) (w : Option (Weather α)) (d : DayTimes)
    (h : prayerTimesDt p loc rd w = .ok d) : d.dhuhr.isSome = true := by
  obtain ⟨hh, h1, _, _, hd, _⟩ := C07.prayerTimesDt_entries p loc rd w d h
  have := dhuhr_always_reported p _ _ hh (dhuhr_always_some p _ _)
    (fun off => by simp [envOf, getHours]) h1
  obtain ⟨x, hx⟩ := Option.isSome_iff_exists.mp this
  rw [hx] at hd
  simp only [optTime] at hd
  split at hd
  · simp at hd
  · simp only [Except.ok.injEq] at hd; rw [← hd]; rfl

end generic

/-- the local hour angle the code interpolates, before normalisation: apparent sidereal time at
    Greenwich advanced by 360.985647°/day, plus east longitude, minus the interpolated RA -/
noncomputable def g (sid ra lon d1 d2 m : ℝ) : ℝ := sid + 360985647 / 1000000 * m + lon - (ra + m * (d1 + d2 * m) / 2)

/-- get_hour_angle returns that angle reduced into (-180°, 180°] -/
theorem hourAngle_spec (sid ra lon d1 d2 m : ℝ) :
    -180 < hourAngle sid ra lon (d1, d2) m ∧ hourAngle sid ra lon (d1, d2) m ≤ 180 ∧
    ∃ k : ℤ, hourAngle sid ra lon (d1, d2) m = g sid ra lon d1 d2 m - 360 * k := by
  unfold hourAngle
  simp only [c_SIDEREAL_RATE, lit_two]
  obtain ⟨a, b, k1, hk1⟩ := capAngleBetween180_spec
    (capAngle360 (sid + 360985647 / 1000000 * m) + lon - (ra + m * (d1 + d2 * m) / 2))
  obtain ⟨_, _, hk2⟩ := capAngle360_spec (sid + 360985647 / 1000000 * m)
  refine ⟨a, b, k1 + ⌊(sid + 360985647 / 1000000 * m) / 360⌋, ?_⟩
  rw [hk1, hk2]; unfold g; push_cast; ring

/-- **the one-step correction**: with H the hour angle at fraction m (any whole number of turns j
    removed) and m′ = m − H/360 the corrected fraction (Dhuhr = 24·m′), the hour angle at m′ is
    H·κ, κ = (Δ₁/2 + Δ₂(m+m′)/2 − 0.985647)/360 — an exact identity of the model's quadratic RA and
    linear sidereal time -/
theorem residual_after_correction (sid ra lon d1 d2 m : ℝ) (j : ℤ) :
    let H := g sid ra lon d1 d2 m - 360 * j
    let m' := m - H / 360
    g sid ra lon d1 d2 m' - 360 * j = H * ((d1 / 2 + d2 * (m + m') / 2 - 985647 / 1000000) / 360) := by
  simp only [g]; ring

/-- **Dhuhr is the corrected transit**: Dhuhr/24 is the day fraction m′ = m − H/360 with
    m = frac((α − L − θ₀)/360) the mean transit fraction and H the hour angle at m; the model's hour
    angle at that fraction is H·κ modulo whole turns -/
theorem dhuhr_residual (t : TopAstroDay ℝ) (w : Weather ℝ) :
    let d := raInterpDeltas t.prev.ra t.cur.ra t.next.ra
    let m := capAngle1 ((t.cur.ra - t.coords.lon - t.cur.sid) / 360)
    let H := hourAngle t.cur.sid t.cur.ra t.coords.lon d m
    let m' := (shurDhuhrMagh t w).2.1 / 24
    m' = m - H / 360 ∧
    ∃ j : ℤ, g t.cur.sid t.cur.ra t.coords.lon d.1 d.2 m' - 360 * j =
      H * ((d.1 / 2 + d.2 * (m + m') / 2 - 985647 / 1000000) / 360) := by
  intro d m H m'
  have hm' : m' = m - H / 360 := by
    simp only [m', shurDhuhrMagh, c_TWO_PI_DEG, c_HRS_PER_DAY]
    ring
  refine ⟨hm', ?_⟩
  obtain ⟨_, _, k, hk⟩ := hourAngle_spec t.cur.sid t.cur.ra t.coords.lon d.1 d.2 m
  refine ⟨k, ?_⟩
  have := residual_after_correction t.cur.sid t.cur.ra t.coords.lon d.1 d.2 m k
  simp only at this
  have hH : H = g t.cur.sid t.cur.ra t.coords.lon d.1 d.2 m - 360 * k := hk
  rw [hm', hH]
  exact this

/-- so under the envelope (daily RA motion within [0.85°, 1.15°]·2, small second difference,
    |H| ≤ 0.5°) the residual hour angle is below 1/3800° ≈ 2.6·10⁻⁴° = 0.063 s of time -/
theorem residual_bound (H d1 d2 mm : ℝ) (hH : |H| ≤ 1 / 2) (h1 : 17 / 10 ≤ d1) (h1' : d1 ≤ 23 / 10)
    (h2 : |d2 * mm / 2| ≤ 1 / 50) :
    |H * ((d1 / 2 + d2 * mm / 2 - 985647 / 1000000) / 360)| ≤ 1 / 3800 := by
  rw [abs_mul]
  have hk : |(d1 / 2 + d2 * mm / 2 - 985647 / 1000000) / 360| ≤ 1 / 1900 := by
    rw [abs_le] at h2 ⊢
    constructor
    · rw [le_div_iff₀ (by norm_num : (0 : ℝ) < 360)]; linarith [h2.1]
    · rw [div_le_iff₀ (by norm_num : (0 : ℝ) < 360)]; linarith [h2.2]
  calc |H| * |(d1 / 2 + d2 * mm / 2 - 985647 / 1000000) / 360| ≤ (1 / 2) * (1 / 1900) :=
        mul_le_mul hH hk (abs_nonneg _) (by norm_num)
    _ = 1 / 3800 := by norm_num

/-- **Dhuhr's hour angle under the envelope**, end to end on the model: for a day whose interpolation
    deltas and first hour angle lie in the envelope (two-day RA motion in [1.7°, 2.3°], second difference
    at most 0.019°, hour angle at the mean transit at most 0.5° - the falsifier evaluates exactly these
    on the implementation's ephemeris for every case), the model's hour angle at the reported Dhuhr
    is, modulo whole turns, at most 1/3800° = 0.063 s of time -/
theorem dhuhr_hour_angle_small (t : TopAstroDay ℝ) (w : Weather ℝ)
    (hH : |hourAngle t.cur.sid t.cur.ra t.coords.lon (raInterpDeltas t.prev.ra t.cur.ra t.next.ra)
            (capAngle1 ((t.cur.ra - t.coords.lon - t.cur.sid) / 360))| ≤ 1 / 2)
    (h1 : 17 / 10 ≤ (raInterpDeltas t.prev.ra t.cur.ra t.next.ra).1)
    (h1' : (raInterpDeltas t.prev.ra t.cur.ra t.next.ra).1 ≤ 23 / 10)
    (h2 : |(raInterpDeltas t.prev.ra t.cur.ra t.next.ra).2| ≤ 19 / 1000) :
    ∃ j : ℤ, |g t.cur.sid t.cur.ra t.coords.lon (raInterpDeltas t.prev.ra t.cur.ra t.next.ra).1
        (raInterpDeltas t.prev.ra t.cur.ra t.next.ra).2 ((shurDhuhrMagh t w).2.1 / 24) - 360 * j| ≤ 1 / 3800 := by
  obtain ⟨hm', j, hj⟩ := dhuhr_residual t w
  refine ⟨j, ?_⟩
  rw [hj]
  set d := raInterpDeltas t.prev.ra t.cur.ra t.next.ra with hd
  set m := capAngle1 ((t.cur.ra - t.coords.lon - t.cur.sid) / 360) with hm
  set H := hourAngle t.cur.sid t.cur.ra t.coords.lon d m with hHdef
  set m' := (shurDhuhrMagh t w).2.1 / 24 with hm'def
  obtain ⟨m0, m1, _⟩ := capAngle1_spec ((t.cur.ra - t.coords.lon - t.cur.sid) / 360)
  have hHb := abs_le.mp hH
  have hmm : |(m + m') / 2| ≤ 1001 / 1000 := by
    rw [abs_le]; rw [hm']; constructor <;> linarith [hHb.1, hHb.2]
  have hprod : |d.2 * (m + m') / 2| ≤ 1 / 50 := by
    have : d.2 * (m + m') / 2 = d.2 * ((m + m') / 2) := by ring
    rw [this, abs_mul]
    calc |d.2| * |(m + m') / 2| ≤ (19 / 1000) * (1001 / 1000) :=
          mul_le_mul h2 hmm (abs_nonneg _) (by norm_num)
      _ ≤ 1 / 50 := by norm_num
  have := residual_bound H d.1 d.2 (m + m') hH h1 h1' hprod
  exact this

/-- **right-ascension wrap** (proved in Thm/C13 `ra_wrap_lift`; restated here because C01 depends on it):
    the interpolation deltas are those of the unwrapped sequence -/
theorem ra_wrap_lift (P C N : ℝ) (hC0 : 0 ≤ C) (hC1 : C < 360)
    (hp0 : 0 < C - P) (hp1 : C - P < 10) (hn0 : 0 < N - C) (hn1 : N - C < 10) :
    raInterpDeltas (if P < 0 then P + 360 else P) C (if 360 ≤ N then N - 360 else N) = (N - P, N + P - 2 * C) :=
  C13.ra_wrap_lift P C N hC0 hC1 hp0 hp1 hn0 hn1

-- non-vacuity: the day after the equinox wrap (359.5°, 0.5°, 1.5°) meets the hypotheses with P = −0.5
example : (0 : ℝ) ≤ 0.5 ∧ (0.5 : ℝ) < 360 ∧ (0 : ℝ) < 0.5 - (-0.5) ∧ (0.5 : ℝ) - (-0.5) < 10 := by norm_num

end IPT.C01
