import IPT.Lemmas.Trig
import IPT.Model.Qibla
/-
  C16 — Qibla is the great-circle bearing to the Kaaba.  Over ℝ: the reported angle is the angle,
  measured from true north towards WEST (counter-clockwise seen from above), of the direction from
  the observer to the Kaaba, computed from 3-D unit vectors; it lies in (-180°, 180°].  Elevation:
  the model function takes latitude and longitude only - a modelling choice that the translator backs
  (`Qibla::new` must not mention `elevation`, gen_consts group `qibla`) and the falsifier exercises
  with random elevations; `qibla_elevation_independent` states it for the record.  The one-decimal text rendering is checked by the falsifier.
-/
namespace IPT.C16
open IPT IPT.TrigLemmas Real

/-- the bearing of a place given as coordinates: elevation is carried along and not used -/
noncomputable def qiblaOf (c : Coords ℝ) : ℝ := qiblaDegrees c.lat c.lon

/-- changing only the elevation does not change the Qibla -/
theorem qibla_elevation_independent (c : Coords ℝ) (e : ℝ) : qiblaOf { c with elev := e } = qiblaOf c := rfl

/-- Kaaba coordinates used by the code: within 10⁻⁴° of 21.4233 N, 39.8233 E -/
theorem kaaba_coordinates :
    |(Gen.KAABA_LATITUDE : ℝ) - 21.4233| ≤ 1 / 10000 ∧ |(Gen.KAABA_LONGITUDE : ℝ) - 39.8233| ≤ 1 / 10000 := by
  rw [c_KAABA_LATITUDE, c_KAABA_LONGITUDE]
  constructor <;> rw [abs_le] <;> constructor <;> norm_num

/-- unit vector of a point at latitude φ, longitude λ (radians) -/
noncomputable def unitVec (φ l : ℝ) : ℝ × ℝ × ℝ := (Real.cos φ * Real.cos l, Real.cos φ * Real.sin l, Real.sin φ)
/-- local north and WEST unit vectors at (φ, λ) -/
noncomputable def northVec (φ l : ℝ) : ℝ × ℝ × ℝ := (-Real.sin φ * Real.cos l, -Real.sin φ * Real.sin l, Real.cos φ)
noncomputable def westVec (l : ℝ) : ℝ × ℝ × ℝ := (Real.sin l, -Real.cos l, 0)
def dot (a b : ℝ × ℝ × ℝ) : ℝ := a.1 * b.1 + a.2.1 * b.2.1 + a.2.2 * b.2.2

theorem cos_kaaba_lat_pos : 0 < Real.cos (toRadians (Gen.KAABA_LATITUDE : ℝ)) := by
  apply Real.cos_pos_of_mem_Ioo
  rw [toRadians_real, c_KAABA_LATITUDE]
  have := Real.pi_pos
  constructor <;> nlinarith

/-- **the Qibla angle is the bearing, counted from north towards west, of the Kaaba's direction**:
    atan2(K·west, K·north) with K the Kaaba's unit vector -/
theorem qibla_eq_vector_bearing (lat lon : ℝ) :
    let φ := toRadians lat
    let l := toRadians lon
    let K := unitVec (toRadians Gen.KAABA_LATITUDE) (toRadians Gen.KAABA_LONGITUDE)
    qiblaDegrees lat lon = toDegrees (Complex.arg ⟨dot K (northVec φ l), dot K (westVec l)⟩) := by
  intro φ l K
  have hc := cos_kaaba_lat_pos
  set φK := toRadians (Gen.KAABA_LATITUDE : ℝ) with hφK
  set lK := toRadians (Gen.KAABA_LONGITUDE : ℝ) with hlK
  simp only [qiblaDegrees, sc_sin, sc_cos, sc_tan, sc_atan2]
  congr 1
  -- the code's (y, sin x) is the vector (K·north, K·west) divided by cos φK > 0
  have hN : dot K (northVec φ l) = Real.cos φK * (Real.cos φ * Real.tan φK - Real.sin φ * Real.cos (l - lK)) := by
    simp only [dot, K, unitVec, northVec, Real.cos_sub, Real.tan_eq_sin_div_cos]
    field_simp; ring
  have hW : dot K (westVec l) = Real.cos φK * Real.sin (l - lK) := by
    simp only [dot, K, unitVec, westVec, Real.sin_sub]; ring
  rw [hN, hW]
  have key : ∀ (r a b : ℝ), 0 < r → Complex.arg ⟨a, b⟩ = Complex.arg ⟨r * a, r * b⟩ := by
    intro r a b hr
    have : (⟨r * a, r * b⟩ : ℂ) = ((r : ℝ) : ℂ) * ⟨a, b⟩ := by apply Complex.ext <;> simp
    rw [this, Complex.arg_real_mul _ hr]
  exact key _ _ _ hc

/-- **expressed in (-180°, 180°]** -/
theorem qibla_range (lat lon : ℝ) : -180 < qiblaDegrees lat lon ∧ qiblaDegrees lat lon ≤ 180 := by
  simp only [qiblaDegrees, sc_atan2, toDegrees_real]
  set z : ℂ := ⟨_, _⟩
  have h1 := Complex.neg_pi_lt_arg z
  have h2 := Complex.arg_le_pi z
  have hp := Real.pi_pos
  have hq : (0 : ℝ) < 180 / Real.pi := div_pos (by norm_num) hp
  have e : Real.pi * (180 / Real.pi) = 180 := by field_simp
  have a1 := mul_lt_mul_of_pos_right h1 hq
  have a2 := mul_le_mul_of_nonneg_right h2 hq.le
  constructor <;> nlinarith

/-- **the rotation label agrees with the sign**: clockwise (east of north) iff the angle is negative -/
theorem rotation_sign (deg : ℝ) : (rotation deg = .Cw ↔ deg < 0) ∧ (rotation deg = .Ccw ↔ 0 ≤ deg) := by
  simp only [rotation, sc_ltb, lit_zero]
  by_cases h : deg < 0 <;> simp [h]
  exact not_lt.mp h

/-- positive = west of north: due east of the Kaaba on its parallel the Kaaba lies to the west, K·west > 0 -/
example : dot (unitVec 0 0) (westVec (Real.pi / 2)) = 1 := by
  simp [dot, unitVec, westVec]

end IPT.C16
