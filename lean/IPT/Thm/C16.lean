import IPT.Lemmas.Trig
import IPT.Model.Qibla
import IPT.Model.Fmt
import IPT.Thm.C18
/-
  C16 — Qibla is the great-circle bearing to the Kaaba.  Over ℝ: the reported angle is the angle,
  measured from true north towards WEST (counter-clockwise seen from above), of the direction from
  the observer to the Kaaba, computed from 3-D unit vectors; it lies in (-180°, 180°].  Elevation:
  the model function takes latitude and longitude only - a modelling choice that the translator backs
  (`Qibla::new` must not mention `elevation`, gen_consts group `qibla`) and the falsifier exercises
  with random elevations; `qibla_elevation_independent` states it for the record.  The one-decimal text (`impl Display for Qibla`) is modelled at the bit level in Model/Fmt.lean
  (units `fmt1`, `qtext`); `text_magnitude`, `text_label` below state what it shows.
-/
namespace IPT.C16
open IPT IPT.TrigLemmas Real

/-- the bearing of a place given as coordinates: elevation is carried along and not used -/
noncomputable def qiblaOf (c : Coords ℝ) : ℝ := qiblaDegrees c.lat c.lon

/-- changing only the elevation does not change the Qibla -/
theorem qibla_elevation_independent (c : Coords ℝ) (e : ℝ) : qiblaOf { c with elev := e } = qiblaOf c := rfl

/-- Kaaba coordinates used by the code: within 10⁻⁴° of 21.4233 N, 39.8233 E -/
theorem kaaba_coordinates :
    |(Gen.KAABA_LATITUDE : ℝ) - 21.4233| ≤ 1 / 10000 ∧ |(Gen.KAABA_LONGITUDE : ℝ) - 39.8233| ≤ 1 / 10000 := by
  rw [c_KAABA_LATITUDE, c_KAABA_LONGITUDE]
  constructor <;> rw [abs_le] <;> constructor <;> norm_num

/-- unit vector of a point at latitude φ, longitude λ (radians) -/
noncomputable def unitVec (φ l : ℝ) : ℝ × ℝ × ℝ := (Real.cos φ * Real.cos l, Real.cos φ * Real.sin l, Real.sin φ)
/-- local north and WEST unit vectors at (φ, λ) -/
noncomputable def northVec (φ l : ℝ) : ℝ × ℝ × ℝ := (-Real.sin φ * Real.cos l, -Real.sin φ * Real.sin l, Real.cos φ)
noncomputable def westVec (l : ℝ) : ℝ × ℝ × ℝ := (Real.sin l, -Real.cos l, 0)
def dot (a b : ℝ × ℝ × ℝ) : ℝ := a.1 * b.1 + a.2.1 * b.2.1 + a.2.2 * b.2.2

theorem cos_kaaba_lat_pos : 0 < Real.cos (toRadians (Gen.KAABA_LATITUDE : ℝ)) := by
  apply Real.cos_pos_of_mem_Ioo
  rw [toRadians_real, c_KAABA_LATITUDE]
  have := Real.pi_pos
  constructor <;> nlinarith

/-- **the Qibla angle is the bearing, counted from north towards west, of the Kaaba's direction**:
    atan2(K·west, K·north) with K the Kaaba's unit vector -/
theorem qibla_eq_vector_bearing (lat lon : ℝ) :
    let φ := toRadians lat
    let l := toRadians lon
    let K := unitVec (toRadians Gen.KAABA_LATITUDE) (toRadians Gen.KAABA_LONGITUDE)
    qiblaDegrees lat lon = toDegrees (Complex.arg ⟨dot K (northVec φ l), dot K (westVec l)⟩) := by
  intro φ l K
  have hc := cos_kaaba_lat_pos
  set φK := toRadians (Gen.KAABA_LATITUDE : ℝ) with hφK
  set lK := toRadians (Gen.KAABA_LONGITUDE : ℝ) with hlK
  simp only [qiblaDegrees, sc_sin, sc_cos, sc_tan, sc_atan2]
  congr 1
  -- the code's (y, sin x) is the vector (K·north, K·west) divided by cos φK > 0
  have hN : dot K (northVec φ l) = Real.cos φK * (Real.cos φ * Real.tan φK - Real.sin φ * Real.cos (l - lK)) := by
    simp only [dot, K, unitVec, northVec, Real.cos_sub, Real.tan_eq_sin_div_cos]
    field_simp; ring
  have hW : dot K (westVec l) = Real.cos φK * Real.sin (l - lK) := by
    simp only [dot, K, unitVec, westVec, Real.sin_sub]; ring
  rw [hN, hW]
  have key : ∀ (r a b : ℝ), 0 < r → Complex.arg ⟨a, b⟩ = Complex.arg ⟨r * a, r * b⟩ := by
    intro r a b hr
    have : (⟨r * a, r * b⟩ : ℂ) = ((r : ℝ) : ℂ) * ⟨a, b⟩ := by apply Complex.ext <;> simp
    rw [this, Complex.arg_real_mul _ hr]
  exact key _ _ _ hc

/-- **expressed in (-180°, 180°]** -/
theorem qibla_range (lat lon : ℝ) : -180 < qiblaDegrees lat lon ∧ qiblaDegrees lat lon ≤ 180 := by
  simp only [qiblaDegrees, sc_atan2, toDegrees_real]
  set z : ℂ := ⟨_, _⟩
  have h1 := Complex.neg_pi_lt_arg z
  have h2 := Complex.arg_le_pi z
  have hp := Real.pi_pos
  have hq : (0 : ℝ) < 180 / Real.pi := div_pos (by norm_num) hp
  have e : Real.pi * (180 / Real.pi) = 180 := by field_simp
  have a1 := mul_lt_mul_of_pos_right h1 hq
  have a2 := mul_le_mul_of_nonneg_right h2 hq.le
  constructor <;> nlinarith

/-- **the rotation label agrees with the sign**: clockwise (east of north) iff the angle is negative -/
theorem rotation_sign (deg : ℝ) : (rotation deg = .Cw ↔ deg < 0) ∧ (rotation deg = .Ccw ↔ 0 ≤ deg) := by
  simp only [rotation, sc_ltb, lit_zero]
  by_cases h : deg < 0 <;> simp [h]
  exact not_lt.mp h


/-! ### The printed text (`{:.1}° CW|CCW`) agrees with the magnitude and the sign -/
section text
open IPT.F64

/-- round-half-even division is within half a unit: |q·d − n| ≤ d/2 -/
theorem roundDivEven_spec (n d : Nat) (hd : 0 < d) :
    2 * (roundDivEven n d * d) ≤ 2 * n + d ∧ 2 * n ≤ 2 * (roundDivEven n d * d) + d := by
  unfold roundDivEven
  have hn := Nat.div_add_mod n d
  have hr := Nat.mod_lt n hd
  have e1 : n / d * d = d * (n / d) := Nat.mul_comm _ _
  have e2 : (n / d + 1) * d = d * (n / d) + d := by rw [Nat.add_mul, Nat.one_mul, Nat.mul_comm]
  simp only
  split
  · rw [e1]; omega
  · split
    · rw [e2]; omega
    · split
      · rw [e1]; omega
      · rw [e2]; omega

/-- **the printed magnitude is the angle's magnitude to the nearest tenth**: with |x| =
    scaledMag m / 2^1074 the exact value of the magnitude bits and t the printed number of tenths
    (the text is `t/10 "." t%10`), |t/10 − |x|| ≤ 1/20 - stated without division:
    |2·t·2^1074 − 20·|x|·2^1074| ≤ 2^1074 -/
theorem text_magnitude (m : Nat) :
    2 * (tenthsOfMag m * 2 ^ 1074) ≤ 20 * scaledMag m + 2 ^ 1074 ∧
    20 * scaledMag m ≤ 2 * (tenthsOfMag m * 2 ^ 1074) + 2 ^ 1074 := by
  have h := roundDivEven_spec (10 * scaledMag m) (2 ^ 1074) (Nat.two_pow_pos _)
  unfold tenthsOfMag
  omega

/-- the same over ℚ: the printed tenths differ from the exact magnitude by at most 0.05 -/
theorem text_magnitude_rat (m : Nat) :
    |(tenthsOfMag m : ℚ) / 10 - (scaledMag m : ℚ) / ((2 ^ 1074 : ℕ) : ℚ)| ≤ 1 / 20 := by
  have key : ∀ (t s D : ℕ), 0 < D → 2 * (t * D) ≤ 20 * s + D → 20 * s ≤ 2 * (t * D) + D →
      |(t : ℚ) / 10 - (s : ℚ) / (D : ℚ)| ≤ 1 / 20 := by
    intro t s D hD h1 h2
    have p : (0 : ℚ) < D := by exact_mod_cast hD
    have h1' : 2 * ((t : ℚ) * D) ≤ 20 * s + D := by exact_mod_cast h1
    have h2' : 20 * (s : ℚ) ≤ 2 * ((t : ℚ) * D) + D := by exact_mod_cast h2
    have e : (t : ℚ) / 10 - (s : ℚ) / D = (t * D - 10 * s) / (10 * D) := by field_simp
    rw [e, abs_le]
    constructor
    · rw [le_div_iff₀ (by positivity)]; linarith
    · rw [div_le_iff₀ (by positivity)]; linarith
  obtain ⟨h1, h2⟩ := text_magnitude m
  exact key _ _ _ (Nat.two_pow_pos _) h1 h2

/-- **the printed label agrees with the sign**: `CW` is printed exactly when the angle is a number
    below zero (exact value of the bit pattern negative); zero, positive angles (and -0.0) print `CCW` -/
theorem text_label (b : Nat) :
    rotationIsCw b = true ↔ (isNaN b = false ∧ scaled b < 0) := by
  unfold rotationIsCw lt
  have hz : isNaN 0 = false := by decide
  have hk : key 0 = 0 := by decide
  have hs : scaled 0 = 0 := by decide
  have h := C18.key_le_iff_scaled_le 0 b
  rw [hk, hs] at h
  simp only [hz, Bool.not_false, Bool.and_true, Bool.and_eq_true, Bool.not_eq_true', decide_eq_true_eq, hk]
  constructor
  · rintro ⟨a, c⟩; exact ⟨a, by have := h.not; omega⟩
  · rintro ⟨a, c⟩; exact ⟨a, by have := h.not; omega⟩

/-- the text is the printed magnitude, a degree sign and the label, in that order -/
theorem text_shape (b : Nat) :
    qiblaText b = fmt1Abs b ++ "° " ++ (if rotationIsCw b then "CW" else "CCW") := rfl

/-- for a finite angle the printed magnitude is `t/10 "." t%10` with t = `tenthsOfMag` of the magnitude bits -/
theorem text_digits (b : Nat) (hf : isFinite b = true) :
    fmt1Abs b = toString (tenthsOfMag (magBits b) / 10) ++ "." ++ toString (tenthsOfMag (magBits b) % 10) := by
  have hn : isNaN b = false := by
    unfold isNaN; unfold isFinite at hf
    simp only [bne_iff_ne, ne_eq] at hf
    simp [hf]
  have hi : isInf b = false := by
    unfold isInf; unfold isFinite at hf
    simp only [bne_iff_ne, ne_eq] at hf
    simp [hf]
  simp only [fmt1Abs, hn, hi, Bool.false_eq_true, if_false]

-- non-vacuity / examples: 0.25 and 0.75 are ties (printed 0.2 and 0.8: to even); -58.83° prints "58.8° CW"
example : tenthsOfMag (magBits 0x3fd0000000000000) = 2 ∧ tenthsOfMag (magBits 0x3fe8000000000000) = 8 := by decide +kernel

end text

/-- positive = west of north: due east of the Kaaba on its parallel the Kaaba lies to the west, K·west > 0 -/
example : dot (unitVec 0 0) (westVec (Real.pi / 2)) = 1 := by
  simp [dot, unitVec, westVec]

end IPT.C16
