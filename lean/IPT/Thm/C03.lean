import IPT.Lemmas.Trig
import IPT.Model.Times
/-
  C03 — Fajr, Isha and Imsaak occur at the configured solar depression angle.
  Over ℝ, for the model's `fajrIsha` read with φ = latitude and δ = that date's declination
  (the clause "within 0.03° when evaluated with that date's declination" is exact here; the
  0.5° clause against the true instantaneous altitude is astronomical and left to the falsifier).
-/
namespace IPT.C03
open IPT IPT.TrigLemmas Real

theorem hours_per_degree_pos : 0 < (Gen.DEGREES_TO_10_BASE : ℝ) := by rw [c_DEGREES_TO_10_BASE]; norm_num

theorem twilightCos_real (lat dec a : ℝ) :
    twilightCos lat dec a =
      (Real.sin (toRadians (-a)) - Real.sin (toRadians lat) * Real.sin (toRadians dec)) /
        (Real.cos (toRadians lat) * Real.cos (toRadians dec)) := by
  simp only [twilightCos, sc_sin, sc_cos]

/-- **Fajr: the Sun is below the horizon by exactly the Fajr angle, before noon** -/
theorem fajr_altitude (angF angI lat dec dhuhr f : ℝ)
    (hk : Real.cos (toRadians lat) * Real.cos (toRadians dec) ≠ 0)
    (h : (fajrIsha angF angI lat dec dhuhr).1 = some f) :
    Real.sin (toRadians lat) * Real.sin (toRadians dec) +
      Real.cos (toRadians lat) * Real.cos (toRadians dec) *
        Real.cos (toRadians ((dhuhr - f) / Gen.DEGREES_TO_10_BASE)) = Real.sin (toRadians (-angF)) ∧
    f ≤ dhuhr := by
  unfold fajrIsha at h
  simp only at h
  split at h
  · rename_i hw
    simp only [Option.some.injEq] at h
    rw [withinAbs1_real] at hw
    have hc := hours_per_degree_pos
    have hH : (dhuhr - f) / Gen.DEGREES_TO_10_BASE = toDegrees (Real.arccos (twilightCos lat dec angF)) := by
      rw [← h]; simp only [sc_acos]; field_simp; ring
    constructor
    · rw [hH, toRadians_toDegrees, twilightCos_real] at *
      exact altitude_eq _ _ _ hk hw.1 hw.2
    · rw [← h]
      have := toDegrees_nonneg (Real.arccos_nonneg (twilightCos lat dec angF))
      simp only [sc_acos]; nlinarith
  · simp at h

/-- **Isha: the Sun is below the horizon by exactly the Isha angle, after noon** -/
theorem isha_altitude (angF angI lat dec dhuhr i : ℝ)
    (hk : Real.cos (toRadians lat) * Real.cos (toRadians dec) ≠ 0)
    (h : (fajrIsha angF angI lat dec dhuhr).2 = some i) :
    Real.sin (toRadians lat) * Real.sin (toRadians dec) +
      Real.cos (toRadians lat) * Real.cos (toRadians dec) *
        Real.cos (toRadians ((i - dhuhr) / Gen.DEGREES_TO_10_BASE)) = Real.sin (toRadians (-angI)) ∧
    dhuhr ≤ i := by
  unfold fajrIsha at h
  simp only at h
  split at h
  · rename_i hw
    simp only [Option.some.injEq] at h
    rw [withinAbs1_real] at hw
    have hc := hours_per_degree_pos
    have hH : (i - dhuhr) / Gen.DEGREES_TO_10_BASE = toDegrees (Real.arccos (twilightCos lat dec angI)) := by
      rw [← h]; simp only [sc_acos]; field_simp; ring
    constructor
    · rw [hH, toRadians_toDegrees, twilightCos_real] at *
      exact altitude_eq _ _ _ hk hw.1 hw.2
    · rw [← h]
      have := toDegrees_nonneg (Real.arccos_nonneg (twilightCos lat dec angI))
      simp only [sc_acos]; nlinarith
  · simp at h

/-- the twilight cosine is antitone in the depression angle (angles within ±90°, cos φ cos δ > 0) -/
theorem twilightCos_antitone (lat dec a a' : ℝ)
    (hk : 0 < Real.cos (toRadians lat) * Real.cos (toRadians dec))
    (h0 : -90 ≤ a) (h1 : a ≤ a') (h2 : a' ≤ 90) : twilightCos lat dec a' ≤ twilightCos lat dec a := by
  rw [twilightCos_real, twilightCos_real]
  apply div_le_div_of_nonneg_right _ hk.le
  apply sub_le_sub_right
  apply Real.sin_le_sin_of_le_of_le_pi_div_two
  · rw [toRadians_real]; have := Real.pi_pos; nlinarith
  · rw [toRadians_real]; have := Real.pi_pos; nlinarith
  · rw [toRadians_real, toRadians_real]; have := Real.pi_pos; nlinarith

/-- **a larger angle never gives a later Fajr** - needs the two Fajr times only (no hypothesis on
    Isha: also on the high-latitude days where Isha does not exist) -/
theorem fajr_monotone (a a' b b' lat dec dhuhr f f' : ℝ)
    (hk : 0 < Real.cos (toRadians lat) * Real.cos (toRadians dec))
    (ha0 : -90 ≤ a) (ha : a ≤ a') (ha1 : a' ≤ 90)
    (hf : (fajrIsha a b lat dec dhuhr).1 = some f) (hf' : (fajrIsha a' b' lat dec dhuhr).1 = some f') :
    f' ≤ f := by
  have hc := hours_per_degree_pos
  unfold fajrIsha at hf hf'
  simp only at hf hf'
  split at hf <;> [skip; simp at hf]
  split at hf' <;> [skip; simp at hf']
  simp only [Option.some.injEq, sc_acos] at hf hf'
  have m1 := twilightCos_antitone lat dec a a' hk ha0 ha ha1
  have e1 := toDegrees_le (Real.arccos_le_arccos m1)
  rw [← hf, ← hf']; nlinarith

/-- **a larger angle never gives an earlier Isha** - needs the two Isha times only -/
theorem isha_monotone (a a' b b' lat dec dhuhr i i' : ℝ)
    (hk : 0 < Real.cos (toRadians lat) * Real.cos (toRadians dec))
    (hb0 : -90 ≤ b) (hb : b ≤ b') (hb1 : b' ≤ 90)
    (hi : (fajrIsha a b lat dec dhuhr).2 = some i) (hi' : (fajrIsha a' b' lat dec dhuhr).2 = some i') :
    i ≤ i' := by
  have hc := hours_per_degree_pos
  unfold fajrIsha at hi hi'
  simp only at hi hi'
  split at hi <;> [skip; simp at hi]
  split at hi' <;> [skip; simp at hi']
  simp only [Option.some.injEq, sc_acos] at hi hi'
  have m2 := twilightCos_antitone lat dec b b' hk hb0 hb hb1
  have e2 := toDegrees_le (Real.arccos_le_arccos m2)
  rw [← hi, ← hi']; nlinarith

/-- **a larger angle never gives a later Fajr or an earlier Isha** (joint form; `fajr_monotone` and `isha_monotone`
    are the one-sided statements) -/
theorem twilight_monotone (a a' b b' lat dec dhuhr f f' i i' : ℝ)
    (hk : 0 < Real.cos (toRadians lat) * Real.cos (toRadians dec))
    (ha0 : -90 ≤ a) (ha : a ≤ a') (ha1 : a' ≤ 90) (hb0 : -90 ≤ b) (hb : b ≤ b') (hb1 : b' ≤ 90)
    (hf : (fajrIsha a b lat dec dhuhr).1 = some f) (hf' : (fajrIsha a' b' lat dec dhuhr).1 = some f')
    (hi : (fajrIsha a b lat dec dhuhr).2 = some i) (hi' : (fajrIsha a' b' lat dec dhuhr).2 = some i') :
    f' ≤ f ∧ i ≤ i' := by
  have hc := hours_per_degree_pos
  unfold fajrIsha at hf hf' hi hi'
  simp only at hf hf' hi hi'
  split at hf <;> [skip; simp at hf]
  split at hf' <;> [skip; simp at hf']
  split at hi <;> [skip; simp at hi]
  split at hi' <;> [skip; simp at hi']
  rename_i wf wf' wi wi'
  simp only [Option.some.injEq] at hf hf' hi hi'
  rw [withinAbs1_real] at wf wf' wi wi'
  have m1 := twilightCos_antitone lat dec a a' hk ha0 ha ha1
  have m2 := twilightCos_antitone lat dec b b' hk hb0 hb hb1
  have e1 := toDegrees_le (Real.arccos_le_arccos m1)
  have e2 := toDegrees_le (Real.arccos_le_arccos m2)
  simp only [sc_acos] at hf hf' hi hi'
  constructor
  · rw [← hf, ← hf']; nlinarith
  · rw [← hi, ← hi']; nlinarith

/-- **Imsaak ≤ Fajr**: Imsaak is Fajr at the angle Fajr + Imsaak (below), a non-negative Imsaak
    angle is a larger depression, so it is never later -/
theorem imsaak_le_fajr (a im b lat dec dhuhr f fi : ℝ)
    (hk : 0 < Real.cos (toRadians lat) * Real.cos (toRadians dec))
    (ha0 : -90 ≤ a) (him : 0 ≤ im) (ha1 : a + im ≤ 90)
    (hf : (fajrIsha a b lat dec dhuhr).1 = some f) (hfi : (fajrIsha (a + im) b lat dec dhuhr).1 = some fi) :
    fi ≤ f := by
  have hc := hours_per_degree_pos
  unfold fajrIsha at hf hfi
  simp only at hf hfi
  split at hf <;> [skip; simp at hf]
  split at hfi <;> [skip; simp at hfi]
  simp only [Option.some.injEq, sc_acos] at hf hfi
  have m1 := twilightCos_antitone lat dec a (a + im) hk ha0 (by linarith) ha1
  have e1 := toDegrees_le (Real.arccos_le_arccos m1)
  rw [← hf, ← hfi]; nlinarith

variable {α : Type} [Add α] [Sub α] [Mul α] [Div α] [Neg α] [OfScientific α] [Sc α]

/-- **Imsaak is Fajr with the Imsaak angle added** (no Fajr/Imsaak interval): the parameter set
    the Imsaak computation starts from differs from the caller's only in the Fajr angle — for
    every scalar type -/
theorem imsaak_is_fajr_at_sum_angle (p : Params α) (hF : nonZero p.intFajr = false) (hI : nonZero p.intImsaak = false) :
    imsaakParams1 p = { p with angFajr := p.angFajr + p.angImsaak } := by
  simp [imsaakParams1, hF, hI]

/-- …and when neither that Fajr nor the reported Fajr is an extreme-latitude replacement, Imsaak is
    exactly that Fajr's time -/
theorem imsaak_time (p : Params α) (run : Params α → Except Panic (PHours α)) (h1 h0 : PHours α) (f : PH α)
    (hr : run (imsaakParams1 p) = .ok h1) (hf : h1.fajr = some f) (hne : f.extreme = false)
    (hr0 : run p = .ok h0) (hne0 : fajrExtreme h0 = false) :
    imsaakOf p run = optTime (imsaakParams1 p) .Fajr (some f) := by
  have e1 : fajrExtreme h1 = false := by simp [fajrExtreme, hf, hne]
  simp [imsaakOf, hr, hr0, hne0, e1, hf]

/-- the per-method angle table, as documented in params.rs (angles in degrees, Isha interval in
    minutes); regenerated from `Params::new` on every run -/
theorem method_table :
    (Gen.methodRow .None : MethodRow α) = ⟨0.0, 0.0, 0.0, .Shafi⟩ ∧
    (Gen.methodRow .Egyptian : MethodRow α) = ⟨20.0, 18.0, 0.0, .Shafi⟩ ∧
    (Gen.methodRow .Egypt : MethodRow α) = ⟨19.5, 17.5, 0.0, .Shafi⟩ ∧
    (Gen.methodRow .Shafi : MethodRow α) = ⟨18.0, 18.0, 0.0, .Shafi⟩ ∧
    (Gen.methodRow .Hanafi : MethodRow α) = ⟨18.0, 18.0, 0.0, .Hanafi⟩ ∧
    (Gen.methodRow .Isna : MethodRow α) = ⟨15.0, 15.0, 0.0, .Shafi⟩ ∧
    (Gen.methodRow .Mwl : MethodRow α) = ⟨18.0, 17.0, 0.0, .Shafi⟩ ∧
    (Gen.methodRow .UmmAlQurra : MethodRow α) = ⟨18.0, 0.0, 90.0, .Shafi⟩ ∧
    (Gen.methodRow .FixedIsha : MethodRow α) = ⟨19.5, 0.0, 90.0, .Shafi⟩ ∧
    (Gen.DEF_IMSAAK_ANGLE : α) = 1.5 :=
  ⟨rfl, rfl, rfl, rfl, rfl, rfl, rfl, rfl, rfl, rfl⟩

-- non-vacuity: at the equator with δ = 0, an 18° Fajr exists (r = sin(-18°) ∈ [-1,1])
example : ∃ f, (fajrIsha (18 : ℝ) 18 0 0 12).1 = some f := by
  have : withinAbs1 (twilightCos (0 : ℝ) 0 18) = true := by
    rw [withinAbs1_real, twilightCos_real]
    simp only [toRadians_real, zero_mul, Real.sin_zero, Real.cos_zero, mul_zero, sub_zero, mul_one, div_one]
    exact ⟨Real.neg_one_le_sin _, Real.sin_le_one _⟩
  simp [fajrIsha, this]

end IPT.C03
