import IPT.Model.Times
import IPT.Model.Hijri
import IPT.Model.Range
import IPT.Model.Rng
import IPT.Model.Qibla
import IPT.Model.Bounded
import IPT.Model.F64
import IPT.Model.Fmt
import IPT.Model.Cli
import IPT.Model.CliDecode
/- Line-protocol driver: the Float instance of the model, one request per line, one answer per
   line.  Every f64 travels as 16 hex digits of its bit pattern. -/
namespace IPT.Driver
open IPT

def hexDigit (c : Char) : Option Nat :=
  if '0' ≤ c ∧ c ≤ '9' then some (c.toNat - '0'.toNat)
  else if 'a' ≤ c ∧ c ≤ 'f' then some (c.toNat - 'a'.toNat + 10)
  else none

def parseHex (s : String) : Option UInt64 :=
  if s.length != 16 then none else
  s.toList.foldl (fun acc c => match acc, hexDigit c with
    | some a, some d => some (a * 16 + d.toUInt64)
    | _, _ => none) (some 0)

def pf (s : String) : Option Float := (parseHex s).map Float.ofBits

def hexOf (x : Float) : String :=
  let b := x.toBits.toNat
  let ds := Nat.toDigits 16 b
  String.ofList (List.replicate (16 - ds.length) '0' ++ ds)

def parseRound : String → Option Round
  | "N" => some .None | "R" => some .NormalRounding | "S" => some .SpecialRounding
  | "A" => some .AggressiveRounding | _ => none

def parseAsr : String → Option AsrRatio
  | "1" => some .Shafi | "2" => some .Hanafi | _ => none

def parsePolicy (name : String) (lat : Float) : Option (Policy Float) :=
  match name with
  | "None" => some .None
  | "AngleBased" => some .AngleBased
  | "NearestLatitudeAllPrayersAlways" => some (.NearestLatitudeAllPrayersAlways lat)
  | "NearestLatitudeFajrIshaAlways" => some (.NearestLatitudeFajrIshaAlways lat)
  | "NearestLatitudeFajrIshaInvalid" => some (.NearestLatitudeFajrIshaInvalid lat)
  | "NearestGoodDayAllPrayersAlways" => some .NearestGoodDayAllPrayersAlways
  | "NearestGoodDayFajrIshaInvalid" => some .NearestGoodDayFajrIshaInvalid
  | "SeventhOfNightFajrIshaAlways" => some .SeventhOfNightFajrIshaAlways
  | "SeventhOfNightFajrIshaInvalid" => some .SeventhOfNightFajrIshaInvalid
  | "SeventhOfDayFajrIshaAlways" => some .SeventhOfDayFajrIshaAlways
  | "SeventhOfDayFajrIshaInvalid" => some .SeventhOfDayFajrIshaInvalid
  | "HalfOfNightFajrIshaAlways" => some .HalfOfNightFajrIshaAlways
  | "HalfOfNightFajrIshaInvalid" => some .HalfOfNightFajrIshaInvalid
  | "MinutesFromMaghribFajrIshaAlways" => some .MinutesFromMaghribFajrIshaAlways
  | "MinutesFromMaghribFajrIshaInvalid" => some .MinutesFromMaghribFajrIshaInvalid
  | _ => none

def policyName : Policy Float → String × Float
  | .None => ("None", 0.0)
  | .AngleBased => ("AngleBased", 0.0)
  | .NearestLatitudeAllPrayersAlways l => ("NearestLatitudeAllPrayersAlways", l)
  | .NearestLatitudeFajrIshaAlways l => ("NearestLatitudeFajrIshaAlways", l)
  | .NearestLatitudeFajrIshaInvalid l => ("NearestLatitudeFajrIshaInvalid", l)
  | .NearestGoodDayAllPrayersAlways => ("NearestGoodDayAllPrayersAlways", 0.0)
  | .NearestGoodDayFajrIshaInvalid => ("NearestGoodDayFajrIshaInvalid", 0.0)
  | .SeventhOfNightFajrIshaAlways => ("SeventhOfNightFajrIshaAlways", 0.0)
  | .SeventhOfNightFajrIshaInvalid => ("SeventhOfNightFajrIshaInvalid", 0.0)
  | .SeventhOfDayFajrIshaAlways => ("SeventhOfDayFajrIshaAlways", 0.0)
  | .SeventhOfDayFajrIshaInvalid => ("SeventhOfDayFajrIshaInvalid", 0.0)
  | .HalfOfNightFajrIshaAlways => ("HalfOfNightFajrIshaAlways", 0.0)
  | .HalfOfNightFajrIshaInvalid => ("HalfOfNightFajrIshaInvalid", 0.0)
  | .MinutesFromMaghribFajrIshaAlways => ("MinutesFromMaghribFajrIshaAlways", 0.0)
  | .MinutesFromMaghribFajrIshaInvalid => ("MinutesFromMaghribFajrIshaInvalid", 0.0)

/-- 17 tokens: round asr policy policyLat angF angI angIm intF intI intIm min×7 -/
def parseParams (t : List String) : Option (Params Float × List String) :=
  match t with
  | r :: a :: pol :: pl :: af :: ai :: aim :: nf :: ni :: nim :: m0 :: m1 :: m2 :: m3 :: m4 :: m5 :: m6 :: rest =>
    match parseRound r, parseAsr a, pf pl, pf af, pf ai, pf aim, pf nf, pf ni, pf nim with
    | some r, some a, some pl, some af, some ai, some aim, some nf, some ni, some nim =>
      match parsePolicy pol pl, pf m0, pf m1, pf m2, pf m3, pf m4, pf m5, pf m6 with
      | some pol, some m0, some m1, some m2, some m3, some m4, some m5, some m6 =>
        some ({ round := r, asr := a, policy := pol, angFajr := af, angIsha := ai, angImsaak := aim,
                intFajr := nf, intIsha := ni, intImsaak := nim, minImsaak := m0, minFajr := m1,
                minShurooq := m2, minDhuhr := m3, minAsr := m4, minMaghrib := m5, minIsha := m6 }, rest)
      | _, _, _, _, _, _, _, _ => none
    | _, _, _, _, _, _, _, _, _ => none
  | _ => none

def showRound : Round → String
  | .None => "N" | .NormalRounding => "R" | .SpecialRounding => "S" | .AggressiveRounding => "A"

def showParams (p : Params Float) : String :=
  let pn := policyName p.policy
  " ".intercalate [showRound p.round, (match p.asr with | .Shafi => "1" | .Hanafi => "2"), pn.1, hexOf pn.2,
    hexOf p.angFajr, hexOf p.angIsha, hexOf p.angImsaak, hexOf p.intFajr, hexOf p.intIsha, hexOf p.intImsaak,
    hexOf p.minImsaak, hexOf p.minFajr, hexOf p.minShurooq, hexOf p.minDhuhr, hexOf p.minAsr,
    hexOf p.minMaghrib, hexOf p.minIsha]

/-- lat lon elev gmt -/
def parseLoc (t : List String) : Option (Location Float × List String) :=
  match t with
  | la :: lo :: el :: g :: rest =>
    match pf la, pf lo, pf el, pf g with
    | some la, some lo, some el, some g => some (⟨⟨la, lo, el⟩, g⟩, rest)
    | _, _, _, _ => none
  | _ => none

/-- pressure temperature, or `-` `-` for absent -/
def parseWeather (t : List String) : Option (Option (Weather Float) × List String) :=
  match t with
  | "-" :: "-" :: rest => some (none, rest)
  | p :: tt :: rest =>
    match pf p, pf tt with
    | some p, some tt => some (some ⟨p, tt⟩, rest)
    | _, _ => none
  | _ => none

def parseMethod : String → Option Method
  | "None" => some .None | "Egyptian" => some .Egyptian | "Egypt" => some .Egypt | "Shafi" => some .Shafi
  | "Hanafi" => some .Hanafi | "Isna" => some .Isna | "Mwl" => some .Mwl | "UmmAlQurra" => some .UmmAlQurra
  | "FixedIsha" => some .FixedIsha | _ => none

def parsePrayer : String → Option Prayer
  | "Imsaak" => some .Imsaak | "Fajr" => some .Fajr | "Shurooq" => some .Shurooq | "Dhuhr" => some .Dhuhr
  | "Asr" => some .Asr | "Maghrib" => some .Maghrib | "Isha" => some .Isha | _ => none

def showOptF : Option Float → String
  | some x => hexOf x
  | none => "ERR"

def showPH : Option (PH Float) → String
  | some x => hexOf x.value ++ (if x.extreme then ":1" else ":0")
  | none => "ERR"

def showHours (h : Hours Float) : String :=
  " ".intercalate [showOptF h.fajr, showOptF h.shur, showOptF h.dhuhr, showOptF h.asr, showOptF h.magh, showOptF h.isha]

def showPHours (h : PHours Float) : String :=
  " ".intercalate [showPH h.fajr, showPH h.shur, showPH h.dhuhr, showPH h.asr, showPH h.magh, showPH h.isha]

def showHMS (t : HMS) : String := s!"{t.h}:{t.m}:{t.s}"

def showPT : Option PT → String
  | some t => showHMS t.time ++ (if t.extreme then ":1" else ":0")
  | none => "ERR"

def showAstro (a : Astro Float) : String :=
  " ".intercalate [hexOf a.ra, hexOf a.dec, hexOf a.sid, hexOf a.rsum, hexOf a.dra]

def showPanic : Panic → String
  | .unwrapErr s => "PANIC " ++ s
  | .hmsOpt => "PANIC hms"
  | .fuel s => "PANIC fuel " ++ s

def parseOptF (s : String) : Option (Option Float) :=
  if s == "ERR" then some none else (pf s).map some

def parseBType : String → Option BType
  | "Gmt" => some .Gmt | "Latitude" => some .Latitude | "Longitude" => some .Longitude
  | "Elevation" => some .Elevation | "Pressure" => some .Pressure | "Temperature" => some .Temperature
  | _ => none

def topOf (loc : Location Float) (rd : Int) : TopAstroDay Float :=
  topFromJd (JD.new rd loc.gmt) loc.coords

def bad : String := "BAD-REQUEST"

def b01 (b : Bool) : String := if b then "1" else "0"

/-- strings travel hex-encoded (two hex digits per byte) -/
def unhex (s : String) : Option String :=
  let rec go (cs : List Char) (acc : List UInt8) : Option (List UInt8) :=
    match cs with
    | [] => some acc.reverse
    | a :: b :: rest => match hexDigit a, hexDigit b with
      | some x, some y => go rest ((x * 16 + y).toUInt8 :: acc)
      | _, _ => none
    | _ => none
  match s.toList with
  | 'x' :: cs =>
    (match go cs [] with
    | some bytes => String.fromUTF8? (ByteArray.mk bytes.toArray)
    | none => none)
  | _ => none

/-- the UTF-8 bytes of a string, two hex digits per byte (the inverse of `unhex`, without the `x`) -/
def hexOfString (s : String) : String :=
  String.ofList (s.toUTF8.toList.flatMap fun (b : UInt8) =>
    let ds := Nat.toDigits 16 b.toNat
    List.replicate (2 - ds.length) '0' ++ ds)

def hexOfBits (b : Nat) : String :=
  let ds := Nat.toDigits 16 (b % 2 ^ 64)
  String.ofList (List.replicate (16 - ds.length) '0' ++ ds)

def rangeBits (t : BType) : Nat × Nat :=
  (((BType.lo t : Float)).toBits.toNat, ((BType.hi t : Float)).toBits.toNat)

def handle (toks : List String) : String :=
  match toks with
  | ["angle", which, x] =>
    match pf x with
    | some x =>
      (match which with
      | "360" => hexOf (capAngle360 x) | "180" => hexOf (capAngle180 x)
      | "1" => hexOf (capAngle1 x) | "pm180" => hexOf (capAngleBetween180 x) | _ => bad)
    | none => bad
  | ["civil", rd] =>
    match rd.toInt? with
    | some n => let d := fromRD n
      s!"{d.y} {d.m} {d.d} {ordinal d} {if isLeap d.y then 1 else 0} {toRD d}"
    | none => bad
  | ["jd", rd, g] =>
    match rd.toInt?, pf g with
    | some n, some g => hexOf (JD.new n g).value
    | _, _ => bad
  | ["jdsub", rd, g, k] =>
    match rd.toInt?, pf g, k.toNat? with
    | some n, some g, some k => let j := (JD.new n g).sub k; s!"{j.rd} {hexOf j.value}"
    | _, _, _ => bad
  | ["jdadd", rd, g, k] =>
    match rd.toInt?, pf g, k.toNat? with
    | some n, some g, some k => let j := (JD.new n g).add k; s!"{j.rd} {hexOf j.value}"
    | _, _, _ => bad
  | ["astro", jd] =>
    match pf jd with
    | some jd => showAstro (astroNew jd)
    | none => bad
  | "top" :: rd :: rest =>
    match rd.toInt?, parseLoc rest with
    | some n, some (loc, []) => let t := topOf loc n
      " ".intercalate [showAstro t.prev, showAstro t.cur, showAstro t.next]
    | _, _ => bad
  | "topnc" :: rd :: rest =>
    match rd.toInt?, parseLoc rest with
    | some n, some (loc, [la, lo, el]) =>
      (match pf la, pf lo, pf el with
      | some la, some lo, some el =>
        let t := (topOf loc n).newCoords ⟨la, lo, el⟩
        " ".intercalate [showAstro t.prev, showAstro t.cur, showAstro t.next]
      | _, _, _ => bad)
    | _, _ => bad
  | "params" :: [m] =>
    match parseMethod m with
    | some m => showParams (paramsNew m)
    | none => bad
  | "raw" :: rest =>
    match parseParams rest with
    | some (p, rest) =>
      (match parseLoc rest with
      | some (loc, rd :: rest) =>
        (match rd.toInt?, parseWeather rest with
        | some n, some (w, []) => showHours (getHours p (topOf loc n) (w.getD defaultWeather))
        | _, _ => bad)
      | _ => bad)
    | none => bad
  | "adj" :: rest =>
    match parseParams rest with
    | some (p, rest) =>
      (match parseLoc rest with
      | some (loc, rd :: rest) =>
        (match rd.toInt?, parseWeather rest with
        | some n, some (w, []) =>
          (match getHoursAdjExt p (topOf loc n) (w.getD defaultWeather) with
          | .ok h => showPHours h
          | .error e => showPanic e)
        | _, _ => bad)
      | _ => bad)
    | none => bad
  | "extlat" :: rest =>
    match parseParams rest with
    | some (p, rest) =>
      (match parseLoc rest with
      | some (loc, rd :: rest) =>
        (match rd.toInt?, parseWeather rest with
        | some n, some (w, [h1, h2, h3, h4, h5, h6]) =>
          (match parseOptF h1, parseOptF h2, parseOptF h3, parseOptF h4, parseOptF h5, parseOptF h6 with
          | some h1, some h2, some h3, some h4, some h5, some h6 =>
            let t := topOf loc n
            let w := w.getD defaultWeather
            (match adjForExtLat p ⟨h1, h2, h3, h4, h5, h6⟩ (envOf p t w) with
            | .ok h => showPHours h
            | .error e => showPanic e)
          | _, _, _, _, _, _ => bad)
        | _, _ => bad)
      | _ => bad)
    | none => bad
  | "imsaak" :: rest =>
    match parseParams rest with
    | some (p, rest) =>
      (match parseLoc rest with
      | some (loc, rd :: rest) =>
        (match rd.toInt?, parseWeather rest with
        | some n, some (w, []) =>
          (match getImsaak p (topOf loc n) (w.getD defaultWeather) with
          | .ok t => showPT t
          | .error e => showPanic e)
        | _, _ => bad)
      | _ => bad)
    | none => bad
  | "h2t" :: rest =>
    match parseParams rest with
    | some (p, [pr, h]) =>
      (match parsePrayer pr, pf h with
      | some pr, some h =>
        (match hourToTime p pr h with
        | .ok t => showHMS t
        | .error e => showPanic e)
      | _, _ => bad)
    | _ => bad
  | "ptdt" :: rest =>
    match parseParams rest with
    | some (p, rest) =>
      (match parseLoc rest with
      | some (loc, rd :: rest) =>
        (match rd.toInt?, parseWeather rest with
        | some n, some (w, []) =>
          (match prayerTimesDt p loc n w with
          | .ok d => " ".intercalate [showPT d.imsaak, showPT d.fajr, showPT d.shur, showPT d.dhuhr,
                                       showPT d.asr, showPT d.magh, showPT d.isha]
          | .error e => showPanic e)
        | _, _ => bad)
      | _ => bad)
    | none => bad
  | "rng" :: rest =>
    match parseParams rest with
    | some (p, rest) =>
      (match parseLoc rest with
      | some (loc, [s, e]) =>
        (match s.toInt?, e.toInt? with
        | some s, some e =>
          -- prayer_times_dt_rng: the dates of the range in order, each the single-date result
          let days := rngModel p loc s e
          (match days.find? (fun x => match x.2 with | .error _ => true | .ok _ => false) with
          | some (_, .error e) => showPanic e
          | _ =>
            let parts := days.filterMap fun (rd, r) => match r with
              | .ok d => some (toString rd ++ " " ++ " ".intercalate [showPT d.imsaak, showPT d.fajr, showPT d.shur,
                  showPT d.dhuhr, showPT d.asr, showPT d.magh, showPT d.isha])
              | .error _ => none
            toString parts.length ++ " " ++ " | ".intercalate parts)
        | _, _ => bad)
      | _ => bad)
    | none => bad
  | ["hijri", rd] =>
    match rd.toInt? with
    | some n =>
      (match hijriOf (fromRD n) with
      | some h =>
        if h.monthOk then s!"{h.year} {h.month} {h.day} {if h.preEpoch then 1 else 0} {h.weekday}"
        else s!"PANIC month {h.year} {h.month} {h.day} {if h.preEpoch then 1 else 0} {h.weekday}"
      | none => "PANIC fuel hijri")
    | none => bad
  | ["numdays", s, e] =>
    match s.toInt?, e.toInt? with
    | some s, some e => toString (numDays s e)
    | _, _ => bad
  | ["partition", s, e, k] =>
    match s.toInt?, e.toInt?, k.toNat? with
    | some s, some e, some k =>
      let ps := partition s e k
      s!"{ps.length}" ++ String.join (ps.map fun (a, b) => s!" {a}:{b}")
    | _, _, _ => bad
  | ["qibla", la, lo] =>
    match pf la, pf lo with
    | some la, some lo =>
      let d := qiblaDegrees la lo
      hexOf d ++ (match rotation d with | .Cw => " CW" | .Ccw => " CCW")
    | _, _ => bad
  | ["bounded", ty, v] =>
    match parseBType ty, pf v with
    | some t, some v =>
      (match tryFrom t v with
      | some x => "OK " ++ hexOf x
      | none => "ERR")
    | _, _ => bad
  | ["json", ty, v] =>
    match parseBType ty, pf v with
    | some t, some v =>
      (match fromJsonNumber t v with
      | some x => "OK " ++ hexOf x
      | none => "ERR")
    | _, _ => bad
  | ["fmt1", a] =>
    match parseHex a with
    | some a => hexOfString (F64.fmt1Abs a.toNat)
    | none => bad
  | ["qtext", a] =>
    match parseHex a with
    | some a => F64.fmt1Abs a.toNat ++ " " ++ (if F64.rotationIsCw a.toNat then "CW" else "CCW")
    | none => bad
  | ["f64cmp", a, b] =>
    match parseHex a, parseHex b with
    | some a, some b =>
      let (fa, fb) := (Float.ofBits a, Float.ofBits b)
      let (na, nb) := (a.toNat, b.toNat)
      " ".intercalate [b01 (fa ≤ fb), b01 (fa < fb), b01 (fa == fb), b01 (F64.le na nb), b01 (F64.lt na nb), b01 (F64.eq na nb)]
    | _, _ => bad
  | ["parse", which, hs] =>
    match unhex hs with
    | some str =>
      let p := if which == "json" then F64.parseJson str else F64.parseRust str
      (match p.bits? with
      | some b =>
        -- serde_json reports an out-of-range number as an error; it has no inf/nan literals
        if which == "json" && !F64.isFinite b then "ERR" else hexOfBits b
      | none => "ERR")
    | none => bad
  | ["route", ty, which, hs] =>
    match parseBType ty, unhex hs with
    | some t, some str =>
      let (lo, hi) := rangeBits t
      let r := if which == "json" then F64.jsonRoute t.jsonChecked lo hi str else F64.textRoute lo hi str
      (match r with
      | some x => "OK " ++ hexOfBits x
      | none => "ERR")
    | _, _ => bad
  | "cli" :: m :: rest =>
    match parseMethod m, parseLoc rest with
    | some m, some (loc, [s, e]) =>
      (match s.toInt?, e.toInt? with
      | some s, some e =>
        let cfg : ParamsConfig Float := readParamsCli ⟨m, loc.coords.lat, loc.coords.lon, loc.coords.elev, loc.gmt, some s, some e⟩ 0
        (match cliCompute cfg with
        | .ok days =>
          let js := renderRange days
          let jc := renderRangeCanon days
          let dec := if decodeRange js == some days && decodeRangeCanon jc == some days then "D1" else "D0"
          s!"J {js.utf8ByteSize} {hexOfBits (fnv1a js).toNat} {jc.utf8ByteSize} {hexOfBits (fnv1a jc).toNat} {dec}"
        | .error e => showPanic e)
      | _, _ => bad)
    | _, _ => bad
  | ["rangecheck", ty] =>
    match parseBType ty with
    | some t =>
      let (lo, hi) := rangeBits t
      let (blo, bhi) := boundBits t
      " ".intercalate [hexOfBits lo, hexOfBits hi, hexOfBits blo, hexOfBits bhi]
    | none => bad
  | ["boundedbits", ty, v] =>
    match parseBType ty, parseHex v with
    | some t, some v =>
      let (lo, hi) := rangeBits t
      (match F64.tryFromBits lo hi v.toNat with
      | some x => "OK " ++ hexOfBits x
      | none => "ERR")
    | _, _ => bad
  | _ => bad

end IPT.Driver
