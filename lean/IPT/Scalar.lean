/-
  The scalar interface of the model: everything `f64` offers that the code uses and that is
  not one of Lean's standard arithmetic classes.  Two instances exist: `Float` (below; the
  executable twin that is bit-compared with the Rust code) and `ℝ` (IPT/Real/Inst.lean; the
  ideal-arithmetic semantics the analytic theorems are about).  Decision-logic theorems are
  proved for every instance.
-/
namespace IPT

class Sc (α : Type) where
  pi : α
  sin : α → α
  cos : α → α
  tan : α → α
  asin : α → α
  acos : α → α
  atan : α → α
  atan2 : α → α → α
  floor : α → α
  abs : α → α
  /-- `a < b` on f64 (false when either is NaN) -/
  ltb : α → α → Bool
  /-- `a <= b` on f64 -/
  leb : α → α → Bool
  /-- `a == b` on f64 -/
  eqb : α → α → Bool
  /-- `x as u32` (saturating, NaN ↦ 0) -/
  toU32 : α → Nat
  /-- `n as f64` -/
  ofInt : Int → α

section
variable {α : Type} [Add α] [Sub α] [Mul α] [Div α] [Neg α] [OfScientific α] [Sc α]

/-- `f64::to_radians`: multiplication by the constant `PI / 180` -/
def toRadians (x : α) : α := x * (Sc.pi / 180.0)
/-- `f64::to_degrees`: multiplication by the constant `180 / PI` -/
def toDegrees (x : α) : α := x * (180.0 / Sc.pi)

/-- `(-1. ..=1.).contains(&v)` -/
def withinAbs1 (v : α) : Bool := Sc.leb (-1.0) v && Sc.leb v 1.0

end

instance : Sc Float where
  pi := 3.14159265358979323846264338327950288
  sin := Float.sin
  cos := Float.cos
  tan := Float.tan
  asin := Float.asin
  acos := Float.acos
  atan := Float.atan
  atan2 := Float.atan2
  floor := Float.floor
  abs := Float.abs
  ltb a b := a < b
  leb a b := a ≤ b
  eqb a b := a == b
  toU32 x := x.toUInt32.toNat
  -- `Float.ofInt` goes through `Float.ofScientific` (a bignum parse per call); for |i| ≤ 10^9 (small-integer representation: cheap test) the
  -- 64-bit conversion gives the same (exact) value and is what the hot loops need
  ofInt i := if -1000000000 ≤ i ∧ i ≤ 1000000000 then i.toInt64.toFloat else Float.ofInt i

end IPT
