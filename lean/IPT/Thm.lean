import IPT.Thm.C14
