import IPT.Thm.C14
import IPT.Thm.C17
