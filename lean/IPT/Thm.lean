import IPT.Thm.C07
import IPT.Thm.C08
import IPT.Thm.C11
import IPT.Thm.C14
import IPT.Thm.C17
