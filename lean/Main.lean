import IPT.Driver

partial def loop (inp : IO.FS.Stream) (out : IO.FS.Stream) : IO Unit := do
  let line ← inp.getLine
  if line.isEmpty then return ()
  let toks := (line.trimAscii.toString.splitOn " ").filter (· ≠ "")
  out.putStrLn (IPT.Driver.handle toks)
  loop inp out

def main : IO Unit := do
  let inp ← IO.getStdin
  let out ← IO.getStdout
  loop inp out
  out.flush
